#!/usr/bin/env python3
"""Static verification of pyOMA2 properties C01-C20.

  check.py <Cxx> [--tier quick|thorough] [--root /repo/src/pyoma2]
  check.py --replay <replay file>
  check.py --all [--tier ...]

exit 0: every obligation holds (known findings are listed as KNOWN-FINDING lines)
exit 1: VIOLATION property=<id> replay=<path>  (one line per new violation)
exit 2: ANALYSIS-ERROR ... the checker could not decide (anchor lost, unmodelled construct, internal error)
Nothing under /repo is imported or executed: the package source is parsed with `ast`.
"""
import argparse
import importlib
import json
import os
import sys
import traceback

HERE = os.path.dirname(os.path.abspath(__file__))
sys.path.insert(0, HERE)

from sa.program import Program, AnalysisError, DEFAULT_ROOT  # noqa: E402
from sa import report  # noqa: E402

PROPS = [f"C{i:02d}" for i in range(1, 21)]


def load_prop(pid):
    return importlib.import_module(f"sa.props.{pid}")


def run_prop(pid, tier, root, seed=0, quiet=False):
    run = report.Run(pid, tier, seed)
    stats = None
    selftest = None
    try:
        prog = Program(root)
        stats = prog.stats()
        from sa import astq
        astq.PROG = prog
        mod = load_prop(pid)
        mod.check(prog, run)
        if tier == "thorough" and hasattr(mod, "thorough"):
            mod.thorough(prog, run)
        known = {k["key"] for k in report.load_known() if k.get("property") == pid and k.get("status") == "open"}
        if tier == "thorough" and not [o for o in run.violations() if o.key() not in known] and not run.errors:
            from sa import selftest as st
            selftest = st.run_selftest(pid, mod, prog, run, seed)
    except AnalysisError as e:
        run.error(str(e))
    except RecursionError:
        run.error("checker recursion limit")
    except Exception as e:  # checker bug: never report it as a violation
        run.error(f"internal error {type(e).__name__}: {e} :: " + traceback.format_exc().splitlines()[-3].strip())
        if os.environ.get("VERIF_DEBUG"):
            traceback.print_exc()
    return report.finish(run, stats, selftest)


def main():
    ap = argparse.ArgumentParser()
    ap.add_argument("prop", nargs="?")
    ap.add_argument("--tier", default=os.environ.get("VERIF_TIER", "quick"), choices=["quick", "thorough"])
    ap.add_argument("--root", default=str(DEFAULT_ROOT))
    ap.add_argument("--replay")
    ap.add_argument("--all", action="store_true")
    ap.add_argument("--selfcheck", action="store_true", help="setup: parse the package and print what the checker sees")
    a = ap.parse_args()
    seed = int(os.environ.get("VERIF_SEED", "0") or 0)
    sys.setrecursionlimit(10000)
    if a.selfcheck:
        try:
            prog = Program(a.root)
        except AnalysisError as e:
            print(f"ANALYSIS-ERROR setup {e}")
            return 2
        # the abstract domains on tiny synthetic sources: equal spellings must agree, broken variants must be seen
        from sa import engine_tests
        try:
            n_cases, fails = engine_tests.run(a.root)
        except Exception as e:  # noqa
            print(f"ANALYSIS-ERROR setup engine self-test crashed: {type(e).__name__}: {e}")
            return 2
        for f_ in fails:
            print("ANALYSIS-ERROR setup engine self-test:", f_)
        if fails:
            return 2
        print("selfcheck ok:", prog.stats(), "python", sys.version.split()[0], f"engine self-tests: {n_cases} cases agree")
        return 0
    if a.replay:
        rp = json.loads(open(a.replay).read())
        pid, key = rp["property"], rp["key"]
        run = report.Run(pid, "quick", seed)
        try:
            prog = Program(a.root)
            load_prop(pid).check(prog, run)
        except AnalysisError as e:
            print(f"ANALYSIS-ERROR property={pid} {e}")
            return 2
        hit = [o for o in run.violations() if o.key() == key]
        if hit:
            o = hit[0]
            print(f"replay: still violated: {o.rule} at {o.file}:{o.line} in {o.fn} [{o.role}] -- {o.detail}")
            print(f"VIOLATION property={pid} replay={a.replay}")
            return 1
        print(f"replay: obligation {key} no longer violated")
        return 0
    if a.all:
        worst = 0
        for pid in PROPS:
            try:
                load_prop(pid)
            except ImportError:
                continue
            worst = max(worst, run_prop(pid, a.tier, a.root, seed))
        return worst
    if not a.prop or a.prop not in PROPS:
        ap.error("give a property id C01..C20")
    return run_prop(a.prop, a.tier, a.root, seed)


if __name__ == "__main__":
    try:
        code = main()
    except SystemExit:
        raise
    except BaseException as e:  # noqa
        print(f"ANALYSIS-ERROR internal {type(e).__name__}: {e}")
        code = 2
    sys.stdout.flush()
    sys.exit(code)
