"""E2/E3 - abstract interpreter over the Python subset used by pyoma2, in the homogeneity-degree
("HOMDEG") domain.

A Deg value is the support of a polynomial: a finite set of monomials over base symbols chosen by
the obligation (g data gain, s time unit, S spectral scale, c0/ck per-setup scale, n record length).
A singleton support means "homogeneous of that degree in every symbol".  ANY = 0/NaN/empty
(compatible with every degree), Top = not homogeneous (with the reason), Unk = outside the model.

Nothing is executed: package functions are interpreted from their ast (inlined, depth-bounded),
numpy/scipy calls go through the transfer table below, each entry a homogeneity fact.
"""
import ast
import os
import operator
from fractions import Fraction as Fr

from .program import FuncInfo, ClassInfo, ModRef, Ext as PExt, AnalysisError


# ----------------------------------------------------------------------------- values
class V:
    pass


class Deg(V):
    __slots__ = ("sup", "rank", "tag")

    def __init__(self, sup, rank=None, tag=None):
        self.sup = frozenset(sup)
        self.rank = rank
        self.tag = tag

    def single(self):
        return len(self.sup) == 1

    def mono(self):
        return dict(next(iter(self.sup)))

    def fmt(self):
        def m(t):
            return "1" if not t else "*".join(f"{s}^{e}" for s, e in t)
        return "{" + " + ".join(sorted(m(t) for t in self.sup)) + "}"

    def __repr__(self):
        return "Deg" + self.fmt() + (f"r{self.rank}" if self.rank is not None else "")

    def __eq__(self, o):
        return isinstance(o, Deg) and self.sup == o.sup

    def __hash__(self):
        return hash(self.sup)


def mono(**kw):
    return tuple(sorted((k, Fr(v)) for k, v in kw.items() if v != 0))


def D(rank=None, **kw):
    return Deg([mono(**kw)], rank)


ONE = D()


class Arr(Deg):
    """a Deg that also knows the (abstract) extent of each axis: dims = tuple of Deg"""
    __slots__ = ("dims",)

    def __init__(self, sup, dims, tag=None):
        super().__init__(sup, len(dims), tag)
        self.dims = tuple(dims)


class Any_(V):
    rank = None

    def __repr__(self):
        return "ANY"


ANY = Any_()


class AnyR(Any_):
    def __init__(self, rank):
        self.rank = rank

    def __repr__(self):
        return f"ANYr{self.rank}"


ANY0 = AnyR(0)
SCAL = Deg({()}, 0)


class Top(V):
    def __init__(self, why):
        self.why = why

    def __repr__(self):
        return f"TOP({self.why})"


class Unk(V):
    def __init__(self, why):
        self.why = why
        CTX.events.append(("unk", CTX.where(), why))

    def __repr__(self):
        return f"UNK({self.why})"


class Cst(V):
    def __init__(self, v):
        self.v = v

    def __repr__(self):
        return f"Cst({self.v!r})"


class Bool(V):
    def __repr__(self):
        return "BOOL"


BOOL = Bool()


class Tup(V):
    def __init__(self, items):
        self.items = list(items)

    def __repr__(self):
        return "Tup" + repr(self.items)


class Lst(V):
    """abstract list: explicit prefix + optional summarised tail"""

    def __init__(self, items=None, tail=None):
        self.items = list(items or [])
        self.tail = tail

    def __repr__(self):
        return f"Lst{self.items!r}+[{self.tail!r}*]"

    def copy(self):
        return Lst(list(self.items), self.tail)


class Dct(V):
    def __init__(self, d):
        self.d = dict(d)

    def __repr__(self):
        return "Dct" + repr(self.d)


class Obj(V):
    def __init__(self, attrs=None, cls=None):
        self.attrs = dict(attrs or {})
        self.cls = cls  # ClassInfo

    def __repr__(self):
        return f"Obj<{self.cls.qual if self.cls else None}>"


class Fn(V):
    def __init__(self, fi, bound=None, closure=None, node=None, qual=None, mod=None, cls=None):
        self.fi = fi
        self.node = node if node is not None else fi.node
        self.qual = qual or fi.qual
        self.mod = mod or fi.mod
        self.bound = bound
        self.closure = closure
        self.cls = cls if cls is not None else (fi.cls if fi is not None else None)

    def __repr__(self):
        return f"Fn<{self.qual}>"


class Ext(V):
    def __init__(self, name):
        self.name = name

    def __repr__(self):
        return f"Ext<{self.name}>"


class ModV(V):
    def __init__(self, name):
        self.name = name


class ClsV(V):
    def __init__(self, ci):
        self.ci = ci


class IdxV(Deg):
    """loop index known to be >= lo"""

    def __init__(self, lo):
        super().__init__({()}, 0)
        self.lo = lo

    def __repr__(self):
        return f"Idx>={self.lo}"


SLICE = ("slice",)


# ----------------------------------------------------------------------------- context
class Ctx:
    def __init__(self):
        self.reset(None)

    def reset(self, prog):
        self.prog = prog
        self.events = []
        self.depth = 0
        self.stack = []
        self.lines = []
        self.generic = 0
        self.loopdepth = 0
        self.probes = {}      # ext name -> list of recorded (where, argdeg)
        self.probe_names = set()
        self.fn_probes = {}   # package function qual -> list of (args, kw, ret)
        self.fn_probe_names = set()
        self.used = set()     # transfer entries exercised (trusted base)
        self.traversed = set()
        self.overrides = {}
        self.steps = 0

    def where(self):
        fn = self.stack[-1] if self.stack else "?"
        ln = self.lines[-1] if self.lines else 0
        return (fn, ln)

    def event(self, kind, node, msg):
        fn = self.stack[-1] if self.stack else "?"
        self.events.append((kind, (fn, getattr(node, "lineno", 0) or (self.lines[-1] if self.lines else 0)), msg))


CTX = Ctx()


# ----------------------------------------------------------------------------- lattice ops
def mul_sup(a, b):
    out = set()
    for x in a:
        for y in b:
            d = dict(x)
            for s, e in y:
                d[s] = d.get(s, 0) + e
            out.add(tuple(sorted((s, e) for s, e in d.items() if e != 0)))
    return out


def pow_sup(a, k):
    return {tuple(sorted((s, e * k) for s, e in m if e * k != 0)) for m in a}


MAXSUP = 8
STR_PURE = {"strip", "lstrip", "rstrip", "lower", "upper", "casefold", "title", "capitalize", "replace", "startswith", "endswith",
            "removeprefix", "removesuffix", "isdigit", "isalpha", "zfill"}
JOIN_MAY = [True]     # False while values that are all present are united (container items, loop accumulation)
MAY = "?alt"       # formal symbol carried by the monomials that entered a support through a control-flow join (either-or, not a sum)


def mark_may(sup):
    out = set()
    for m in sup:
        d = dict(m)
        d.setdefault(MAY, Fr(1))
        out.add(tuple(sorted(d.items())))
    return out


HET = "?part"      # carried by the monomials that entered the support of a CONTAINER through the union of its items: some entries have this
                   # degree, others another.  The container as a whole has them all (a stacked matrix with rows of a wrong degree is wrong);
                   # ONE element taken out of it has one of them - which, the domain does not know: on extraction ?part becomes ?alt


def mark_het(sup):
    out = set()
    for m in sup:
        d = dict(m)
        d.setdefault(HET, Fr(1))
        out.add(tuple(sorted(d.items())))
    return out


def het_to_may(v):
    """the value of ONE element / one unpacked position of v"""
    if isinstance(v, Deg) and any(s_ == HET for m in v.sup for s_, _ in m):
        sup = set()
        for m in v.sup:
            d = dict(m)
            if HET in d:
                del d[HET]
                d.setdefault(MAY, Fr(1))
            sup.add(tuple(sorted(d.items())))
        return Deg(frozenset(sup), v.rank, getattr(v, "tag", None))
    return v


def is_may(v):
    """the value's support is not exact: some monomial is an alternative from a join, or the text of a Top / message names one"""
    if isinstance(v, Deg):
        return any(s == MAY for m in v.sup for s, _ in m)
    if isinstance(v, Top):
        return MAY in str(v.why)
    if isinstance(v, str):
        return MAY in v
    return False


def too_large(s):
    return Top("support too large" + (f" (with alternatives {MAY})" if any(x in (MAY, HET) for m in s for x, _ in m) else ""))


def num(v):
    """coerce to a numeric abstract value"""
    if isinstance(v, Cst):
        if isinstance(v.v, bool):
            return SCAL
        if isinstance(v.v, (int, float, complex)):
            if v.v == 0 or v.v != v.v:
                return ANY0
            return SCAL
        if v.v is None:
            return v
        return Unk(f"num({v.v!r})")
    if isinstance(v, Bool):
        return ONE
    if isinstance(v, Ext):
        if v.name in ("numpy.pi", "numpy.e", "math.pi"):
            return SCAL
        if v.name in ("numpy.nan", "numpy.NaN", "numpy.inf", "math.inf", "math.nan"):
            return ANY0
        return Unk(f"num({v.name})")
    if isinstance(v, (Tup, Lst)):
        its = list(v.items) + ([v.tail] if isinstance(v, Lst) and v.tail is not None else [])
        r = ANY
        for i in its:
            r = union(r, num(i))        # the items of a container all exist: their degrees are a union, not alternatives
        if isinstance(r, Deg):
            rks = [getattr(num(i), "rank", None) for i in its]
            rk = None
            if rks and all(x == rks[0] for x in rks):
                if rks[0] is not None:
                    rk = rks[0] + 1
                elif all(isinstance(i, (Cst, Bool)) for i in its):
                    rk = 1
            r = Deg(r.sup, rk)
        return r
    if isinstance(v, tuple):
        return Unk(f"num({v[0]})")
    return v


def union(a, b):
    """join of values that are ALL present (items of a container, parts of a stack): no either-or marking"""
    old = JOIN_MAY[0]
    JOIN_MAY[0] = None          # (None: mark what the second brings as ?part)
    try:
        return join(a, b)
    finally:
        JOIN_MAY[0] = old


def join(a, b):
    if a is None:
        return b
    if b is None:
        return a
    if a is b:
        return a
    if isinstance(a, Any_):
        return b
    if isinstance(b, Any_):
        return a
    if isinstance(a, Top):
        return a
    if isinstance(b, Top):
        return b
    if isinstance(a, Unk):
        return a
    if isinstance(b, Unk):
        return b
    if isinstance(a, Cst) and isinstance(b, Cst):
        if type(a.v) == type(b.v) and a.v == b.v:
            return a
        if a.v is None:
            return b  # optimistic Optional
        if b.v is None:
            return a
        na, nb = num(a), num(b)
        if isinstance(na, (Deg, Any_)) and isinstance(nb, (Deg, Any_)):
            return join(na, nb)
        return BOOL
    if isinstance(a, Cst) and a.v is None:
        return b
    if isinstance(b, Cst) and b.v is None:
        return a
    if isinstance(a, (Cst, Bool)) and isinstance(b, (Cst, Bool)):
        return BOOL
    if isinstance(a, (Cst, Bool)):
        return join(num(a) if not isinstance(a, Bool) else ONE, b)
    if isinstance(b, (Cst, Bool)):
        return join(a, num(b) if not isinstance(b, Bool) else ONE)
    if isinstance(a, Deg) and isinstance(b, Deg):
        if a.sup == b.sup:
            if isinstance(a, IdxV) and isinstance(b, IdxV):
                return IdxV(min(a.lo, b.lo))
            if isinstance(a, Arr) and isinstance(b, Arr) and len(a.dims) == len(b.dims) and \
                    all(getattr(x, "sup", None) == getattr(y, "sup", 0) for x, y in zip(a.dims, b.dims)):
                return Arr(a.sup, a.dims, a.tag if a.tag == b.tag else None)
            return Deg(a.sup, a.rank if a.rank == b.rank else None, a.tag if a.tag == b.tag else None)
        # either a or b: the part only b brings is an alternative, not a summand.  Not so at the head of a LOOP: what the body adds to an
        # accumulated value (rows stacked on, terms added) is there whenever the loop runs at all
        s = a.sup | (frozenset(mark_may(b.sup - a.sup)) if JOIN_MAY[0] else (frozenset(mark_het(b.sup - a.sup)) if JOIN_MAY[0] is None else (b.sup - a.sup)))
        return Deg(s, a.rank if a.rank == b.rank else None) if len(s) <= MAXSUP else too_large(s)
    if isinstance(a, Tup) and isinstance(b, Tup) and len(a.items) == len(b.items):
        return Tup([join(x, y) for x, y in zip(a.items, b.items)])
    if isinstance(a, ShapeV) and isinstance(b, ShapeV):
        if a.rank == b.rank and a.dims is not None and b.dims is not None and all(getattr(x, "sup", 0) == getattr(y, "sup", 1) for x, y in zip(a.dims, b.dims)):
            return a
        return ShapeV(a.rank if a.rank == b.rank else None)
    if isinstance(a, Lst) and isinstance(b, Lst):
        n = min(len(a.items), len(b.items))
        items = [join(x, y) for x, y in zip(a.items[:n], b.items[:n])]
        longer = a if len(a.items) > len(b.items) else b
        if len(a.items) != len(b.items):
            CTX.events.append(("assume", CTX.where(), "list-length join: longer prefix kept"))
        items += longer.items[n:]
        return Lst(items, join(a.tail, b.tail))
    if isinstance(a, Dct) and isinstance(b, Dct):
        return Dct({k: join(a.d.get(k), b.d.get(k)) for k in list(a.d) + [k for k in b.d if k not in a.d]})
    if isinstance(a, Obj) and isinstance(b, Obj):
        if a is b:
            return a
        o_ = Obj({k: join(a.attrs.get(k), b.attrs.get(k)) for k in set(a.attrs) | set(b.attrs)}, a.cls)
        if getattr(a, "nt_fields", None) and getattr(a, "nt_fields", None) == getattr(b, "nt_fields", None):
            o_.nt_fields = list(a.nt_fields)
        return o_
    if isinstance(a, (Fn, Ext, ModV, ClsV)) or isinstance(b, (Fn, Ext, ModV, ClsV)):
        return a
    if isinstance(a, Deg) and isinstance(b, (Tup, Lst)):
        return join(a, num(b))
    if isinstance(b, Deg) and isinstance(a, (Tup, Lst)):
        return join(num(a), b)
    return Unk(f"join({type(a).__name__},{type(b).__name__})")


def _rank(a, b):
    ra, rb = getattr(a, "rank", None), getattr(b, "rank", None)
    if ra is None or rb is None:
        return None
    return max(ra, rb)


def add(a, b, node=None):
    a, b = num(a), num(b)
    for x in (a, b):
        if isinstance(x, (Top, Unk)):
            return x
    if isinstance(a, Any_):
        return b
    if isinstance(b, Any_):
        return a
    if isinstance(a, Deg) and isinstance(b, Deg):
        s = a.sup | b.sup
        if len(s) > 1 and node is not None and a.single() and b.single():
            CTX.event("mix", node, f"sum of different degrees {a.fmt()} and {b.fmt()}")
        r = _rank(a, b)
        return Deg(s, r) if len(s) <= MAXSUP else too_large(s)
    return Unk(f"add({a},{b})")


def mul(a, b):
    a, b = num(a), num(b)
    for x in (a, b):
        if isinstance(x, (Top, Unk)):
            return x
    if isinstance(a, Any_) or isinstance(b, Any_):
        r = _rank(a, b)
        return AnyR(r) if r is not None else ANY
    if isinstance(a, Deg) and isinstance(b, Deg):
        s = mul_sup(a.sup, b.sup)
        return Deg(s, _rank(a, b)) if len(s) <= MAXSUP else too_large(s)
    return Unk(f"mul({a},{b})")


def matmul(a, b):
    """np.dot / @ : degree adds; rank follows matrix-product rules when known"""
    r = mul(a, b)
    ra, rb = getattr(num(a), "rank", None), getattr(num(b), "rank", None)
    if isinstance(r, Deg) and ra is not None and rb is not None:
        if ra == 0 or rb == 0:
            rk = max(ra, rb)
        else:
            rk = max(ra + rb - 2, 0)
        return Deg(r.sup, rk)
    return r


def inv(a, what="inverse", node=None):
    a = num(a)
    if isinstance(a, (Top, Unk)):
        return a
    if isinstance(a, Any_):
        return a
    if isinstance(a, Deg):
        if not a.single():
            parts = _entrywise(a)
            if parts is not None and what in ("division", "inverse of a scalar"):
                # a container whose ENTRIES differ in degree (each entry homogeneous): the element-wise reciprocal is taken entry by entry
                return Deg(frozenset(parts), a.rank)
            if node is not None:
                CTX.event("nonhom", node, f"{what} of a non-homogeneous quantity {a.fmt()}")
            return Top(f"{what} of non-homogeneous {a.fmt()}")
        return Deg(pow_sup(a.sup, -1), a.rank)
    return Unk(f"inv({a})")


def _entrywise(a):
    """the monomial-wise reciprocal of a support whose monomials (all but at most one) carry the ?part marker - a union over the entries of
    a container, not a sum inside one value; None otherwise"""
    plain = [m for m in a.sup if not any(s_ == HET for s_, _ in m)]
    if len(plain) > 1:
        return None
    out = set()
    for m in a.sup:
        d = {s_: (-e_ if s_ not in (HET, MAY) else e_) for s_, e_ in m}
        out.add(tuple(sorted(d.items())))
    return out


def power(a, k, node=None):
    a = num(a)
    if isinstance(a, (Top, Unk, Any_)):
        return a
    if isinstance(k, Cst) and isinstance(k.v, (int, float)) and not isinstance(k.v, bool):
        kk = Fr(k.v).limit_denominator(64)
        if kk == int(kk) and kk >= 0:
            s = {()}
            for _ in range(int(kk)):
                s = mul_sup(s, a.sup)
            return Deg(s, a.rank) if len(s) <= MAXSUP else too_large(s)
        if not a.single():
            if node is not None:
                CTX.event("nonhom", node, f"fractional/negative power of a non-homogeneous quantity {a.fmt()}")
            return Top(f"fractional/negative power of non-homogeneous {a.fmt()}")
        return Deg(pow_sup(a.sup, kk), a.rank)
    if a.sup == {()}:
        return a
    return Top(f"power with non-constant exponent of {a.fmt()}")


def need_dimless(a, fname, node):
    a = num(a)
    if isinstance(a, (Top, Unk)):
        return a
    if isinstance(a, Any_):
        return Deg({()}, a.rank)
    if isinstance(a, Deg):
        if a.sup != {()}:
            CTX.event("nonhom", node, f"{fname} applied to a quantity of degree {a.fmt()}")
            return Top(f"{fname}({a.fmt()})")
        return Deg(a.sup, a.rank)
    return Unk(f"{fname}({a})")


COUNT_SYMS = {"n", "c", "q", "p", "k", "N", "m", "r"}      # extents / counts / formal markers: integers, rounding is legitimate


def check_decision(a, b, node, what):
    a, b = num(a), num(b)
    if isinstance(a, Any_) or isinstance(b, Any_):
        return
    if isinstance(a, Deg) and isinstance(b, Deg):
        if a.sup != b.sup:
            CTX.event("decision", node, f"{what}: compares degree {a.fmt()} with {b.fmt()}")
    elif isinstance(a, Top) or isinstance(b, Top):
        CTX.event("decision", node, f"{what}: on a non-homogeneous quantity ({a} vs {b})")


def elem(a):
    """abstract element of an iterable"""
    if isinstance(a, Lst):
        r = a.tail
        for i in a.items:
            r = union(r, i)
        return r if r is not None else ANY
    if isinstance(a, Tup):
        r = None
        for i in a.items:
            r = union(r, i)
        return r if r is not None else ANY
    if isinstance(a, Deg):
        return het_to_may(Deg(a.sup, a.rank - 1 if a.rank else None, a.tag))
    if isinstance(a, Any_):
        return AnyR(a.rank - 1) if a.rank else ANY
    if isinstance(a, Dct):
        return BOOL
    if nt_items(a) is not None:
        return elem(Tup(nt_items(a)))
    return a if isinstance(a, (Top, Unk)) else Unk(f"elem({a})")


def withrank(v, rk):
    if isinstance(v, Deg) and not isinstance(v, IdxV):
        return Deg(v.sup, rk, v.tag)
    if isinstance(v, Any_):
        return AnyR(rk)
    return v


# ----------------------------------------------------------------------------- numpy / scipy transfer table
def _a(args, i=0):
    return num(args[i]) if len(args) > i else ANY


def t_same(args, kw, node):
    return _a(args)


def t_same_keeprank(args, kw, node):
    return _a(args)


def t_reduce(args, kw, node):
    """sum/mean/max/min style reductions: same degree; rank drops when axis given, to 0 otherwise"""
    a = args[0] if args else ANY
    if isinstance(a, (Lst, Tup)):
        its = list(a.items) + ([a.tail] if isinstance(a, Lst) and a.tail is not None else [])
        r = ANY
        for i in its:
            r = add(r, i, node)
        axis = kw.get("axis")
        rk = getattr(r, "rank", None)
        if axis is None or (isinstance(axis, Cst) and axis.v is None):
            return withrank(r, 0)
        return r  # sum over the list axis keeps element rank
    v = num(a)
    axis = kw.get("axis", args[1] if len(args) > 1 else None)
    rk = getattr(v, "rank", None)
    if axis is None or (isinstance(axis, Cst) and axis.v is None):
        return withrank(v, 0)
    return withrank(v, rk - 1 if rk else None)


def t_join_all(args, kw, node):
    r = ANY
    for a in args:
        r = join(r, num(a))
    return r


def t_const(args, kw, node):
    return ONE


def _shape_rank(a):
    if isinstance(a, Tup):
        return len(a.items)
    if isinstance(a, Lst) and a.tail is None:
        return len(a.items)
    if isinstance(a, ShapeV):
        return a.rank
    if isinstance(a, (Cst, Deg, Bool)):
        return 1
    return None


def t_zero(args, kw, node):
    return AnyR(_shape_rank(args[0]) if args else None)


def t_zeros_like(args, kw, node):
    return AnyR(getattr(_a(args), "rank", None))


def t_ones(args, kw, node):
    return Deg({()}, _shape_rank(args[0]) if args else None)


def t_ones_like(args, kw, node):
    return Deg({()}, getattr(_a(args), "rank", None))


def t_full(args, kw, node):
    v = num(args[1]) if len(args) > 1 else num(kw.get("fill_value", Cst(0)))
    rk = _shape_rank(args[0]) if args else None
    return withrank(v, rk)


def t_full_like(args, kw, node):
    v = num(args[1]) if len(args) > 1 else num(kw.get("fill_value", Cst(0)))
    return withrank(v, getattr(_a(args), "rank", None))


def t_dot(args, kw, node):
    return matmul(args[0], args[1])


def t_einsum(args, kw, node):
    """np.einsum(subscripts, *operands): a sum of products with one factor from every operand"""
    ops = [a for a in args[1:]]
    if not ops:
        return Unk("einsum")
    r = num(ops[0])
    for o in ops[1:]:
        r = mul(r, o)
    return withrank(r, None)


def t_kron(args, kw, node):
    r = mul(args[0], args[1])
    return withrank(r, 2)


def t_inv(args, kw, node):
    a = args[0]
    if isinstance(a, Lst):
        # batched inverse over the first axis: block by block
        return Lst([inv(i, "matrix inverse", node) for i in a.items], inv(a.tail, "matrix inverse", node) if a.tail is not None else None)
    return inv(a, "matrix inverse", node)


def t_solve(args, kw, node):
    return matmul(inv(args[0], "solve", node), args[1])


def t_sqrt(args, kw, node):
    return power(args[0], Cst(0.5), node)


def t_svd(args, kw, node):
    a = _a(args)
    if isinstance(a, (Top, Unk)):
        return Tup([a, a, a])
    if isinstance(a, Any_):
        return Tup([Deg({()}, 2, "U"), AnyR(1), Deg({()}, 2, "Vh")])
    if not a.single():
        CTX.event("nonhom", node, f"svd of a non-homogeneous matrix {a.fmt()}")
        t = Top("svd of non-homogeneous matrix")
        return Tup([t, t, t])
    return Tup([Deg({()}, 2, "U"), Deg(a.sup, 1), Deg({()}, 2, "Vh")])


def t_eig(args, kw, node):
    a = _a(args)
    if isinstance(a, (Top, Unk)):
        return Tup([a, a, a])
    if isinstance(a, Any_):
        a = ONE
    if not a.single():
        CTX.event("nonhom", node, f"eig of a non-homogeneous matrix {a.fmt()}")
        t = Top("eig of non-homogeneous matrix")
        return Tup([t, t, t])
    left = kw.get("left")
    if isinstance(left, Cst) and left.v:
        return Tup([Deg(a.sup, 1), Deg({()}, 2), Deg({()}, 2)])
    return Tup([Deg(a.sup, 1), Deg({()}, 2)])


def t_eigvals(args, kw, node):
    a = _a(args)
    return a if not isinstance(a, Deg) else Deg(a.sup, 1)


def t_qr(args, kw, node):
    a = _a(args)
    if isinstance(a, (Top, Unk)):
        return Tup([a, a])
    if isinstance(a, Any_):
        a = ONE
    if not a.single():
        CTX.event("nonhom", node, f"qr of a non-homogeneous matrix {a.fmt()}")
        t = Top("qr of non-homogeneous matrix")
        return Tup([t, t])
    mode = kw.get("mode")
    if isinstance(mode, Cst) and mode.v == "r":
        return Deg(a.sup, 2)
    return Tup([Deg({()}, 2), Deg(a.sup, 2)])


def t_log(args, kw, node):
    return need_dimless(args[0], "log", node)


def t_exp(args, kw, node):
    return need_dimless(args[0], "exp", node)


def t_arccos(args, kw, node):
    return need_dimless(args[0], "arccos", node)


def t_index(args, kw, node):
    """argmax/argmin/nanargmin/argsort: a selection, scale free whatever the argument's degree"""
    v = _a(args)
    axis = kw.get("axis")
    if isinstance(v, (Top,)):
        CTX.event("decision", node, f"arg-reduction over a non-homogeneous quantity ({v})")
    return Deg({()}, 0 if axis is None else None)


def t_sign(args, kw, node):
    v = _a(args)
    return Deg({()}, getattr(v, "rank", None))


def t_where(args, kw, node):
    if len(args) == 1:
        return Tup([Deg({()}, 1), Deg({()}, 1), Deg({()}, 1)])
    # optimistic step (DESIGN 5): a numeric literal branch of np.where is a filler (like NaN), used only where the condition fails
    br = [ANY if (isinstance(a, Cst) and isinstance(a.v, (int, float)) and not isinstance(a.v, bool)) else num(a) for a in args[1:3]]
    if all(isinstance(b, Any_) for b in br):
        br = [num(args[1]), num(args[2])]
    r = join(br[0], br[1])
    rk = None
    unknown = False
    for x in args:
        rr = getattr(num(x), "rank", None)
        if rr is not None:
            rk = rr if rk is None else max(rk, rr)
        elif not isinstance(x, Cst):
            unknown = True       # an operand of unknown rank may broadcast the result to any rank
    return withrank(r, None if unknown else rk)


def t_cov(args, kw, node):
    r = ANY
    for a in args:
        r = join(r, num(a))
    return withrank(mul(r, r), 2)


def t_linspace(args, kw, node):
    r = join(num(args[0]), num(args[1]))
    return Deg(r.sup, 1) if isinstance(r, Deg) else (Deg({()}, 1) if isinstance(r, Any_) else r)


def t_arange(args, kw, node):
    r = ANY
    for a in args:
        r = join(r, num(a))
    return Deg(r.sup, 1) if isinstance(r, Deg) else Deg({()}, 1)


def t_csd(args, kw, node):
    x, y = num(args[0]), num(args[1])
    fs = kw.get("fs")
    p = mul(x, y)
    if fs is not None:
        p = mul(p, inv(fs))
        f = num(fs)
    else:
        f = ONE
    rk = _rank(x, y)
    return Tup([withrank(f, 1), withrank(p, rk)])


def t_isclose(args, kw, node):
    check_decision(args[0], args[1], node, "isclose")
    # against a literal zero only the ABSOLUTE tolerance acts (rtol * 0 = 0): on a dimensional quantity that is a scale-dependent test
    for x, y in ((args[0], args[1]), (args[1], args[0])):
        if isinstance(y, Cst) and isinstance(y.v, (int, float)) and not isinstance(y.v, bool) and y.v == 0:
            vx = num(x)
            at = kw.get("atol")
            explicit_zero = isinstance(at, Cst) and at.v == 0
            if isinstance(vx, Deg) and vx.sup != {()} and not explicit_zero and not (at is not None and isinstance(num(at), Deg) and num(at).sup == vx.sup):
                CTX.event("decision", node, f"isclose(x, 0) with an absolute tolerance on a quantity of degree {vx.fmt()}")
            break
    else:
        # |a - b| <= atol + rtol * |b|: with the default atol = 1e-8 (or any pure number) next to rtol * |b| the bound is a sum of two
        # degrees when b carries a unit - at small enough data everything "is close"
        at = kw.get("atol")
        explicit_zero = isinstance(at, Cst) and at.v == 0
        vb = num(args[1])
        # (judged for quantities that carry the data unit g: the gain range of the properties, 1e-6..1e6, brings rtol*|b| below 1e-8; a frequency
        #  in any admissible time unit does not come near it - there the default only moves the edge of the band by rounding-size amounts)
        if isinstance(vb, Deg) and vb.sup != {()} and () not in vb.sup and not is_may(vb) and not explicit_zero and all(any(s_ == "g" for s_, _ in t_) for t_ in vb.sup) \
                and not (at is not None and isinstance(num(at), Deg) and num(at).sup == vb.sup) and (at is None or isinstance(at, Cst)):
            CTX.event("decision", node, f"isclose(a, b) adds the absolute tolerance {'1e-8 (default)' if at is None else at.v} to rtol*|b| with b of degree {vb.fmt()}")
    return BOOL


def t_outer(args, kw, node):
    return withrank(mul(args[0], args[1]), 2)


def t_curve_fit(args, kw, node):
    # linear model through the origin: slope has degree(y) - degree(x)
    x, y = num(args[1]), num(args[2])
    return Tup([withrank(mul(y, inv(x)), 1), Unk("pcov")])


def t_array(args, kw, node):
    return num(args[0])


def t_minmax(args, kw, node):
    if len(args) == 1:
        return t_reduce(args, kw, node)
    return t_join_all(args, kw, node)


def t_eye(args, kw, node):
    return Deg({()}, 2)


def _rounding_event(v, node, what):
    if isinstance(v, Deg) and any(s_ not in COUNT_SYMS for t_ in v.sup for s_, e_ in t_):
        CTX.event("nonhom", node, f"{what} of a dimensional quantity {v.fmt()} (rounding is not scale covariant)")


def t_round(args, kw, node):
    v = num(args[0])
    _rounding_event(v, node, "rounding")
    return v


def t_int(args, kw, node):
    a = args[0]
    if isinstance(a, Cst) and isinstance(a.v, (int, float)):
        return Cst(int(a.v))
    v = num(a)
    _rounding_event(v, node, "int()")
    if isinstance(v, Deg) and v.sup != {()}:
        return v
    return Deg({()}, 0)


def t_float(args, kw, node):
    return num(args[0]) if args else ANY


def t_len(args, kw, node):
    a = args[0]
    if isinstance(a, (Tup,)):
        return Cst(len(a.items))
    if isinstance(a, Lst) and a.tail is None:
        return Cst(len(a.items))
    if isinstance(a, Dct):
        return Cst(len(a.d))
    dims = getattr(a, "dims", None)
    if isinstance(a, Deg) and dims:
        return dims[0]                  # len(array) is its first extent: the same value as array.shape[0]
    return Deg({()}, 0)


def t_range(args, kw, node):
    a = list(args)
    if len(a) == 1:
        start, stop, step = Cst(0), a[0], Cst(1)
    elif len(a) == 2:
        start, stop, step = a[0], a[1], Cst(1)
    else:
        start, stop, step = a[:3]
    if all(isinstance(x, Cst) and isinstance(x.v, int) for x in (start, stop, step)):
        r = list(range(start.v, stop.v, step.v))
        if len(r) <= 3:
            return Lst([Cst(i) for i in r])
        return Lst([Cst(r[0])], IdxV(min(r[1:])) if step.v > 0 else Deg({()}, 0))
    if isinstance(start, Cst) and isinstance(step, Cst) and isinstance(start.v, int) and isinstance(step.v, int) and step.v > 0:
        return Lst([Cst(start.v)], IdxV(start.v + step.v))
    return Lst([], Deg({()}, 0))


def t_zip(args, kw, node):
    # structured zip: lists with the same explicit prefix length are zipped element-wise, tails with tails
    args = [Lst(list(a.items)) if isinstance(a, Tup) else a for a in args]
    # a shape of known rank is a tuple of its extents
    args = [Lst(list(a.dims) if a.dims is not None else [Deg({()}, 0) for _ in range(a.rank)]) if isinstance(a, ShapeV) and a.rank is not None else a for a in args]
    if args and all(isinstance(a, Lst) for a in args):
        n = min(len(a.items) for a in args)
        if all(a.tail is None for a in args):
            # explicit sequences: zip stops at the shortest
            return Lst([Tup([a.items[i] for a in args]) for i in range(n)], None)
        if all(len(a.items) == n for a in args) and (all(a.tail is not None for a in args) or all(a.tail is None for a in args)):
            items = [Tup([a.items[i] for a in args]) for i in range(n)]
            tail = Tup([a.tail for a in args]) if args[0].tail is not None else None
            return Lst(items, tail)
    if args and all((isinstance(a, Deg) and not isinstance(a, IdxV)) or (isinstance(a, Lst) and a.items) for a in args):
        first = Tup([a.items[0] if isinstance(a, Lst) else elem(a) for a in args])
        return Lst([first], Tup([elem(a) for a in args]))                   # rows of arrays: at least one
    return Lst([], Tup([elem(a) for a in args]))


def t_enumerate(args, kw, node):
    a = args[0]
    if isinstance(a, Lst) and a.tail is None and len(a.items) <= 4:
        return Lst([Tup([Cst(i), x]) for i, x in enumerate(a.items)])
    if isinstance(a, Lst) and a.items:
        return Lst([Tup([Cst(0), a.items[0]])], Tup([IdxV(1), elem(Lst(a.items[1:], a.tail))]))
    if isinstance(a, Deg) and not isinstance(a, IdxV):
        return Lst([Tup([Cst(0), elem(a)])], Tup([IdxV(1), elem(a)]))      # rows of an array: at least one
    return Lst([], Tup([Deg({()}, 0), elem(a)]))


def t_list(args, kw, node):
    if not args:
        return Lst()
    a = args[0]
    if isinstance(a, Lst):
        return a.copy()
    if isinstance(a, Tup):
        return Lst(a.items)
    if isinstance(a, Deg):
        return Lst([], Deg(a.sup, a.rank - 1 if a.rank else None))
    if isinstance(a, Dct):
        return Lst([Cst(k) for k in a.d])
    return Lst([], elem(a))


def t_zip_longest(args, kw, node):
    r = ANY
    for a in args:
        e = elem(a)
        r = join(r, num(elem(e)) if isinstance(e, (Lst, Tup)) else num(e))
    r = join(r, num(kw.get("fillvalue", Cst(0))))
    return Lst([], Tup([withrank(r, 0)]))


def t_split(args, kw, node):
    """np.split / array_split / hsplit / vsplit / dsplit: pieces of the array, each of its degree and rank"""
    a = num(args[0]) if args else ANY
    piece = withrank(a, getattr(a, "rank", None)) if isinstance(a, Deg) else a
    cuts = args[1] if len(args) > 1 else kw.get("indices_or_sections")
    if isinstance(cuts, (Lst, Tup)) and getattr(cuts, "tail", None) is None:
        return Lst([piece for _ in range(len(cuts.items) + 1)])
    if isinstance(cuts, Cst) and isinstance(cuts.v, int) and 0 < cuts.v <= 8:
        return Lst([piece for _ in range(cuts.v)])
    return Lst([piece], piece)


def t_expand(args, kw, node):
    v = _a(args)
    rk = getattr(v, "rank", None)
    return withrank(v, rk + 1 if rk is not None else None)


def t_stack(args, kw, node):
    a = args[0]
    if isinstance(a, Lst) and node_name(node) in ("stack", "array", "asarray") and len(args) == 1 and (kw.get("axis") is None or (isinstance(kw.get("axis"), Cst) and kw["axis"].v == 0)):
        its = [num(i) for i in list(a.items) + ([a.tail] if a.tail is not None else [])]
        if len(its) > 1 and all(isinstance(i, Deg) for i in its) and len({frozenset(i.sup) for i in its}) > 1:
            # a batch of blocks of DIFFERENT degree along a new first axis (one block per setup): kept as the list it was built from, so that
            # batched operations (inverse) and the iteration over the first axis stay per block instead of mixing the blocks
            return Lst(list(a.items), a.tail)
    v = num(a)
    if isinstance(a, (Lst, Tup)):
        its = list(a.items) + ([a.tail] if isinstance(a, Lst) and a.tail is not None else [])
        rks = [getattr(num(i), "rank", None) for i in its]
        rk = None
        if rks and all(r is not None for r in rks):
            rk = max(max(rks), 2) if node_name(node) in ("vstack", "hstack") and max(rks) <= 2 and node_name(node) == "vstack" else max(rks)
        return withrank(v, rk)
    return v


def node_name(node):
    try:
        f = node.func
        return f.attr if isinstance(f, ast.Attribute) else f.id
    except Exception:
        return ""


def t_diag(args, kw, node):
    v = _a(args)
    rk = getattr(v, "rank", None)
    return withrank(v, {1: 2, 2: 1}.get(rk))


def t_flat(args, kw, node):
    return withrank(_a(args), 1)


def t_tolist(args, kw, node):
    return Lst([], elem(_a(args)))


def t_divide(args, kw, node):
    return mul(args[0], inv(args[1], "division", node))


def t_clip(args, kw, node):
    v = _a(args)
    for b in args[1:3]:
        check_decision(v, b, node, "clip bound")
    return v


def t_boolarr(args, kw, node):
    return BOOL


def t_logical(args, kw, node):
    return BOOL


def t_set(args, kw, node):
    return num(args[0]) if args else ANY


def t_abs(args, kw, node):
    return num(args[0])


def t_moveaxis(args, kw, node):
    return num(args[0])


def t_sosfiltfilt(args, kw, node):
    return num(args[1])


def t_fft(args, kw, node):
    return num(args[0])


def t_fftfreq(args, kw, node):
    """rfftfreq(n, d): lines k / (n d): the unit of 1/d (cycles per sample when d is left out)"""
    d = kw.get("d", args[1] if len(args) > 1 else None)
    if d is None:
        return Deg({()}, 1)
    return withrank(inv(d, "frequency grid spacing", node), 1)


def t_tuple(args, kw, node):
    a = args[0]
    return Tup(a.items) if isinstance(a, (Lst, Tup)) and not (isinstance(a, Lst) and a.tail is not None) else a


def t_dict(args, kw, node):
    d = {}
    if args and isinstance(args[0], Dct):
        d.update(args[0].d)
    elif args and isinstance(args[0], Obj):
        d.update(args[0].attrs)         # dict(model): the fields of a parameter / result model
    elif args and isinstance(args[0], Lst):
        a0 = args[0]
        if a0.tail is None and all(isinstance(x, Tup) and len(x.items) == 2 and isinstance(x.items[0], Cst) for x in a0.items):
            # dict(zip(("a", "b"), values)) with literal keys
            d.update({x.items[0].v: x.items[1] for x in a0.items})
        else:
            CTX.event("unknown-call", node, "dict(...) of pairs whose keys are not known")
            return Dct({"?0": elem(elem(a0)) if isinstance(elem(a0), (Tup, Lst)) else elem(a0)})      # unknown keys
    elif args:
        CTX.event("unknown-call", node, "dict(...) of a value that is not followed")
        return Dct({"?0": ANY})
    d.update(kw)
    return Dct(d)


def t_isinstance(args, kw, node):
    v, t = args[0], args[1]
    names = []
    for tt in (t.items if isinstance(t, Tup) else [t]):
        names.append(tt.name if isinstance(tt, Ext) else None)
    def one(tn):
        if isinstance(v, Cst):
            if tn == "int":
                return isinstance(v.v, int) and not isinstance(v.v, bool)
            if tn == "float":
                return isinstance(v.v, float)
            if tn == "list":
                return False
            if tn == "str":
                return isinstance(v.v, str)
            return None
        if isinstance(v, Lst):
            return tn == "list"
        if isinstance(v, Tup):
            return tn == "tuple"
        if isinstance(v, Dct):
            return tn == "dict"
        if isinstance(v, Deg) and getattr(v, "rank", None) not in (None, 0) and tn in ("tuple", "list", "dict", "str", "int", "float", "bool"):
            return False        # an array (rank >= 1) is none of the builtin containers / scalars
        return None
    rs = [one(n) for n in names]
    if any(r is True for r in rs):
        return Cst(True)
    if all(r is False for r in rs):
        return Cst(False)
    return BOOL


class ShapeV(V):
    """the .shape of an array of known rank"""

    def __init__(self, rank, dims=None):
        self.rank = rank
        self.dims = dims

    def __repr__(self):
        return f"Shape(r{self.rank})"


NP = {
    "split": t_split, "array_split": t_split, "hsplit": t_split, "vsplit": t_split, "dsplit": t_split,
    "dot": t_dot, "matmul": t_dot, "kron": t_kron, "outer": t_outer, "round": t_round, "around": t_round, "rint": t_round, "floor": t_round, "ceil": t_round, "trunc": t_round, "float64": t_array, "float32": t_array, "complex128": t_array, "int64": t_int, "vstack": t_stack, "hstack": t_stack, "concatenate": t_stack,
    "stack": t_stack, "column_stack": t_stack, "block": lambda a, k, n: withrank(num(a[0]), 2), "row_stack": t_stack, "array": t_array, "asarray": t_array, "zeros": t_zero,
    "empty": t_zero, "zeros_like": t_zeros_like, "empty_like": t_zeros_like, "ones": t_ones, "ones_like": t_ones_like,
    "full": t_full, "full_like": t_full_like, "ascontiguousarray": t_array, "asanyarray": t_array, "asfortranarray": t_array, "eye": t_eye, "identity": t_eye, "diag": t_diag, "diagonal": lambda a, k, n: withrank(_a(a), (getattr(_a(a), "rank", None) - 1) if isinstance(getattr(_a(a), "rank", None), int) and getattr(_a(a), "rank", None) >= 2 else None), "sqrt": t_sqrt, "abs": t_abs, "absolute": t_abs,
    "real": t_same, "imag": t_same, "conj": t_same, "conjugate": t_same, "transpose": t_same, "squeeze": t_same,
    "log": t_log, "log10": t_log, "log2": t_log, "exp": t_exp, "arccos": t_arccos, "arcsin": t_arccos, "cos": t_arccos, "sin": t_arccos,
    "angle": lambda a, k, n: Deg({()}, getattr(_a(a), "rank", None)),
    "argmax": t_index, "argmin": t_index, "nanargmin": t_index, "nanargmax": t_index, "argsort": lambda a, k, n: Deg({()}, getattr(_a(a), "rank", None)),
    "where": t_where, "sum": t_reduce, "nansum": t_reduce, "mean": t_reduce, "nanmean": t_reduce, "max": t_minmax, "min": t_minmax,
    "amax": t_minmax, "amin": t_minmax, "nanmax": t_minmax, "nanmin": t_minmax, "std": t_reduce, "nanstd": t_reduce, "median": t_reduce,
    "maximum": t_join_all, "minimum": t_join_all, "fmin": t_join_all, "fmax": t_join_all,
    "arange": t_arange, "linspace": t_linspace, "moveaxis": t_moveaxis, "swapaxes": t_moveaxis, "diff": t_same, "sign": t_sign,
    "unique": t_flat, "isnan": t_boolarr, "isfinite": t_boolarr, "isinf": t_boolarr, "iscomplex": t_boolarr,
    "isclose": t_isclose, "allclose": t_isclose, "ravel": t_flat, "expand_dims": t_expand, "repeat": t_same, "tile": t_same,
    "nan_to_num": t_same, "cov": t_cov, "logical_and": t_logical, "logical_or": t_logical, "logical_not": t_logical,
    "delete": t_same, "sort": t_same, "clip": t_clip, "divide": t_divide, "multiply": lambda a, k, n: mul(a[0], a[1]),
    "add": lambda a, k, n: add(a[0], a[1], n), "subtract": lambda a, k, n: add(a[0], a[1], n), "negative": t_same,
    "power": lambda a, k, n: power(a[0], a[1], n), "float_power": lambda a, k, n: power(a[0], a[1], n), "square": lambda a, k, n: power(a[0], Cst(2), n),
    "cumsum": t_same, "flip": t_same, "roll": t_same, "copy": t_same, "trace": t_reduce, "atleast_2d": lambda a, k, n: withrank(_a(a), 2),
    "linalg.svd": t_svd, "linalg.inv": t_inv, "linalg.pinv": t_inv, "linalg.qr": t_qr, "linalg.solve": t_solve,
    "linalg.eig": t_eig, "linalg.eigvals": t_eigvals, "linalg.eigh": t_eig, "linalg.norm": t_reduce, "linalg.lstsq": lambda a, k, n: Tup([t_solve(a, k, n), Unk("lstsq-res"), ONE, Unk("sv")]),
    "linalg.det": lambda a, k, n: Unk("det"),
    "fft.ifft": t_fft, "fft.irfft": t_fft, "fft.rfft": t_fft, "fft.fft": t_fft, "seterr": t_const,
    "fft.rfftfreq": lambda a, k, n: t_fftfreq(a, k, n), "fft.fftfreq": lambda a, k, n: t_fftfreq(a, k, n),
    "hanning": lambda a, k, n: Deg({()}, 1), "hamming": lambda a, k, n: Deg({()}, 1), "blackman": lambda a, k, n: Deg({()}, 1), "bartlett": lambda a, k, n: Deg({()}, 1),
    "newaxis": None,
    "hypot": lambda a, k, n: add(a[0], a[1], n),
    # element selections keep the degree of the array they select from; einsum / tensordot are multilinear
    "take_along_axis": lambda a, k, n: withrank(_a(a), getattr(_a(a), "rank", None)), "take": lambda a, k, n: withrank(_a(a), None),
    "compress": lambda a, k, n: withrank(num(a[1]) if len(a) > 1 else ANY, None), "broadcast_to": t_same, "triu": t_same, "tril": t_same,
    "atleast_1d": t_same, "flatnonzero": lambda a, k, n: Deg({()}, 1), "isin": t_boolarr, "in1d": t_boolarr, "count_nonzero": lambda a, k, n: Deg({()}, 0),
    "einsum": lambda a, k, n: t_einsum(a, k, n), "tensordot": lambda a, k, n: withrank(mul(a[0], a[1]), None), "inner": t_dot, "vdot": t_dot,
    "result_type": t_const, "promote_types": t_const, "ndindex": t_range, "nanargmin": t_index,
    "lib.stride_tricks.sliding_window_view": lambda a, k, n: t_expand([a[0]], {}, n),
}
EXTF = {
    "scipy.linalg.eig": t_eig, "scipy.linalg.inv": t_inv, "scipy.linalg.pinv": t_inv, "scipy.linalg.svd": t_svd, "scipy.linalg.qr": t_qr,
    "scipy.linalg.solve": t_solve,
    "scipy.signal.csd": t_csd, "scipy.signal.windows.exponential": lambda a, k, n: Deg({()}, 1),
    "scipy.signal.get_window": lambda a, k, n: Deg({()}, 1), "scipy.signal.windows.hann": lambda a, k, n: Deg({()}, 1),
    "scipy.signal.windows.get_window": lambda a, k, n: Deg({()}, 1), "scipy.signal.windows.boxcar": lambda a, k, n: Deg({()}, 1),
    "scipy.fft.rfft": t_fft, "scipy.fft.irfft": t_fft, "scipy.fft.fft": t_fft, "scipy.fft.ifft": t_fft,
    "scipy.fft.rfftfreq": lambda a, k, n: t_fftfreq(a, k, n), "scipy.fft.fftfreq": lambda a, k, n: t_fftfreq(a, k, n),
    "scipy.optimize.curve_fit": t_curve_fit, "scipy.signal.decimate": t_same, "scipy.signal.detrend": t_same,
    "scipy.signal.butter": t_const, "scipy.signal.sosfiltfilt": t_sosfiltfilt,
    "tqdm.tqdm": lambda a, k, n: a[0], "tqdm.trange": t_range, "itertools.zip_longest": t_zip_longest,
    "copy.deepcopy": lambda a, k, n: a[0], "copy.copy": lambda a, k, n: a[0],
    "math.sqrt": t_sqrt, "math.log": t_log, "math.exp": t_exp,
}
BUILTINS = {
    "round": t_round, "len": t_len, "int": t_int, "float": t_float, "complex": t_float, "abs": t_abs, "range": t_range, "zip": t_zip,
    "enumerate": t_enumerate, "list": t_list, "max": t_minmax, "min": t_minmax, "set": t_set, "sorted": t_list,
    "str": lambda a, k, n: (Cst(str(a[0].v)) if len(a) == 1 and isinstance(a[0], Cst) and isinstance(a[0].v, (str, int)) and not isinstance(a[0].v, bool) else BOOL), "repr": lambda a, k, n: BOOL, "isinstance": t_isinstance, "round": t_int,
    "print": t_const, "sum": t_reduce, "tuple": t_tuple, "dict": t_dict, "type": lambda a, k, n: BOOL,
    "all": lambda a, k, n: BOOL, "any": lambda a, k, n: BOOL, "bool": lambda a, k, n: BOOL, "hasattr": lambda a, k, n: BOOL,
    "reversed": t_list,
}
EXC_NAMES = {"AttributeError", "ValueError", "Exception", "KeyError", "TypeError", "IndexError", "RuntimeError",
             "ImportError", "NotImplementedError", "AssertionError", "StopIteration"}
ARRM = {"reshape", "flatten", "conj", "astype", "copy", "ravel", "swapaxes", "any", "all", "tolist", "sum", "mean", "max", "min",
        "dot", "squeeze", "transpose", "conjugate", "std", "argmax", "argmin", "fill", "item", "round", "clip", "nonzero", "cumsum"}


# ----------------------------------------------------------------------------- interpreter
class Frame:
    def __init__(self, mod, env, qual, cls=None):
        self.mod = mod
        self.env = env
        self.qual = qual
        self.cls = cls
        self.ret = None
        self.returned = False
        self.broke = False


def copy_env(env):
    return {k: (v.copy() if isinstance(v, Lst) else v) for k, v in env.items()}


def join_env(a, b, loop=False):
    out = {}
    old = JOIN_MAY[0]
    if loop:
        JOIN_MAY[0] = False
    try:
        for k in set(a) | set(b):
            if k in a and k in b:
                out[k] = join(a[k], b[k])
            else:
                out[k] = a.get(k, b.get(k))
    finally:
        JOIN_MAY[0] = old
    return out


def env_sig(env):
    return repr(sorted((k, repr(v)) for k, v in env.items()))


MAX_DEPTH = 14
MAX_STEPS = 400000


class Interp:
    def __init__(self, prog):
        self.prog = prog
        CTX.reset(prog)

    # -- public helpers
    def fn(self, qual):
        return Fn(self.prog.func(qual))

    def method(self, clsqual, name, obj):
        ci = self.prog.cls(clsqual)
        fi = self.prog.find_method(ci, name)
        if fi is None:
            raise AnalysisError(f"anchor lost: method {clsqual}.{name}")
        return Fn(fi, bound=obj)

    def new_obj(self, clsqual, attrs):
        return Obj(attrs, self.prog.cls(clsqual))

    def call(self, fn, args=(), kw=None):
        _GLOBAL_TABLES.clear()          # module-level tables start every analysed call as they are written
        return call_fn(fn, list(args), dict(kw or {}), None)

    def construct(self, clsqual, args=(), kw=None):
        return instantiate(self.prog.cls(clsqual), list(args), dict(kw or {}), None)

    @property
    def events(self):
        return CTX.events

    def probe_ext(self, name):
        CTX.probe_names.add(name)

    def probe_fn(self, qual):
        CTX.fn_probe_names.add("pyoma2." + qual)


_GLOBAL_DEPTH = [0]
_GLOBAL_TABLES = {}         # (module, expression identity) -> value of a module-level table during one analysed call (effects on it are seen)


def _lookup_global(mod, name):
    r = CTX.prog.lookup(mod, name)
    return wrap_prog(r)


def wrap_prog(r):
    if r is None:
        return None
    if isinstance(r, FuncInfo):
        return Fn(r)
    if isinstance(r, ClassInfo):
        return ClsV(r)
    if isinstance(r, ModRef):
        return ModV(r.name)
    if isinstance(r, PExt):
        return Ext(_canon_ext(r.name))
    if isinstance(r, tuple) and r[0] == "global":
        v = r[1]
        if isinstance(v, ast.Constant):
            return Cst(v.value)
        if isinstance(v, ast.Call) and isinstance(v.func, ast.Attribute) and v.func.attr == "getLogger":
            return Ext("logging.Logger")
        if isinstance(v, (ast.Dict, ast.Tuple, ast.List, ast.Lambda, ast.UnaryOp, ast.BinOp)) and len(r) > 2 and _GLOBAL_DEPTH[0] < 4:
            # a table written out at module level (names, numbers, small functions): its value as written at the start of the analysed
            # call (effects that survive from one call to the next are the business of the R-stateless / R-no-shared-state rules)
            key = (r[2], id(v))
            if key in _GLOBAL_TABLES:
                return _GLOBAL_TABLES[key]
            _GLOBAL_DEPTH[0] += 1
            try:
                val = ev(v, Frame(r[2], {}, r[2] + ".<module>"))
            finally:
                _GLOBAL_DEPTH[0] -= 1
            if isinstance(val, (Dct, Lst)):
                _GLOBAL_TABLES[key] = val       # one object for the whole call: an update through one reference is seen through the others
            return val
        return Unk("module-global")
    return Unk(f"global {r!r}")


def _canon_ext(name):
    return name


def call_fn(fn, args, kw, node):
    if CTX.depth > MAX_DEPTH:
        return Unk("inlining depth")
    f = fn.node
    env = dict(fn.closure or {})
    a = f.args
    params = [x.arg for x in a.posonlyargs + a.args]
    kwonly = [x.arg for x in a.kwonlyargs]
    dvals = {}
    fr0 = Frame(fn.mod, {}, fn.qual, fn.cls)
    for p, d in zip(params[len(params) - len(a.defaults):], a.defaults):
        dvals[p] = ev(d, fr0)
    for p, d in zip(kwonly, a.kw_defaults):
        if d is not None:
            dvals[p] = ev(d, fr0)
    allargs = list(args)
    if fn.bound is not None:
        allargs = [fn.bound] + allargs
    for p, v in zip(params, allargs):
        env[p] = v
    if a.vararg:
        env[a.vararg.arg] = Tup(allargs[len(params):])
    extra = {}
    for k, v in kw.items():
        if k in params or k in kwonly:
            env[k] = v
        else:
            extra[k] = v
    if a.kwarg:
        env[a.kwarg.arg] = Dct(extra)
    for p in params + kwonly:
        if p not in env:
            env[p] = dvals[p] if p in dvals else Unk(f"missing argument {p} of {fn.qual}")
    fr = Frame(fn.mod, env, fn.qual, fn.cls)
    CTX.depth += 1
    CTX.traversed.add(fn.qual)
    CTX.stack.append(fn.qual)
    CTX.lines.append(getattr(f, "lineno", 0))
    try:
        exec_block(f.body, fr)
    finally:
        CTX.depth -= 1
        CTX.stack.pop()
        CTX.lines.pop()
    ret = fr.ret if fr.ret is not None else Cst(None)
    if fn.qual in CTX.fn_probe_names:
        CTX.fn_probes.setdefault(fn.qual, []).append((dict(env), ret))
    return ret


def exec_block(stmts, fr):
    for s in stmts:
        if fr.returned or fr.broke:
            return
        CTX.steps += 1
        if CTX.steps > MAX_STEPS:
            raise AnalysisError("interpreter step budget exhausted")
        if CTX.lines:
            CTX.lines[-1] = getattr(s, "lineno", CTX.lines[-1])
        exec_stmt(s, fr)


def assign(t, v, fr, node):
    if isinstance(t, ast.Name):
        fr.env[t.id] = v
    elif isinstance(t, (ast.Tuple, ast.List)):
        stars = [k for k, x in enumerate(t.elts) if isinstance(x, ast.Starred)]
        if nt_items(v) is not None:
            v = Tup(nt_items(v))
        seq = v.items if isinstance(v, Tup) else (v.items if isinstance(v, Lst) and v.tail is None else None)
        if len(stars) == 1 and seq is not None and len(seq) >= len(t.elts) - 1:
            # a, b, *rest = (x0, x1, x2, ...): the starred target takes the middle as a list
            k = stars[0]
            after = len(t.elts) - k - 1
            for tt, vv in zip(t.elts[:k], seq[:k]):
                assign(tt, vv, fr, node)
            assign(t.elts[k].value, Lst(list(seq[k:len(seq) - after])), fr, node)
            for tt, vv in zip(t.elts[k + 1:], seq[len(seq) - after:] if after else []):
                assign(tt, vv, fr, node)
        elif isinstance(v, Tup) and len(v.items) == len(t.elts):
            for tt, vv in zip(t.elts, v.items):
                assign(tt, vv, fr, node)
        elif isinstance(v, Lst) and len(v.items) == len(t.elts) and v.tail is None:
            for tt, vv in zip(t.elts, v.items):
                assign(tt, vv, fr, node)
        elif isinstance(v, ShapeV):
            for k, tt in enumerate(t.elts):
                assign(tt, v.dims[k] if v.dims is not None and len(v.dims) == len(t.elts) else Deg({()}, 0), fr, node)
        else:
            e = elem(v)
            for tt in t.elts:
                assign(tt, e, fr, node)
    elif isinstance(t, ast.Subscript):
        base = ev(t.value, fr)
        idx = ev_index(t.slice, fr)
        nb = store_sub(base, idx, v, node)
        if isinstance(t.value, (ast.Name, ast.Attribute, ast.Subscript)):
            assign(t.value, nb, fr, node)
        if isinstance(t.value, ast.Name):
            # numpy views (reshape / transpose / basic slices of a named array) share their storage with the array: an element
            # store through one name is seen through the others
            views = getattr(fr, "views", None) or {}
            group = _view_group(views, t.value.id)
            for other in group:
                if other != t.value.id and other in fr.env and isinstance(num(fr.env[other]), (Deg, Any_)):
                    fr.env[other] = store_sub(fr.env[other], idx, v, node)
    elif isinstance(t, ast.Attribute):
        o = ev(t.value, fr)
        if isinstance(o, Obj):
            o.attrs[t.attr] = v
    elif isinstance(t, ast.Starred):
        assign(t.value, v, fr, node)


VIEW_METHODS = {"reshape", "transpose", "swapaxes", "view", "squeeze"}
VIEW_FUNCS = {"numpy.reshape", "numpy.transpose", "numpy.moveaxis", "numpy.swapaxes", "numpy.squeeze", "numpy.atleast_2d", "numpy.expand_dims"}


def _view_base(e, fr):
    """name of the array `e` is a numpy view of (None: e creates new storage or the base has no name)"""
    while True:
        if isinstance(e, ast.Attribute) and e.attr == "T":
            e = e.value
        elif isinstance(e, ast.Call) and isinstance(e.func, ast.Attribute) and e.func.attr in VIEW_METHODS:
            e = e.func.value
        elif isinstance(e, ast.Call) and e.args and _callee_text(e, fr) in VIEW_FUNCS:
            e = e.args[0]
        elif isinstance(e, ast.Subscript):
            sl = e.slice.elts if isinstance(e.slice, ast.Tuple) else [e.slice]
            if not all(isinstance(x, ast.Slice) or (isinstance(x, ast.Constant) and (x.value is None or x.value is Ellipsis or isinstance(x.value, int))) for x in sl):
                return None           # fancy / mask indexing copies
            e = e.value
        else:
            break
    return e.id if isinstance(e, ast.Name) else None


def _callee_text(e, fr):
    f = e.func
    parts = []
    while isinstance(f, ast.Attribute):
        parts.append(f.attr)
        f = f.value
    if isinstance(f, ast.Name):
        parts.append({"np": "numpy"}.get(f.id, f.id))
    return ".".join(reversed(parts))


def _view_group(views, name):
    """all names sharing storage with `name` (transitively, both directions)"""
    group, todo = {name}, [name]
    while todo:
        n = todo.pop()
        for a, b in views.items():
            for x, y in ((a, b), (b, a)):
                if x == n and y not in group:
                    group.add(y)
                    todo.append(y)
    return group


def store_sub(base, idx, v, node):
    if isinstance(base, Dct) and isinstance(idx, Cst):
        base.d[idx.v] = v
        return base
    if isinstance(base, Dct):
        return base
    if isinstance(base, Lst):
        if isinstance(idx, Cst) and isinstance(idx.v, int) and 0 <= idx.v < len(base.items):
            base.items[idx.v] = v
        else:
            base.tail = join(base.tail, v)
        return base
    b = num(base)
    vv = num(v)
    if isinstance(b, (Any_, Deg)) and isinstance(vv, (Any_, Deg)):
        r = join(b, vv)
        rk = getattr(b, "rank", None)
        return withrank(r, rk)
    return join(b, vv)


def _rmw_target(s):
    """`T[idx] = f(T[idx], ...)` / `T[idx] op= x` with T a plain name: element-wise read-modify-write"""
    t = s.targets[0] if isinstance(s, ast.Assign) and len(s.targets) == 1 else (s.target if isinstance(s, ast.AugAssign) else None)
    if not (isinstance(t, ast.Subscript) and isinstance(t.value, ast.Name)):
        return None
    if isinstance(s, ast.AugAssign):
        return t
    key = ast.unparse(t)
    for n in ast.walk(s.value):
        if isinstance(n, ast.Subscript) and ast.unparse(n) == key:
            return t
    return None


def exec_rmw(s, t, fr):
    """optimistic step (listed in evidence): an element-wise read-modify-write whose indices are loop variables updates each
    element once, so the array after the loop is f(array before the loop), not an accumulation over iterations"""
    name = t.value.id
    shadow = name + "@orig"
    cur = fr.env.get(name)
    orig = fr.env.get(shadow, cur)
    fr.env[name] = orig
    try:
        if isinstance(s, ast.AugAssign):
            v = binop(s.op, ev(t, fr), ev(s.value, fr), s)
        else:
            v = ev(s.value, fr)
    finally:
        fr.env[name] = cur
    b = num(orig)
    vv = num(v)
    if isinstance(b, (Deg, Any_)) and isinstance(vv, (Deg, Any_, Top, Unk)):
        fr.env[name] = withrank(vv, getattr(b, "rank", None)) if isinstance(vv, (Deg, Any_)) else vv
        fr.env[shadow] = orig
        CTX.events.append(("assume", CTX.where(), f"element-wise in-place update of {name}: each element updated once"))
        return True
    return False


def exec_stmt(s, fr):
    if TRACE_FN and fr.qual.endswith(TRACE_FN):
        _exec_stmt(s, fr)
        import sys
        names = sorted({n.id for n in ast.walk(s) if isinstance(n, ast.Name) and isinstance(n.ctx, ast.Store)})
        print(f"TRACE {fr.qual}:{getattr(s, 'lineno', 0)} " + ", ".join(f"{n}={fr.env.get(n)!r}"[:120] for n in names), file=sys.stderr)
        return
    _exec_stmt(s, fr)


TRACE_FN = os.environ.get("VERIF_TRACE_FN", "")


def _exec_stmt(s, fr):
    if isinstance(s, (ast.Assign, ast.AugAssign)) and CTX.loopdepth:
        t = _rmw_target(s)
        if t is not None and isinstance(fr.env.get(t.value.id), (Deg, Any_)) and exec_rmw(s, t, fr):
            return
    if isinstance(s, ast.Assign):
        v = ev(s.value, fr)
        for t in s.targets:
            if isinstance(t, ast.Name):
                fr.env.pop(t.id + "@orig", None)
                if getattr(fr, "views", None) is None:
                    try:
                        fr.views = {}
                    except Exception:
                        pass
                if getattr(fr, "views", None) is not None:
                    fr.views.pop(t.id, None)
                    for k_ in [k_ for k_, b_ in fr.views.items() if b_ == t.id]:
                        fr.views.pop(k_)
                    vb = _view_base(s.value, fr)
                    if vb is not None and vb != t.id and not isinstance(s.value, ast.Name):
                        fr.views[t.id] = vb
            assign(t, v, fr, s)
    elif isinstance(s, ast.AnnAssign):
        if s.value is not None:
            assign(s.target, ev(s.value, fr), fr, s)
    elif isinstance(s, ast.AugAssign):
        cur = ev(s.target, fr)
        v = ev(s.value, fr)
        assign(s.target, binop(s.op, cur, v, s), fr, s)
    elif isinstance(s, ast.Expr):
        ev(s.value, fr)
    elif isinstance(s, ast.Return):
        v = ev(s.value, fr) if s.value is not None else Cst(None)
        fr.ret = join(fr.ret, v) if fr.ret is not None else v
        fr.returned = True
    elif isinstance(s, ast.If):
        c = ev(s.test, fr)
        tv = truth(c)
        if tv is True:
            exec_block(s.body, fr)
        elif tv is False:
            exec_block(s.orelse, fr)
        else:
            e0 = copy_env(fr.env)
            r0 = fr.ret
            exec_block(s.body, fr)
            e1, ret1, rd1, bk1 = fr.env, fr.ret, fr.returned, fr.broke
            fr.env = e0
            fr.returned = False
            fr.broke = False
            fr.ret = r0
            exec_block(s.orelse, fr)
            e2, ret2, rd2, bk2 = fr.env, fr.ret, fr.returned, fr.broke
            fr.ret = ret1 if ret2 is None else (ret2 if ret1 is None else (ret1 if ret1 is ret2 else join(ret1, ret2)))
            d1, d2 = rd1 or bk1, rd2 or bk2
            if rd1 and rd2:
                fr.returned = True
                fr.broke = False
            elif d1 and d2:
                fr.returned = False
                fr.broke = True
                fr.env = join_env(e1, e2)
            elif d1:
                fr.env = e2
                fr.returned = False
                fr.broke = False
                if bk1:
                    fr.env = join_env(e1, e2)  # state at the break flows to after the loop
            elif d2:
                fr.env = e1
                fr.returned = False
                fr.broke = False
                if bk2:
                    fr.env = join_env(e1, e2)
            else:
                fr.env = join_env(e1, e2)
                fr.returned = False
                fr.broke = False
    elif isinstance(s, (ast.For, ast.While)):
        exec_loop(s, fr)
    elif isinstance(s, (ast.FunctionDef, ast.AsyncFunctionDef)):
        fr.env[s.name] = Fn(None, node=s, qual=fr.qual + "." + s.name, mod=fr.mod, closure=fr.env, cls=fr.cls)
    elif isinstance(s, ast.Try):
        e_before = copy_env(fr.env)
        exec_block(s.body, fr)
        rd = fr.returned
        for h in s.handlers:
            e_after = fr.env
            fr.env = join_env(e_before, copy_env(e_after))
            saved_ret = fr.returned
            fr.returned = False
            if h.name:
                fr.env[h.name] = BOOL
            exec_block(h.body, fr)
            hr = fr.returned
            fr.returned = saved_ret and hr
            if hr:
                fr.env = e_after
            else:
                fr.env = join_env(e_after, fr.env)
        if not fr.returned:
            exec_block(s.orelse, fr)
        exec_block(s.finalbody, fr)
    elif isinstance(s, ast.With):
        for it in s.items:
            v = ev(it.context_expr, fr)
            if it.optional_vars is not None:
                assign(it.optional_vars, v, fr, s)
        exec_block(s.body, fr)
    elif isinstance(s, ast.Raise):
        fr.returned = True
    elif isinstance(s, ast.Break):
        fr.broke = True
    elif isinstance(s, ast.Continue):
        fr.broke = True  # ends this abstract iteration; the loop driver resets it
    elif isinstance(s, (ast.Pass, ast.Import, ast.ImportFrom, ast.Assert, ast.Global, ast.Nonlocal, ast.ClassDef)):
        pass
    elif isinstance(s, ast.Delete):
        for t in s.targets:
            if isinstance(t, ast.Subscript):
                b = ev(t.value, fr)
                k = ev_index(t.slice, fr)
                if isinstance(b, Dct) and isinstance(k, Cst):
                    b.d.pop(k.v, None)
    else:
        CTX.event("unsupported", s, type(s).__name__)


def exec_loop(s, fr):
    CTX.loopdepth += 1
    try:
        _exec_loop(s, fr)
    finally:
        CTX.loopdepth -= 1


def _exec_loop(s, fr):
    if isinstance(s, ast.For):
        it = ev(s.iter, fr)
        if isinstance(it, Tup):
            seq, tail = list(it.items), None
        elif isinstance(it, Lst):
            seq, tail = list(it.items), it.tail
        elif isinstance(it, Dct):
            seq, tail = [Cst(k) for k in it.d], None
        elif isinstance(it, Deg) and not isinstance(it, IdxV):
            # rows of an array: at least one (as for range(X.shape[k]), whose first index is definite)
            seq, tail = [elem(it)], elem(it)
        else:
            seq, tail = [], elem(it)
        for v in seq:
            if fr.returned:
                break
            assign(s.target, v, fr, s)
            exec_block(s.body, fr)
            if fr.broke:
                fr.broke = False
        if tail is not None and not fr.returned:
            for _ in range(4):
                before = copy_env(fr.env)
                CTX.generic += 1
                try:
                    assign(s.target, tail, fr, s)
                    exec_block(s.body, fr)
                finally:
                    CTX.generic -= 1
                fr.broke = False
                if fr.returned:
                    # a return inside the generic iteration: may or may not happen
                    fr.returned = False
                    fr.env = join_env(before, fr.env, loop=True)
                    break
                new = join_env(before, fr.env, loop=True)
                if env_sig(new) == env_sig(before):
                    fr.env = new
                    break
                fr.env = new
        if not fr.returned:
            exec_block(s.orelse, fr)
    else:
        for _ in range(4):
            before = copy_env(fr.env)
            c = ev(s.test, fr)
            if truth(c) is False:
                break
            CTX.generic += 1
            try:
                exec_block(s.body, fr)
            finally:
                CTX.generic -= 1
            fr.broke = False
            if fr.returned:
                fr.returned = False
                fr.env = join_env(before, fr.env, loop=True)
                break
            new = join_env(before, fr.env, loop=True)
            same = env_sig(new) == env_sig(before)
            fr.env = new
            if same:
                break


def truth(c):
    if isinstance(c, Cst):
        return bool(c.v)
    if isinstance(c, Lst) and c.items:
        return True           # definite items: not empty, whatever else may have been appended
    if isinstance(c, Lst) and c.tail is None:
        return False
    if isinstance(c, Tup):
        return len(c.items) > 0
    if isinstance(c, (Obj, Fn, ClsV)):
        return True
    if isinstance(c, Dct):
        return None
    return None


_OPS = {ast.Add: operator.add, ast.Sub: operator.sub, ast.Mult: operator.mul, ast.Div: operator.truediv,
        ast.FloorDiv: operator.floordiv, ast.Mod: operator.mod, ast.Pow: operator.pow}


def binop(op, a, b, node):
    if isinstance(a, Cst) and isinstance(b, Cst) and isinstance(a.v, (int, float)) and isinstance(b.v, (int, float)) \
            and not isinstance(op, ast.MatMult) and type(op) in _OPS:
        try:
            return Cst(_OPS[type(op)](a.v, b.v))
        except Exception:
            pass
    if isinstance(a, Cst) and isinstance(a.v, str) or isinstance(b, Cst) and isinstance(b.v, str):
        return BOOL
    if isinstance(op, ast.Add) and isinstance(a, Lst) and isinstance(b, Lst):
        if a.tail is None:
            return Lst(a.items + b.items, b.tail)
        return Lst(a.items, join(a.tail, elem(b)))
    if isinstance(op, ast.Add) and isinstance(a, Tup) and isinstance(b, Tup):
        return Tup(a.items + b.items)
    if isinstance(op, ast.Mult) and isinstance(a, Lst) and isinstance(b, (Cst, Deg, Bool)):
        return Lst([], elem(a))
    if isinstance(op, (ast.Add, ast.Sub)):
        return add(a, b, node)
    if isinstance(op, ast.Mult):
        return mul(a, b)
    if isinstance(op, ast.MatMult):
        return matmul(a, b)
    if isinstance(op, ast.Div):
        return mul(a, inv(b, "division", node))
    if isinstance(op, (ast.FloorDiv, ast.Mod)):
        # floor(c x) != c floor(x): integer division / remainder of a quantity that carries a physical unit or gain is not homogeneous
        for v_ in (num(a), num(b)):
            if isinstance(v_, Deg) and any(s_ not in COUNT_SYMS for t_ in v_.sup for s_, e_ in t_):
                CTX.event("nonhom", node, f"{'floor division' if isinstance(op, ast.FloorDiv) else 'remainder'} of a dimensional quantity {v_.fmt()} (rounding is not scale covariant)")
                break
    if isinstance(op, ast.FloorDiv):
        na = num(a)
        return Deg({()}, getattr(na, "rank", None)) if isinstance(na, Deg) and na.sup == {()} else mul(a, inv(b, "division", node))
    if isinstance(op, ast.Mod):
        return num(a)
    if isinstance(op, ast.Pow):
        return power(a, b, node)
    if isinstance(op, (ast.BitAnd, ast.BitOr, ast.BitXor)):
        return BOOL
    return Unk(f"binop {type(op).__name__}")


def ev_index(sl, fr):
    if isinstance(sl, ast.Slice):
        for p in (sl.lower, sl.upper, sl.step):
            if p is not None:
                ev(p, fr)
        return SLICE
    if isinstance(sl, ast.Tuple):
        return Tup([ev_index(e, fr) for e in sl.elts])
    return ev(sl, fr)


def _is_none(i):
    return isinstance(i, Cst) and i.v is None


def subscript(base, idx, node):
    if nt_items(base) is not None:
        base = Tup(nt_items(base))
    if isinstance(base, Ext) and base.name in ("numpy.r_", "numpy.c_"):
        its = idx.items if isinstance(idx, Tup) else [idx]
        r = ANY
        for i in its:
            r = join(r, num(i))
        rk = max([getattr(num(i), "rank", None) or 1 for i in its])
        return withrank(r, 2 if base.name == "numpy.c_" else rk)
    if isinstance(base, Dct):
        if isinstance(idx, Cst):
            if idx.v in base.d:
                return base.d[idx.v]
            return Unk(f"key {idx.v!r}")
        r = None
        for v in base.d.values():
            r = join(r, v)
        return r if r is not None else ANY
    if isinstance(base, ShapeV):
        if idx is SLICE or idx == SLICE:
            sl = node.slice if isinstance(node, ast.Subscript) else None
            if isinstance(sl, ast.Slice) and base.dims is not None and sl.step is None \
                    and all(b is None or (isinstance(b, ast.Constant) and isinstance(b.value, int)) for b in (sl.lower, sl.upper)):
                d = base.dims[(sl.lower.value if sl.lower else None):(sl.upper.value if sl.upper else None)]
                return ShapeV(len(d), d)
            return base
        if base.dims is not None and isinstance(idx, Cst) and isinstance(idx.v, int) and -len(base.dims) <= idx.v < len(base.dims):
            return base.dims[idx.v]
        return Deg({()}, 0)
    if isinstance(base, Tup):
        if isinstance(idx, Cst) and isinstance(idx.v, int):
            try:
                return base.items[idx.v]
            except IndexError:
                return Unk("tuple index")
        if idx == SLICE:
            return base
        return elem(base)
    if isinstance(base, Lst):
        if isinstance(idx, Cst) and isinstance(idx.v, int):
            if 0 <= idx.v < len(base.items):
                return base.items[idx.v]
            if idx.v < 0 and base.tail is None and len(base.items) >= -idx.v:
                return base.items[idx.v]
            if idx.v < 0:
                return elem(base)
            return base.tail if base.tail is not None else elem(base)
        if idx == SLICE:
            return base
        if isinstance(idx, IdxV) and idx.lo >= len(base.items) and base.tail is not None:
            return base.tail
        return elem(base)
    b = num(base)
    if isinstance(b, (Deg, Any_)):
        rk = getattr(b, "rank", None)
        if rk is not None:
            its = idx.items if isinstance(idx, Tup) else [idx]
            drop = 0
            addn = 0
            for i in its:
                if i == SLICE:
                    continue
                if _is_none(i):
                    addn += 1
                    continue
                if isinstance(i, (Lst, Tup)) or (isinstance(i, (Deg, Any_)) and (getattr(i, "rank", None) or 0) >= 1) or isinstance(i, Bool):
                    continue
                drop += 1
            rk = max(rk - drop, 0) + addn
            if drop:
                b = het_to_may(b)           # an element / a row taken out of a container whose entries differ in degree
        return withrank(b, rk) if not isinstance(b, IdxV) else b
    return b


def ev(e, fr):
    if isinstance(e, ast.Constant):
        return Cst(e.value)
    if isinstance(e, ast.Name):
        if e.id in fr.env:
            return fr.env[e.id]
        g = _lookup_global(fr.mod, e.id)
        if g is not None:
            return g
        if e.id in BUILTINS or e.id in EXC_NAMES or e.id in ("complex", "bool", "str", "list", "int", "dict", "float", "tuple", "super", "getattr", "setattr", "object", "slice"):
            return Ext(e.id)
        return Unk(f"name {e.id}")
    if isinstance(e, ast.Attribute):
        return attr(ev(e.value, fr), e.attr, e, fr)
    if isinstance(e, ast.BinOp):
        return binop(e.op, ev(e.left, fr), ev(e.right, fr), e)
    if isinstance(e, ast.UnaryOp):
        v = ev(e.operand, fr)
        if isinstance(e.op, ast.Not):
            t = truth(v)
            return Cst(not t) if t is not None else BOOL
        if isinstance(v, Cst) and isinstance(v.v, (int, float)) and not isinstance(v.v, bool):
            return Cst(-v.v if isinstance(e.op, ast.USub) else v.v)
        if isinstance(e.op, ast.Invert):
            return BOOL
        return num(v)
    if isinstance(e, ast.BoolOp):
        vals = [ev(v, fr) for v in e.values]
        if isinstance(e.op, ast.Or):
            for v in vals:
                t = truth(v)
                if t is True:
                    return v
                if t is None:
                    return BOOL
            return vals[-1]
        for v in vals:
            t = truth(v)
            if t is False:
                return v
            if t is None:
                return BOOL
        return vals[-1]
    if isinstance(e, ast.Compare):
        l = ev(e.left, fr)
        res = None
        for op, c in zip(e.ops, e.comparators):
            r = ev(c, fr)
            res = compare(op, l, r, e)
            l = r
        return res
    if isinstance(e, ast.Call):
        return call(e, fr)
    if isinstance(e, ast.Subscript):
        return subscript(ev(e.value, fr), ev_index(e.slice, fr), e)
    if isinstance(e, (ast.Tuple, ast.List)):
        items, tail = [], None
        for x in e.elts:
            if isinstance(x, ast.Starred):
                v = ev(x.value, fr)
                if isinstance(v, (Tup, Lst)) and getattr(v, "tail", None) is None and tail is None:
                    items.extend(v.items)          # (a, *(b, c)) is (a, b, c)
                    continue
                its = (list(v.items) + ([v.tail] if getattr(v, "tail", None) is not None else [])) if isinstance(v, (Tup, Lst)) else [elem(v)]
                for y in its:
                    tail = y if tail is None else join(tail, y)
                continue
            v = ev(x, fr)
            if tail is not None:
                tail = join(tail, v)
            else:
                items.append(v)
        if tail is not None:
            return Lst(items, tail)
        return Tup(items) if isinstance(e, ast.Tuple) else Lst(items)
    if isinstance(e, ast.Set):
        return Lst([ev(x, fr) for x in e.elts])
    if isinstance(e, ast.Dict):
        d = {}
        for k, v in zip(e.keys, e.values):
            vv = ev(v, fr)
            if k is None:
                if isinstance(vv, Dct):
                    d.update(vv.d)
                continue
            kk = ev(k, fr)
            d[kk.v if isinstance(kk, Cst) else "?"] = vv
        return Dct(d)
    if isinstance(e, (ast.ListComp, ast.GeneratorExp, ast.SetComp)):
        return comp(e, fr)
    if isinstance(e, ast.DictComp):
        gen = e.generators[0]
        it = ev(gen.iter, fr)
        saved = copy_env(fr.env)
        if isinstance(it, Dct):
            items = [Cst(k) if not (isinstance(k, str) and k.startswith("?")) else ANY for k in it.d]       # iteration over the keys
        elif isinstance(it, (Lst, Tup)):
            items = list(it.items) + ([it.tail] if isinstance(it, Lst) and it.tail is not None else [])
        else:
            items = [elem(it)]
        d = {}
        for i, v in enumerate(items):
            assign(gen.target, v, fr, e)
            keep = True
            for cond in gen.ifs:
                t_ = truth(ev(cond, fr))
                if t_ is False:
                    keep = False
                    break
                if t_ is None:
                    CTX.event("unknown-call", e, "a dictionary comprehension whose filter is not decided")
            if not keep:
                continue
            k = ev(e.key, fr)
            val = ev(e.value, fr)
            d[k.v if isinstance(k, Cst) else f"?{i}"] = val
        fr.env = saved
        return Dct(d)
    if isinstance(e, ast.IfExp):
        t = truth(ev(e.test, fr))
        if t is True:
            return ev(e.body, fr)
        if t is False:
            return ev(e.orelse, fr)
        return join(ev(e.body, fr), ev(e.orelse, fr))
    if isinstance(e, ast.JoinedStr):
        return BOOL
    if isinstance(e, ast.Lambda):
        return Fn(None, node=_lambda_def(e), qual=fr.qual + ".<lambda>", mod=fr.mod, closure=fr.env, cls=fr.cls)
    if isinstance(e, ast.Starred):
        return ev(e.value, fr)
    if isinstance(e, ast.Slice):
        return SLICE
    if isinstance(e, ast.NamedExpr):
        v = ev(e.value, fr)
        assign(e.target, v, fr, e)
        return v
    return Unk(f"expr {type(e).__name__}")


def _lambda_def(e):
    f = ast.FunctionDef(name="<lambda>", args=e.args, body=[ast.Return(value=e.body)], decorator_list=[], returns=None)
    ast.copy_location(f, e)
    ast.fix_missing_locations(f)
    return f


def compare(op, l, r, node):
    if isinstance(l, Cst) and isinstance(r, Cst):
        try:
            if isinstance(op, ast.Eq):
                return Cst(l.v == r.v)
            if isinstance(op, ast.NotEq):
                return Cst(l.v != r.v)
            if isinstance(op, ast.Is):
                return Cst(l.v is r.v)
            if isinstance(op, ast.IsNot):
                return Cst(l.v is not r.v)
            if isinstance(op, ast.Lt):
                return Cst(l.v < r.v)
            if isinstance(op, ast.Gt):
                return Cst(l.v > r.v)
            if isinstance(op, ast.LtE):
                return Cst(l.v <= r.v)
            if isinstance(op, ast.GtE):
                return Cst(l.v >= r.v)
        except Exception:
            return BOOL
    if isinstance(op, (ast.Is, ast.IsNot)):
        if _is_none(r) and not isinstance(l, (Unk, Cst, Bool)):
            return Cst(isinstance(op, ast.IsNot))
        if isinstance(r, Cst) and isinstance(r.v, bool) and isinstance(l, Cst):
            return Cst((l.v is r.v) == isinstance(op, ast.Is))
        if isinstance(l, Deg) and isinstance(r, Deg) and l.sup != r.sup and len(l.sup) == 1 and len(r.sup) == 1 and not is_may(l) and not is_may(r) \
                and () not in l.sup and () not in r.sup:
            return Cst(isinstance(op, ast.IsNot))       # one object has one degree: two values of different exact degrees are two objects
        return BOOL
    if isinstance(op, (ast.In, ast.NotIn)):
        if isinstance(l, Cst) and isinstance(r, (Tup, Lst)) and all(isinstance(i, Cst) for i in r.items) and getattr(r, "tail", None) is None:
            return Cst((l.v in [i.v for i in r.items]) == isinstance(op, ast.In))
        if isinstance(l, Cst) and isinstance(r, Dct):
            return Cst((l.v in r.d) == isinstance(op, ast.In))
        return BOOL
    if (isinstance(l, Cst) and isinstance(l.v, str)) or (isinstance(r, Cst) and isinstance(r.v, str)):
        if isinstance(op, ast.Eq) and (isinstance(l, (Lst, Tup, Deg, Dct, Obj)) or isinstance(r, (Lst, Tup, Deg, Dct, Obj))):
            return Cst(False)
        if isinstance(op, ast.NotEq) and (isinstance(l, (Lst, Tup, Deg, Dct, Obj)) or isinstance(r, (Lst, Tup, Deg, Dct, Obj))):
            return Cst(True)
        return BOOL
    if isinstance(l, IdxV) and isinstance(r, Cst) and isinstance(r.v, int) and r.v < l.lo:
        if isinstance(op, ast.Eq):
            return Cst(False)
        if isinstance(op, ast.NotEq):
            return Cst(True)
    if isinstance(l, ShapeV) or isinstance(r, ShapeV):
        return BOOL
    if isinstance(r, Ext) or isinstance(l, Ext):
        return BOOL
    check_decision(l, r, node, f"comparison {type(op).__name__}")
    return BOOL


def comp(e, fr):
    gen = e.generators[0]
    it = ev(gen.iter, fr)
    saved = copy_env(fr.env)

    DROP = object()

    def run_one(v, rest):
        assign(gen.target, v, fr, e)
        for cond in gen.ifs:
            if truth(ev(cond, fr)) is False:
                return DROP
        if rest:
            sub = ast.ListComp(elt=e.elt, generators=rest)
            ast.copy_location(sub, e)
            return elem(comp(sub, fr))
        return ev(e.elt, fr)
    rest = e.generators[1:]
    if isinstance(it, Tup):
        items, tail = list(it.items), None
    elif isinstance(it, Lst):
        items, tail = list(it.items), it.tail
    elif isinstance(it, Dct):
        items, tail = [Cst(k) for k in it.d], None
    else:
        items, tail = [], elem(it)
    out = [run_one(v, rest) for v in items]
    t = run_one(tail, rest) if tail is not None else None
    if t is DROP:
        t = None
    fr.env = saved
    if gen.ifs:
        if tail is None and items and not rest:
            # optimistic step (listed in evidence), the same one an unrolled loop with an undecided `if` around its append takes: items
            # whose filter is not decided are kept, so the positions stay aligned with those of the iterated sequence
            CTX.events.append(("assume", CTX.where(), "filtered comprehension over a literal sequence: undecided filters keep their item"))
            return Lst([o for o in out if o is not DROP], None)
        # filtered: lengths unknown
        r = t
        for o in out:
            if o is not DROP:
                r = join(r, o)
        return Lst([], r)
    return Lst([o for o in out if o is not DROP], t)


def attr(o, name, node, fr):
    if isinstance(o, ModV):
        v = _lookup_global(o.name, name)
        if v is None and (o.name + "." + name) in CTX.prog.mods:
            return ModV(o.name + "." + name)
        return v if v is not None else Unk(f"{o.name}.{name}")
    if isinstance(o, Ext):
        return Ext(o.name + "." + name)
    if isinstance(o, ClsV):
        f = CTX.prog.find_method(o.ci, name)
        if f:
            return Fn(f)
        c, ca = CTX.prog.find_classattr(o.ci, name)
        if ca is not None:
            return ev(ca, Frame(c.mod, {}, c.qual))
        if name == "__name__":
            return BOOL
        return Unk(f"class attr {name}")
    if isinstance(o, Obj):
        if name in o.attrs:
            return o.attrs[name]
        if o.cls:
            f = CTX.prog.find_method(o.cls, name)
            if f:
                if f.is_property:
                    return call_fn(Fn(f, bound=o), [], {}, node)
                if f.is_static:
                    return Fn(f)
                return Fn(f, bound=o)
            c, ca = CTX.prog.find_classattr(o.cls, name)
            if ca is not None:
                return ev(ca, Frame(c.mod, {}, c.qual))
        if name == "__class__":
            return ClsV(o.cls) if o.cls else BOOL
        if name in ("model_copy", "copy", "model_dump", "dict"):
            return ("objmethod", o, name)          # parameter / result models: a copy with some fields replaced, the fields as a dict
        return Unk(f"attr {name}")
    if isinstance(o, Dct):
        return ("dictmethod", o, name)
    if isinstance(o, Lst):
        return ("listmethod", o, name)
    if isinstance(o, ShapeV):
        return Unk(f"shape.{name}")
    if isinstance(o, (Deg, Any_, Tup, Bool)):
        b = num(o)
        if name == "T":
            if isinstance(b, Deg) and b.tag in ("U", "Vh", "U'", "Vh'"):
                return Deg(b.sup, b.rank, {"U": "U'", "Vh": "Vh'", "U'": "U", "Vh'": "Vh"}[b.tag])
            return b
        if name in ("real", "imag"):
            return b
        if name == "shape":
            return ShapeV(getattr(b, "rank", None), getattr(b, "dims", None))
        if name == "ndim":
            rk = getattr(b, "rank", None)
            return Cst(rk) if rk is not None else Deg({()}, 0)
        if name in ("size", "dtype"):
            return Deg({()}, 0)
        return ("arrmethod", b, name)
    if isinstance(o, Cst) and o.v is None:
        return Unk(f"None.{name}")
    if isinstance(o, Cst) and isinstance(o.v, str):
        return ("strmethod", o, name)
    if isinstance(o, Cst):
        return ("arrmethod", num(o), name)
    if isinstance(o, (Top, Unk)):
        return ("arrmethod", o, name) if name in ARRM else o
    if isinstance(o, tuple) and o and o[0] == "super":
        _, frm = o
        cls = frm.cls
        selfv = frm.env.get("self")
        if cls is not None:
            f = CTX.prog.find_method(cls, name, after=cls)
            if f is not None:
                return Fn(f) if f.is_static else Fn(f, bound=selfv)
        return Unk(f"super().{name}")
    return Unk(f"attr {name} of {type(o).__name__}")


def call(e, fr):
    f = ev(e.func, fr)
    args = []
    for a in e.args:
        v = ev(a, fr)
        if isinstance(a, ast.Starred):
            if isinstance(v, (Tup, Lst)):
                args.extend(v.items + ([v.tail] if isinstance(v, Lst) and v.tail is not None else []))
            else:
                args.append(v)
        else:
            args.append(v)
    kw = {}
    blind_kw = False
    for k in e.keywords:
        v = ev(k.value, fr)
        if k.arg is None:
            if isinstance(v, Dct) and not any(isinstance(k_, str) and k_.startswith("?") for k_ in v.d):
                kw.update(v.d)
            else:
                # keywords that are not known: what the callee receives for its other parameters cannot be said
                CTX.event("unknown-call", e, f"**{ast.unparse(k.value)[:40]} (keywords not known)")
                blind_kw = True
        else:
            kw[k.arg] = v
    if blind_kw and not isinstance(f, Fn):
        return Unk(f"call with unknown keywords `**{ast.unparse([k.value for k in e.keywords if k.arg is None][0])[:30]}`")
    if isinstance(f, Fn):
        return call_fn(f, args, kw, e)
    if isinstance(f, ClsV):
        return instantiate(f.ci, args, kw, e)
    if isinstance(f, tuple):
        kind = f[0]
        if kind == "arrmethod":
            return arrmethod(f[1], f[2], args, kw, e)
        if kind == "objmethod":
            o, name = f[1], f[2]
            if name in ("model_copy", "copy"):
                upd = kw.get("update")
                new = Obj(dict(o.attrs), o.cls)
                if isinstance(upd, Dct):
                    for k_, v_ in upd.d.items():
                        if isinstance(k_, str) and not k_.startswith("?"):
                            new.attrs[k_] = v_
                        else:
                            CTX.event("unknown-call", e, "model_copy(update=..) with keys that are not known")
                elif upd is not None and not (isinstance(upd, Cst) and upd.v is None):
                    CTX.event("unknown-call", e, "model_copy(update=..) with a mapping that is not known")
                return new
            return Dct(dict(o.attrs))
        if kind == "listmethod":
            l, name = f[1], f[2]
            if name == "append":
                if l.tail is None and len(l.items) < 12 and not CTX.generic:
                    l.items.append(args[0])
                else:
                    l.tail = join(l.tail, args[0])
                return Cst(None)
            if name == "extend":
                l.tail = join(l.tail, elem(args[0]))
                return Cst(None)
            if name == "copy":
                return l.copy()
            if name == "pop":
                return elem(l)
            if name == "index":
                return Deg({()}, 0)
            if name in ("remove", "sort", "reverse", "insert", "clear"):
                return Cst(None)
            return Unk(f"list method {name}")
        if kind == "dictmethod":
            d, name = f[1], f[2]
            if name == "get":
                if isinstance(args[0], Cst):
                    return d.d.get(args[0].v, args[1] if len(args) > 1 else Cst(None))
                return elem(d)
            if name == "pop":
                if isinstance(args[0], Cst):
                    return d.d.pop(args[0].v, args[1] if len(args) > 1 else Unk("pop of missing key"))
                return Unk("dict.pop")
            if name == "setdefault":
                if isinstance(args[0], Cst):
                    return d.d.setdefault(args[0].v, args[1] if len(args) > 1 else Cst(None))
                return Unk("dict.setdefault")
            if name == "items":
                return Lst([Tup([Cst(k), v]) for k, v in d.d.items()])
            if name == "values":
                return Lst(list(d.d.values()))
            if name == "keys":
                return Lst([Cst(k) for k in d.d])
            if name == "update":
                if args and isinstance(args[0], Dct):
                    d.d.update(args[0].d)
                d.d.update(kw)
                return Cst(None)
            if name == "copy":
                return Dct(d.d)
            return Unk(f"dict method {name}")
        if kind == "strmethod":
            # methods of a known string with known arguments are computed (labels normalised before a comparison)
            if f[2] in STR_PURE and all(isinstance(a_, Cst) and isinstance(a_.v, (str, int, tuple, type(None))) for a_ in args) and not kw:
                try:
                    return Cst(getattr(f[1].v, f[2])(*[a_.v for a_ in args]))
                except Exception:
                    return BOOL
            return BOOL
    if isinstance(f, Ext):
        return call_ext(f.name, args, kw, e, fr)
    if isinstance(f, Unk):
        if isinstance(e.func, ast.Attribute) and isinstance(e.func.value, ast.Name) and e.func.value.id in ("logger", "logging", "warnings"):
            return Cst(None)
        CTX.event("unknown-call", e, ast.unparse(e.func))
        return f
    if isinstance(f, Top):
        return f
    CTX.event("unknown-call", e, ast.unparse(e.func))
    return Unk(f"call {ast.unparse(e.func)}")


def arrmethod(b, name, args, kw, node):
    if isinstance(b, (Top, Unk)):
        return b
    if name in ("any", "all"):
        return BOOL
    if name == "reshape":
        shp = args[0] if len(args) == 1 and isinstance(args[0], (Tup, Lst, ShapeV)) else Tup(args)
        rk = _shape_rank(shp)
        return withrank(b, rk)
    if name in ("flatten", "ravel"):
        return withrank(b, 1)
    if name in ("swapaxes", "transpose", "conj", "conjugate", "copy", "astype", "view"):
        return b
    if name == "tolist":
        return Lst([], elem(b))
    if name == "dot":
        return matmul(b, args[0])
    if name in ("conj", "conjugate", "astype", "copy", "round", "cumsum"):
        return b
    if name == "clip":
        return t_clip([b] + list(args), kw, node)
    if name in ("squeeze", "transpose"):
        return withrank(b, None) if name == "squeeze" else b
    if name in ("sum", "mean", "max", "min", "std"):
        return t_reduce([b] + list(args), kw, node)
    if name in ("argmax", "argmin"):
        return t_index([b] + list(args), kw, node)
    if name == "item":
        return withrank(b, 0)
    if name == "fill":
        return Cst(None)
    if name == "nonzero":
        return Tup([Deg({()}, 1)])
    return Unk(f"array method {name}")


def call_ext(n, args, kw, e, fr):
    key = None
    if n == "numpy.copyto" and len(args) >= 2 and isinstance(e, ast.Call) and e.args and isinstance(e.args[0], ast.Name) and fr is not None:
        # in-place conditional copy: dst <- where(mask, src, dst)
        CTX.used.add("numpy.copyto")
        fr.env[e.args[0].id] = t_where([kw.get("where", BOOL), args[1], args[0]], {}, e) if "where" in kw else withrank(num(args[1]), getattr(num(args[0]), "rank", None))
        return Cst(None)
    if n == "numpy.ndindex":
        CTX.used.add("numpy.ndindex")
        dims = args[0].items if len(args) == 1 and isinstance(args[0], (Tup, Lst)) else args
        return Lst([], Tup([Deg({()}, 0) for _ in dims]))
    if n in CTX.overrides:
        CTX.used.add(n + " (property-specific model)")
        return CTX.overrides[n](args, kw, e)
    if n.startswith("numpy."):
        key = n.split(".", 1)[1]
        if n in CTX.probe_names:
            CTX.probes.setdefault(n, []).append((CTX.where(), [num(a) for a in args], dict(kw)))
        if key in NP and NP[key] is not None:
            CTX.used.add("numpy." + key)
            return NP[key](args, kw, e)
        if key in ("reshape", "flatten", "item", "clip", "std") and args:
            # function form of an array method: np.reshape(a, shape) == a.reshape(shape)
            CTX.used.add("numpy." + key)
            kw2 = dict(kw)
            extra = list(args[1:])
            if key == "reshape" and not extra and ("newshape" in kw2 or "shape" in kw2):
                extra = [kw2.pop("newshape", None) or kw2.pop("shape")]
            return arrmethod(num(args[0]) if not isinstance(args[0], (Top, Unk)) else args[0], key, extra, kw2, e)
    for k, fnc in EXTF.items():
        if n == k:
            if n in CTX.probe_names:
                CTX.probes.setdefault(n, []).append((CTX.where(), [num(a) for a in args], dict(kw)))
            CTX.used.add(k)
            return fnc(args, kw, e)
    if n in BUILTINS and BUILTINS[n]:
        return BUILTINS[n](args, kw, e)
    if n == "super":
        return ("super", fr)
    if n == "setattr" and len(args) == 3:
        if isinstance(args[0], Obj) and isinstance(args[1], Cst) and isinstance(args[1].v, str):
            args[0].attrs[args[1].v] = args[2]
            return Cst(None)
        CTX.event("unknown-call", e, "setattr with a name that is not known")
        if isinstance(args[0], Obj):
            for k_ in list(args[0].attrs):
                args[0].attrs[k_] = join(args[0].attrs[k_], args[2])
        return Cst(None)
    if n == "getattr":
        if len(args) >= 2 and isinstance(args[1], Cst) and isinstance(args[1].v, str):
            r = attr(args[0], args[1].v, e, fr)
            if isinstance(r, Unk) and len(args) > 2:
                return args[2]
            return r
        return Unk("getattr")
    if n.startswith("logging") or n.endswith((".debug", ".info", ".warning", ".error")) or n.startswith("warnings"):
        return Cst(None)
    if n in EXC_NAMES:
        return BOOL
    CTX.event("unknown-call", e, n)
    return Unk(f"call {n}")


def astq_src(e):
    try:
        return ast.unparse(e)
    except Exception:
        return ""


def namedtuple_fields(ci):
    """([field names], {field: default value}) of a class written `class X(typing.NamedTuple): a: T; b: T = v`, else None"""
    node = getattr(ci, "node", None)
    if node is None or not any(astq_src(b).split(".")[-1] == "NamedTuple" for b in node.bases):
        return None
    names, defaults = [], {}
    for st in node.body:
        if isinstance(st, ast.AnnAssign) and isinstance(st.target, ast.Name):
            names.append(st.target.id)
            if st.value is not None:
                try:
                    defaults[st.target.id] = Cst(ast.literal_eval(st.value))
                except Exception:
                    defaults[st.target.id] = ANY
    return names, defaults


def nt_items(o):
    """the fields of a NamedTuple object in order, or None"""
    f = getattr(o, "nt_fields", None)
    return [o.attrs.get(k, ANY) for k in f] if isinstance(o, Obj) and f else None


def instantiate(ci, args, kw, node):
    o = Obj({}, ci)
    init = CTX.prog.find_method(ci, "__init__")
    # pydantic-style models (no __init__ in the package): fields from keywords + class defaults via MRO
    if init is None:
        nt = namedtuple_fields(ci)
        if nt is not None:
            # typing.NamedTuple: positional arguments fill the fields in order, class-level values are the defaults; the object is
            # also the tuple of its fields (unpacking, indexing)
            names, defaults = nt
            for k, d_ in defaults.items():
                o.attrs[k] = d_
            for k, v in zip(names, args):
                o.attrs[k] = v
            for k, v in kw.items():
                o.attrs[k] = v
            o.nt_fields = list(names)
            return o
        for k, v in kw.items():
            o.attrs[k] = v
        return o
    call_fn(Fn(init, bound=o), args, kw, node)
    return o
