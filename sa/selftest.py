"""Thorough tier: discrimination self-test of a property's rules on in-memory variants of the parsed tree."""
import os
import multiprocessing as mp

from . import report, mutate
from .program import Program, AnalysisError

_G = {}


def _eval_variant(args):
    pid, kind, var = args
    prog = _G["prog"]
    mod = _G["mod"]
    base_keys = _G["base_keys"]
    known = _G["known"]
    try:
        if var[0].startswith("patch:"):
            ov = mutate.patch_overrides(prog, var[1])
        elif var[0].startswith("rename:"):
            ov = mutate.rename_local(prog, var[1], var[2], var[3], var[4])
        else:
            ov = mutate.apply_variant(prog, var)
    except SyntaxError as e:
        return (var[0], kind, "bad-variant", str(e))
    if ov is None:
        return (var[0], kind, "not-applicable", "")
    try:
        p2 = Program(prog.root, ov)
        from . import astq
        astq.PROG = p2
        r2 = report.Run(pid, "quick", 0)
        mod.check(p2, r2)
    except AnalysisError as e:
        return (var[0], kind, "undecided", str(e)[:200])
    except Exception as e:
        return (var[0], kind, "undecided", f"{type(e).__name__}: {e}"[:200])
    newv = [o for o in r2.violations() if o.key() not in base_keys and o.key() not in known]
    # vacuity errors count as undecided
    per_rule = {}
    for o in r2.obs:
        per_rule.setdefault(o.rule, set()).add(o.ident())
    vac = [rid for rid, mn in r2.min_instances.items() if len(per_rule.get(rid, ())) < mn]
    und = r2.undecided()
    if newv:
        o = newv[0]
        return (var[0], kind, "violation", f"{o.rule} @ {o.fn} [{o.role}] {o.detail}"[:240])
    if und or vac or r2.errors:
        why = (und[0].detail if und else (f"vacuous {vac}" if vac else r2.errors[0]))
        return (var[0], kind, "undecided", str(why)[:200])
    return (var[0], kind, "silent", "")


def run_selftest(pid, mod, prog, run, seed=0):
    mutants = list(getattr(mod, "MUTANTS", []))
    rewrites = list(getattr(mod, "REWRITES", []))
    known = {k["key"] for k in report.load_known() if k.get("property") == pid and k.get("status") == "open"}
    _G.update(prog=prog, mod=mod, base_keys={o.key() for o in run.violations()}, known=known)
    # the independent corpus: breakages written for THIS property must be reported, refactorings (of any property) must leave it silent
    import json
    import pathlib
    V = pathlib.Path(__file__).resolve().parent.parent
    corpus_m, corpus_r = [], []
    if os.environ.get("VERIF_NO_CORPUS") != "1":
        for sd in sorted((V / "seeded").glob("*/meta.json")):
            try:
                if json.loads(sd.read_text()).get("property") == pid:
                    corpus_m.append((f"patch:seeded/{sd.parent.name}", str(sd.parent / "patch.diff")))
            except Exception:
                pass
        exp = V / "regress" / "expected.json"
        if exp.exists():
            for f_, prop_ in json.loads(exp.read_text()).items():
                if prop_ == pid and (V / "regress" / f_).exists():
                    corpus_m.append((f"patch:regress/{f_}", str(V / "regress" / f_)))
        for sd in sorted((V / "refactor").glob("*/patch.diff")):
            corpus_r.append((f"patch:refactor/{sd.parent.name}", str(sd)))
    jobs = [(pid, "mutant", v) for v in mutants] + [(pid, "rewrite", v) for v in rewrites] + [(pid, "mutant", v) for v in corpus_m] + [(pid, "rewrite", v) for v in corpus_r]
    nproc = min(int(os.environ.get("VERIF_JOBS", "16")), max(1, len(jobs)))
    if nproc > 1:
        ctx = mp.get_context("fork")
        with ctx.Pool(nproc) as pool:
            res = pool.map(_eval_variant, jobs, chunksize=1)
    else:
        res = [_eval_variant(j) for j in jobs]
    out = {"mutants": 0, "mutants_detected": 0, "mutants_undecided": 0, "mutants_missed": [], "rewrites": 0, "rewrites_silent": 0,
           "rewrites_alarmed": [], "rewrites_undecided": [], "not_applicable": [], "detections": []}
    for vid, kind, status, why in res:
        if status in ("not-applicable", "bad-variant"):
            out["not_applicable"].append(f"{vid}: {status} {why}".strip())
            continue
        if kind == "mutant":
            out["mutants"] += 1
            if status == "violation":
                out["mutants_detected"] += 1
                out["detections"].append(f"{vid}: {why}")
            elif status == "undecided":
                out["mutants_undecided"] += 1
                out["detections"].append(f"{vid}: UNDECIDED {why}")
            else:
                out["mutants_missed"].append(vid)
        else:
            out["rewrites"] += 1
            if status == "silent":
                out["rewrites_silent"] += 1
            elif status == "violation":
                out["rewrites_alarmed"].append(f"{vid}: {why}")
            else:
                out["rewrites_undecided"].append(f"{vid}: {why}")
    for vid in out["mutants_missed"]:
        run.error(f"self-test: seeded mutant {vid} applied cleanly but was not reported (the rule does not discriminate it)")
    for r in out["rewrites_alarmed"]:
        run.error(f"self-test: behaviour-preserving rewrite raised an alarm: {r}")
    for r in out["rewrites_undecided"]:
        run.notes.append(f"self-test: rewrite left the checker undecided (exit 2 on such code, not an alarm): {r}")
    if out["not_applicable"]:
        run.notes.append(f"self-test: {len(out['not_applicable'])} variant(s) not applicable to this tree (anchor text gone)")
    return out
