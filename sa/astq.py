"""AST query helpers used by the structural rules: resolved callee names, single-assignment expansion,
structural equality modulo local aliases, statement walking with enclosing-block information."""
import ast
import copy

from .program import FuncInfo, ClassInfo, Ext, ModRef, rel
from .absint import CTX


def traversed_functions():
    return set(getattr(CTX, "traversed", ()))


def dump(e):
    return ast.dump(e, annotate_fields=False, include_attributes=False)


def src(e, limit=120):
    try:
        s = ast.unparse(e)
    except Exception:
        s = type(e).__name__
    s = " ".join(s.split())
    return s if len(s) <= limit else s[: limit - 3] + "..."


def callee_name(prog, fi, call):
    """dotted name of the callee: 'numpy.argmax', 'pyoma2.functions.gen.MAC', '.argmax' (method on a value), 'abs'"""
    r = prog.resolve_call(fi, call)
    if isinstance(r, Ext):
        return r.name
    if isinstance(r, FuncInfo):
        return r.qual
    if isinstance(r, ClassInfo):
        return r.qual
    f = call.func
    if isinstance(f, ast.Attribute):
        return "." + f.attr
    if isinstance(f, ast.Name):
        return f.id
    return "?"


def is_call_to(prog, fi, node, names):
    """node is a Call whose resolved callee (or method name) is in names; names like 'numpy.abs', 'abs', '.argmax'"""
    return isinstance(node, ast.Call) and callee_name(prog, fi, node) in names


ABS = {"abs", "numpy.abs", "numpy.absolute", ".__abs__"}
ARGMAX = {"numpy.argmax", "numpy.nanargmax", ".argmax"}
ARGMIN = {"numpy.argmin", "numpy.nanargmin", ".argmin"}


def assignments(fi):
    """name -> list of (stmt, value expr or None) for simple Name targets (tuple targets give value None)"""
    out = {}
    for n in ast.walk(fi.node):
        if isinstance(n, ast.Assign):
            for t in n.targets:
                if isinstance(t, ast.Name):
                    out.setdefault(t.id, []).append((n, n.value))
                elif isinstance(t, (ast.Tuple, ast.List)):
                    for i, el in enumerate(t.elts):
                        if isinstance(el, ast.Name):
                            v = None
                            if isinstance(n.value, (ast.Tuple, ast.List)) and len(n.value.elts) == len(t.elts):
                                v = n.value.elts[i]
                            out.setdefault(el.id, []).append((n, v))
        elif isinstance(n, ast.AnnAssign) and isinstance(n.target, ast.Name) and n.value is not None:
            out.setdefault(n.target.id, []).append((n, n.value))
        elif isinstance(n, ast.AugAssign) and isinstance(n.target, ast.Name):
            out.setdefault(n.target.id, []).append((n, None))
        elif isinstance(n, (ast.For, ast.comprehension)):
            for el in ast.walk(n.target):
                if isinstance(el, ast.Name):
                    out.setdefault(el.id, []).append((n, None))
        elif isinstance(n, ast.NamedExpr) and isinstance(n.target, ast.Name):
            out.setdefault(n.target.id, []).append((n, n.value))
    a = fi.node.args
    for x in a.posonlyargs + a.args + a.kwonlyargs:
        out.setdefault(x.arg, []).append((fi.node, None))
    return out


def unique_def(amap, name):
    """the defining expression of `name` if every assignment to it has the same expression (same text in all branches)"""
    ent = amap.get(name)
    if not ent or any(v is None for _, v in ent):
        return None
    d0 = dump(ent[0][1])
    if all(dump(v) == d0 for _, v in ent[1:]):
        return ent[0][1]
    return None


class _Subst(ast.NodeTransformer):
    def __init__(self, amap, depth, stop=()):
        self.amap = amap
        self.depth = depth
        self.stop = set(stop)

    def visit_Name(self, node):
        if isinstance(node.ctx, ast.Load) and node.id not in self.stop and self.depth > 0:
            v0 = unique_def(self.amap, node.id)
            if v0 is not None:
                v = copy.deepcopy(v0)
                return _Subst(self.amap, self.depth - 1, self.stop | {node.id}).visit(v)
        return node


def expand(fi, e, depth=12, stop=()):
    """substitute locals that are assigned exactly once by their defining expression"""
    amap = getattr(fi, "_amap", None)
    if amap is None:
        amap = assignments(fi)
        fi._amap = amap
    return _Subst(amap, depth, stop).visit(copy.deepcopy(e))


def same(fi, a, b, depth=12):
    """structural equality modulo single-assignment local aliases"""
    if dump(a) == dump(b):
        return True
    return dump(expand(fi, a, depth)) == dump(expand(fi, b, depth))


def strip_abs(prog, fi, e):
    """abs(V)/np.abs(V) -> V, else None"""
    if isinstance(e, ast.Call) and callee_name(prog, fi, e) in ABS and e.args:
        return e.args[0]
    return None


def argreduce(prog, fi, e, kinds):
    """if e is argmax/argmin style call (function or method form) return its array argument"""
    if not isinstance(e, ast.Call):
        return None
    nm = callee_name(prog, fi, e)
    if nm in kinds:
        if nm.startswith(".") and isinstance(e.func, ast.Attribute):
            return e.func.value
        return e.args[0] if e.args else None
    return None


def index_elts(sub):
    s = sub.slice
    return list(s.elts) if isinstance(s, ast.Tuple) else [s]


def is_full_slice(e):
    return isinstance(e, ast.Slice) and e.lower is None and e.upper is None and e.step is None


def unit_norm_sites(fi, prog=None, _depth=1):
    """[(node, ok, why)] for every division whose divisor is selected with an argmax (also inside package helpers called from fi)"""
    prog = prog or CTX.prog
    out = []
    if _depth > 0:
        for c, r in prog.calls_in(fi):
            if isinstance(r, FuncInfo) and r.cls is None and r.node is not fi.node and r.node.name.startswith("_"):
                out.extend(unit_norm_sites(r, prog, _depth - 1))
    for n in ast.walk(fi.node):
        if not (isinstance(n, ast.BinOp) and isinstance(n.op, ast.Div)):
            continue
        den = n.right
        numr = n.left
        den_x = expand(fi, den)
        # np.take_along_axis(X, argmax(abs(X), axis=a)[newaxis at a], axis=a): the pivots of the vectors lying along axis a, kept broadcastable
        if isinstance(den_x, ast.Call) and callee_name(prog, fi, den_x) == "numpy.take_along_axis" and len(den_x.args) >= 2:
            ax = kwarg(den_x, "axis", 2)
            idx = expand(fi, den_x.args[1])
            ins = None
            if isinstance(idx, ast.Subscript):
                iel = index_elts(idx)
                new_pos = [i for i, x in enumerate(iel) if (isinstance(x, ast.Constant) and x.value is None) or src(x).endswith("newaxis")]
                if len(new_pos) == 1 and all(is_full_slice(x) for i, x in enumerate(iel) if i != new_pos[0]):
                    ins, idx = new_pos[0], expand(fi, idx.value)
            elif isinstance(idx, ast.Call) and callee_name(prog, fi, idx) == "numpy.expand_dims" and len(idx.args) >= 1:
                a2 = kwarg(idx, "axis", 1)
                ins, idx = (a2.value if isinstance(a2, ast.Constant) else None), expand(fi, idx.args[0])
            a_ = argreduce(prog, fi, idx, ARGMAX)
            if a_ is None or ins is None or not isinstance(ax, ast.Constant):
                out.append((n, None, f"divisor `{src(den, 60)}`: pivot selection not recognised"))
                continue
            inner = strip_abs(prog, fi, expand(fi, a_))
            ax_arg = kwarg(idx, "axis", 1)
            if inner is None:
                out.append((n, False, f"pivot index is argmax of `{src(a_)}`, not of a magnitude (abs missing)"))
            elif not (isinstance(ax_arg, ast.Constant) and ax_arg.value == ax.value == ins):
                out.append((n, False, f"pivot searched along axis `{src(ax_arg) if ax_arg is not None else None}`, selected along axis {ax.value}, broadcast along axis {ins}"))
            elif not (same(fi, inner, den_x.args[0]) and same(fi, numr, den_x.args[0])):
                out.append((n, False, f"the largest-magnitude components are searched in `{src(inner)}` / taken from `{src(den_x.args[0])}` but `{src(numr)}` is normalised"))
            else:
                out.append((n, True, f"`{src(numr)}` divided by its own components at argmax(abs(.), axis={ax.value})"))
            continue
        if not isinstance(den_x, ast.Subscript):
            continue
        # broadcast wrapper  p[:, None] / p[None, :] / p[:, np.newaxis]
        bel = index_elts(den_x)
        wrapped = len(bel) == 2 and any(is_full_slice(x) for x in bel) and any((isinstance(x, ast.Constant) and x.value is None) or src(x).endswith("newaxis") for x in bel)
        # a bare pivot vector X[argmax(abs(X), axis=0), arange(n)] broadcasts along the last axis: column j is divided by pivot j
        bare = not wrapped and len(bel) == 2 and any(isinstance(expand(fi, x), ast.Call) and callee_name(prog, fi, expand(fi, x)) in ("numpy.arange", "range") for x in bel)
        if wrapped or bare:
            if wrapped:
                den_x = expand(fi, den_x.value)
            if not isinstance(den_x, ast.Subscript):
                continue
            vel = index_elts(den_x)
            # vectorised pivot: X[argmax(abs(X), axis=0), arange(n)]  (or the transposed arrangement)
            if len(vel) == 2:
                found = None
                for pos_ in (0, 1):
                    a_ = argreduce(prog, fi, expand(fi, vel[pos_]), ARGMAX)
                    other = expand(fi, vel[1 - pos_])
                    if a_ is not None and isinstance(other, ast.Call) and callee_name(prog, fi, other) in ("numpy.arange", "range"):
                        found = (pos_, a_, expand(fi, vel[pos_]))
                if found is not None:
                    pos_, a_, call_ = found
                    inner = strip_abs(prog, fi, expand(fi, a_))
                    ax = kwarg(call_, "axis", 1)
                    num_x = expand(fi, numr)
                    base = num_x.value if isinstance(num_x, ast.Attribute) and num_x.attr == "T" else num_x
                    if inner is None:
                        out.append((n, False, f"pivot index is argmax of `{src(a_)}`, not of a magnitude (abs missing)"))
                    elif not (isinstance(ax, ast.Constant) and ax.value == pos_):
                        out.append((n, False if isinstance(ax, ast.Constant) else None, f"pivot searched along axis `{src(ax) if ax is not None else None}` but used as index {pos_}"))
                    elif bare and pos_ != 0:
                        out.append((n, False, f"the pivots of the rows (argmax along axis 1) are broadcast along the last axis: element (i, j) is divided by the pivot of row j, not of row i"))
                    elif dump(expand(fi, inner)) != dump(expand(fi, den_x.value)) or (dump(expand(fi, base)) != dump(expand(fi, den_x.value)) and dump(expand(fi, num_x)) != dump(expand(fi, den_x.value))):
                        out.append((n, False, f"the largest-magnitude components are searched in `{src(inner)}` / taken from `{src(den_x.value)}` but `{src(base)}` is normalised"))
                    else:
                        out.append((n, True, f"`{src(numr)}` divided column-wise by its own components at argmax(abs(.), axis={pos_})"))
                    continue
        arg_pos = None
        arr = None
        elts = index_elts(den_x)
        for i, el in enumerate(elts):
            el_x = expand(fi, el)
            a = argreduce(prog, fi, el_x, ARGMAX)
            if a is not None:
                arg_pos, arr = i, a
        if arg_pos is None:
            continue
        inner = strip_abs(prog, fi, expand(fi, arr))
        if inner is None:
            out.append((n, False, f"divisor index is argmax of `{src(arr)}`, not of a magnitude (abs missing)"))
            continue
        if not same(fi, inner, numr):
            out.append((n, False, f"the largest-magnitude component is searched in `{src(inner)}` but `{src(numr)}` is the vector being normalised"))
            continue
        # the divisor must be the element of the numerator vector at that index
        num_x = expand(fi, numr)
        ok = False
        if isinstance(num_x, ast.Subscript):
            nel = index_elts(num_x)
            slice_pos = [i for i, el in enumerate(nel) if isinstance(el, ast.Slice)]
            if len(slice_pos) == 1 and is_full_slice(nel[slice_pos[0]]) and dump(num_x.value) == dump(den_x.value) and len(nel) == len(elts) \
                    and slice_pos[0] == arg_pos and all(dump(expand(fi, a)) == dump(expand(fi, b)) for i, (a, b) in enumerate(zip(nel, elts)) if i != arg_pos):
                ok = True
        if not ok and len(elts) == 1 and dump(num_x) == dump(den_x.value):
            ok = True
        if not ok and len(elts) == 1 and same(fi, numr, den.value if isinstance(den, ast.Subscript) else den_x.value):
            ok = True
        if ok:
            out.append((n, True, f"`{src(numr)}` divided by its own component at argmax(abs(.))"))
        else:
            out.append((n, False, f"divisor `{src(den)}` is not the component of `{src(numr)}` at the argmax index"))
    return out


# ----------------------------------------------------------------------------- casts that drop the imaginary part
REAL_DTYPES = {"float", "np.float64", "np.float32", "np.float_", "np.double", "numpy.float64", "numpy.float32", "np.float16", "np.longdouble", "int", "np.int64", "np.int32"}


def _is_real_dtype(e):
    if isinstance(e, ast.Constant) and isinstance(e.value, str):
        return e.value.lower().lstrip("<>=").startswith(("float", "f4", "f8", "d", "int", "i4", "i8"))
    return src(e) in REAL_DTYPES


def real_casts(e):
    """sub-expressions of e that turn a (possibly complex) array into a real one: dtype=float in a constructor / astype(float),
    `.real`, np.real(..) - returns [(node, text)].  Magnitudes (abs) are values of their own, not casts, and are not listed."""
    out = []
    for n in ast.walk(e):
        if isinstance(n, ast.Call):
            for k in n.keywords:
                if k.arg == "dtype" and _is_real_dtype(k.value):
                    out.append((n, f"`{src(n, 50)}` (dtype={src(k.value)})"))
            if isinstance(n.func, ast.Attribute) and n.func.attr == "astype" and n.args and _is_real_dtype(n.args[0]):
                out.append((n, f"`{src(n, 50)}`"))
            if isinstance(n.func, ast.Attribute) and n.func.attr in ("real", "real_if_close") and isinstance(n.func.value, ast.Name) and n.func.value.id in ("np", "numpy") and n.func.attr == "real":
                out.append((n, f"`{src(n, 50)}`"))
            if isinstance(n.func, ast.Name) and n.func.id == "float":
                out.append((n, f"`{src(n, 50)}`"))
        elif isinstance(n, ast.Attribute) and n.attr == "real" and not (isinstance(n.value, ast.Name) and n.value.id in ("np", "numpy")):
            out.append((n, f"`{src(n, 50)}`"))
    return out


# ----------------------------------------------------------------------------- statements / blocks
def walk_stmts(body, path=()):
    """yield (stmt, path) where path is a tuple of (container stmt, field) from the function body down"""
    for s in body:
        yield s, path
        for field in ("body", "orelse", "finalbody"):
            sub = getattr(s, field, None)
            if isinstance(sub, list) and sub and isinstance(sub[0], ast.stmt):
                yield from walk_stmts(sub, path + ((s, field),))
        if isinstance(s, ast.Try):
            for h in s.handlers:
                yield from walk_stmts(h.body, path + ((s, "handler"),))


def calls_resolved(prog, fi, pred):
    """all calls in fi whose resolved callee name satisfies pred(name)"""
    out = []
    for n in ast.walk(fi.node):
        if isinstance(n, ast.Call):
            nm = callee_name(prog, fi, n)
            if pred(nm):
                out.append((n, nm))
    return out


def kwarg(call, name, pos=None):
    for k in call.keywords:
        if k.arg == name:
            return k.value
    if pos is not None and len(call.args) > pos and not any(isinstance(a, ast.Starred) for a in call.args[: pos + 1]):
        return call.args[pos]
    return None


def kwargs_open(call):
    """the call hands over keywords (or positions) that are not written at the call: f(**opts), f(*args) - `kwarg()` not finding a
    keyword there does not mean it is not passed"""
    return any(k.arg is None for k in call.keywords) or any(isinstance(a, ast.Starred) for a in call.args)


def params_of(fnode):
    a = fnode.args
    return [x.arg for x in a.posonlyargs + a.args], [x.arg for x in a.kwonlyargs], a.vararg, a.kwarg


def bind_args(fnode, call, bound=False):
    """map parameter name -> argument expression for a call to fnode (None when a default is used).
    Returns (mapping, errors)."""
    pos, kwonly, vararg, kwarg_ = params_of(fnode)
    if bound and pos:
        pos = pos[1:]
    m = {}
    errs = []
    star = any(isinstance(a, ast.Starred) for a in call.args)
    if not star:
        for i, a in enumerate(call.args):
            if i < len(pos):
                m[pos[i]] = a
            elif not vararg:
                errs.append(f"too many positional arguments ({len(call.args)} > {len(pos)})")
                break
    for k in call.keywords:
        if k.arg is None:
            continue
        if k.arg in m:
            errs.append(f"multiple values for '{k.arg}'")
        elif k.arg in pos or k.arg in kwonly:
            m[k.arg] = k.value
        elif not kwarg_:
            errs.append(f"unexpected keyword '{k.arg}'")
    ndef = len(fnode.args.defaults)
    allpos, _, _, _ = params_of(fnode)
    required = allpos[: len(allpos) - ndef]
    if bound and required:
        required = required[1:]
    dstar = any(k.arg is None for k in call.keywords)
    if not star and not dstar:
        for r in required:
            if r not in m:
                errs.append(f"missing required argument '{r}'")
        for p, d in zip(kwonly, fnode.args.kw_defaults):
            if d is None and p not in m:
                errs.append(f"missing required keyword-only argument '{p}'")
    return m, errs


# ----------------------------------------------------------------------------- constant-seeded linear paths
_UNDEC = object()


class OneOf:
    """a name known to hold one of a few literals (different labels set on different branches)"""

    def __init__(self, vals):
        self.vals = tuple(vals)

    def __eq__(self, o):
        return isinstance(o, OneOf) and set(map(repr, self.vals)) == set(map(repr, o.vals))

    def __hash__(self):
        return hash(tuple(sorted(map(repr, self.vals))))


def const_test(e, consts):
    """evaluate a test expression under known constants; _UNDEC if it cannot be decided"""
    alts = [k for k, v in consts.items() if isinstance(v, OneOf)]
    if alts and any(isinstance(n, ast.Name) and n.id in alts for n in ast.walk(e)):
        # decided when every alternative gives the same answer
        k = next(a for a in alts if any(isinstance(n, ast.Name) and n.id == a for n in ast.walk(e)))
        res = []
        for v in consts[k].vals:
            c2 = dict(consts)
            c2[k] = v
            res.append(const_test(e, c2))
        if any(r is _UNDEC for r in res):
            return _UNDEC
        truth = [bool(r) for r in res]
        if all(truth) or not any(truth):
            return res[0] if all(repr(r) == repr(res[0]) for r in res) else truth[0]
        return _UNDEC
    if isinstance(e, ast.Constant):
        return e.value
    if isinstance(e, ast.Name):
        return consts[e.id] if e.id in consts else _UNDEC
    if isinstance(e, ast.Attribute):
        k = src(e)
        return consts[k] if k in consts else _UNDEC
    if isinstance(e, ast.UnaryOp) and isinstance(e.op, ast.Not):
        v = const_test(e.operand, consts)
        return _UNDEC if v is _UNDEC else (not v)
    if isinstance(e, ast.BoolOp):
        vals = [const_test(v, consts) for v in e.values]
        if isinstance(e.op, ast.And):
            if any(v is not _UNDEC and not v for v in vals):
                return False
            return _UNDEC if any(v is _UNDEC for v in vals) else True
        if any(v is not _UNDEC and v for v in vals):
            return True
        return _UNDEC if any(v is _UNDEC for v in vals) else False
    if isinstance(e, ast.Call) and isinstance(e.func, ast.Name) and e.func.id == "isinstance" and len(e.args) == 2 and isinstance(e.args[0], ast.Name):
        if e.args[0].id not in consts:
            return _UNDEC
        v = consts[e.args[0].id]
        tn = [t.id for t in (e.args[1].elts if isinstance(e.args[1], ast.Tuple) else [e.args[1]]) if isinstance(t, ast.Name)]
        py = {"int": int, "list": list, "str": str, "float": float, "tuple": tuple, "dict": dict, "bool": bool}
        ts = tuple(py[t] for t in tn if t in py)
        if len(ts) != len(tn):
            return _UNDEC
        return isinstance(v, ts) and not (int in ts and bool not in ts and isinstance(v, bool))
    if isinstance(e, ast.Compare) and len(e.ops) == 1:
        l, r = const_test(e.left, consts), const_test(e.comparators[0], consts)
        if isinstance(e.comparators[0], (ast.Tuple, ast.List)) and l is not _UNDEC:
            items = [const_test(x, consts) for x in e.comparators[0].elts]
            if all(i is not _UNDEC for i in items):
                if isinstance(e.ops[0], ast.In):
                    return l in items
                if isinstance(e.ops[0], ast.NotIn):
                    return l not in items
        if l is _UNDEC or r is _UNDEC:
            return _UNDEC
        op = e.ops[0]
        try:
            if isinstance(op, ast.Eq):
                return l == r
            if isinstance(op, ast.NotEq):
                return l != r
            if isinstance(op, ast.Is):
                return l is r
            if isinstance(op, ast.IsNot):
                return l is not r
            if isinstance(op, ast.Lt):
                return l < r
            if isinstance(op, ast.Gt):
                return l > r
            if isinstance(op, ast.LtE):
                return l <= r
            if isinstance(op, ast.GtE):
                return l >= r
        except Exception:
            return _UNDEC
    return _UNDEC


def linear_path(body, consts):
    """statements executed for the given constants: decidable `if`s are replaced by the taken branch, everything else
    is kept; stops after the first top-level return/raise on the path."""
    out = []
    for s in body:
        if isinstance(s, ast.If):
            t = const_test(s.test, consts)
            if t is _UNDEC:
                out.append(s)
                continue
            sub = linear_path(s.body if t else s.orelse, consts)
            out.extend(sub)
            if sub and isinstance(sub[-1], (ast.Return, ast.Raise)):
                return out
            continue
        out.append(s)
        if isinstance(s, (ast.Return, ast.Raise)):
            return out
    return out


class PathFn:
    """a view of a function restricted to a linear path: supports expand()/assignments like a FuncInfo"""

    def __init__(self, fi, consts):
        self.fi = fi
        self.mod = fi.mod
        self.cls = fi.cls
        self.qual = fi.qual
        self.consts = dict(consts)
        self.stmts = linear_path(fi.node.body, consts)
        node = ast.FunctionDef(name=fi.node.name, args=fi.node.args, body=self.stmts or [ast.Pass()], decorator_list=[], returns=None)
        ast.copy_location(node, fi.node)
        self.node = node
        self._locals = getattr(fi, "_locals", None)

    def returns(self):
        return [s for s in self.stmts if isinstance(s, ast.Return)]


# ----------------------------------------------------------------------------- flow-sensitive expansion along a linear path
class _SubstEnv(ast.NodeTransformer):
    def __init__(self, env, bound=()):
        self.env = env
        self.bound = set(bound)

    def visit_Name(self, node):
        if isinstance(node.ctx, ast.Load) and node.id in self.env and node.id not in self.bound:
            return copy.deepcopy(self.env[node.id])
        return node

    def _comp(self, node):
        # comprehension variables shadow outer names
        names = set()
        for g in node.generators:
            for n in ast.walk(g.target):
                if isinstance(n, ast.Name):
                    names.add(n.id)
        sub = _SubstEnv(self.env, self.bound | names)
        for g in node.generators:
            g.iter = sub.visit(g.iter)
            g.ifs = [sub.visit(i) for i in g.ifs]
        if hasattr(node, "elt"):
            node.elt = sub.visit(node.elt)
        else:
            node.key = sub.visit(node.key)
            node.value = sub.visit(node.value)
        return node

    visit_ListComp = visit_GeneratorExp = visit_SetComp = visit_DictComp = _comp


def stored_names(stmt):
    out = set()
    for n in ast.walk(stmt):
        if isinstance(n, ast.Name) and isinstance(n.ctx, (ast.Store, ast.Del)):
            out.add(n.id)
    return out


SETDEFAULT = "__setdefault__"


def seq_env(stmts, upto=None, env=None, keep=()):
    """symbolic environment name -> defining expression (already substituted) after executing `stmts` in order;
    names written inside compound statements become opaque.  Stops before statement `upto` if given."""
    env = dict(env or {})
    for s in stmts:
        if s is upto:
            break
        if keep and stored_names(s) & set(keep) and not isinstance(s, (ast.For, ast.While, ast.If, ast.Try, ast.With)):
            for n in stored_names(s):
                env.pop(n, None)
            continue
        if isinstance(s, ast.Assign) and len(s.targets) == 1 and isinstance(s.targets[0], ast.Name):
            if (isinstance(s.value, (ast.List, ast.Dict, ast.Set)) and not getattr(s.value, "elts", getattr(s.value, "keys", None))) or \
                    (isinstance(s.value, ast.Call) and isinstance(s.value.func, ast.Name) and s.value.func.id in ("list", "dict", "set") and not s.value.args and not s.value.keywords):
                env.pop(s.targets[0].id, None)  # mutable accumulator: keep the name opaque
            else:
                env[s.targets[0].id] = _SubstEnv(env).visit(copy.deepcopy(s.value))
        elif isinstance(s, ast.Assign) and len(s.targets) == 1 and isinstance(s.targets[0], (ast.Tuple, ast.List)) \
                and isinstance(s.value, (ast.Tuple, ast.List)) and len(s.value.elts) == len(s.targets[0].elts) \
                and all(isinstance(t, ast.Name) for t in s.targets[0].elts):
            vals = [_SubstEnv(env).visit(copy.deepcopy(v)) for v in s.value.elts]
            for t, v in zip(s.targets[0].elts, vals):
                if (isinstance(v, (ast.List, ast.Dict, ast.Set)) and not getattr(v, "elts", getattr(v, "keys", None))) or \
                        (isinstance(v, ast.Call) and isinstance(v.func, ast.Name) and v.func.id in ("list", "dict", "set") and not v.args and not v.keywords):
                    env.pop(t.id, None)     # mutable accumulator: keep the name opaque
                else:
                    env[t.id] = v
        elif isinstance(s, ast.Assign) and len(s.targets) == 1 and isinstance(s.targets[0], (ast.Tuple, ast.List)) \
                and all(isinstance(t, ast.Name) for t in s.targets[0].elts):
            # tuple unpacking of a call: name -> call(...)[i]
            v = _SubstEnv(env).visit(copy.deepcopy(s.value))
            for i, t in enumerate(s.targets[0].elts):
                env[t.id] = ast.Subscript(value=copy.deepcopy(v), slice=ast.Constant(value=i), ctx=ast.Load())
        elif isinstance(s, ast.AnnAssign) and isinstance(s.target, ast.Name) and s.value is not None:
            env[s.target.id] = _SubstEnv(env).visit(copy.deepcopy(s.value))
        elif isinstance(s, ast.AugAssign) and isinstance(s.target, ast.Name) and s.target.id in env:
            env[s.target.id] = ast.BinOp(left=env[s.target.id], op=s.op, right=_SubstEnv(env).visit(copy.deepcopy(s.value)))
        elif _dict_update(s) is not None and _dict_update(s)[0] in env and _as_dict_literal(env[_dict_update(s)[0]]) is not None:
            # d.update(k=v): the dictionary value with the entries added / replaced
            nm_, items_ = _dict_update(s)
            d_ = _as_dict_literal(env[nm_])
            keys = [k.value for k in d_.keys]
            vals = list(d_.values)
            for k_, v_ in items_:
                v_ = _SubstEnv(env).visit(copy.deepcopy(v_))
                if k_ in keys:
                    vals[keys.index(k_)] = v_
                else:
                    keys.append(k_)
                    vals.append(v_)
            env[nm_] = ast.Dict(keys=[ast.Constant(value=k_) for k_ in keys], values=vals)
        elif isinstance(s, ast.Expr) and isinstance(s.value, ast.Call) and isinstance(s.value.func, ast.Attribute) and s.value.func.attr == "setdefault" \
                and isinstance(s.value.func.value, ast.Name) and s.value.func.value.id in env and len(s.value.args) == 2 and not s.value.keywords \
                and isinstance(s.value.args[0], ast.Constant) and isinstance(s.value.args[0].value, str):
            # d.setdefault("k", v): the dictionary with k filled in where it is missing (kept as a marked expression; bind_call reads it)
            nm_ = s.value.func.value.id
            env[nm_] = ast.Call(func=ast.Name(id=SETDEFAULT, ctx=ast.Load()), args=[env[nm_], s.value.args[0], _SubstEnv(env).visit(copy.deepcopy(s.value.args[1]))], keywords=[])
        elif isinstance(s, ast.Assign) and len(s.targets) == 1 and isinstance(s.targets[0], ast.Subscript) and isinstance(s.targets[0].value, ast.Name) \
                and s.targets[0].value.id in env and isinstance(s.targets[0].slice, ast.Constant) and isinstance(s.targets[0].slice.value, str) \
                and _as_dict_literal(env[s.targets[0].value.id]) is not None:
            # d["k"] = v
            d_ = _as_dict_literal(env[s.targets[0].value.id])
            keys = [k.value for k in d_.keys]
            vals = list(d_.values)
            v_ = _SubstEnv(env).visit(copy.deepcopy(s.value))
            k_ = s.targets[0].slice.value
            if k_ in keys:
                vals[keys.index(k_)] = v_
            else:
                keys.append(k_)
                vals.append(v_)
            env[s.targets[0].value.id] = ast.Dict(keys=[ast.Constant(value=x) for x in keys], values=vals)
        elif isinstance(s, ast.Assign) and len(s.targets) == 1 and isinstance(s.targets[0], ast.Subscript) and isinstance(s.targets[0].value, ast.Name) \
                and s.targets[0].value.id in env and (is_full_slice(s.targets[0].slice) or (isinstance(s.targets[0].slice, ast.Constant) and s.targets[0].slice.value is Ellipsis)):
            # X[:] = v / X[...] = v : every element replaced (v broadcast into the shape of X)
            env[s.targets[0].value.id] = _SubstEnv(env).visit(copy.deepcopy(s.value))
        elif isinstance(s, ast.Assign) and len(s.targets) == 1 and _masked_store(s.targets[0], env) is not None:
            # X[mask] = v  /  X[:, mask] = v   ->   X = where(mask broadcast over the other axes, v, X)   (functional form of the update)
            name, mask = _masked_store(s.targets[0], env)
            env[name] = ast.Call(func=ast.Attribute(value=ast.Name(id="np", ctx=ast.Load()), attr="where", ctx=ast.Load()),
                                 args=[mask, _SubstEnv(env).visit(copy.deepcopy(s.value)), env[name]], keywords=[])
        else:
            for n in stored_names(s):
                env.pop(n, None)
    return env


MASK_CALLS = {"isnan", "isinf", "isfinite", "isclose", "logical_and", "logical_or", "logical_not", "isin", "iscomplex", "isreal"}
ROWMASK, COLMASK = "__rowmask__", "__colmask__"


def is_mask_expr(e):
    """a boolean array by construction: comparison, ~ / & / | of such, np.isnan-like call"""
    if isinstance(e, ast.Compare):
        return True
    if isinstance(e, ast.UnaryOp) and isinstance(e.op, (ast.Invert, ast.Not)):
        return is_mask_expr(e.operand)
    if isinstance(e, ast.BinOp) and isinstance(e.op, (ast.BitAnd, ast.BitOr, ast.BitXor)):
        return is_mask_expr(e.left) and is_mask_expr(e.right)
    if isinstance(e, ast.Call) and isinstance(e.func, ast.Attribute) and e.func.attr in MASK_CALLS:
        return True
    return False


def _masked_store(target, env):
    """(array name, broadcast mask expression) for a store through a boolean mask into a name with a known value, else None.
    `__rowmask__(m)` stands for m broadcast along axis 0 (m[:, None, ...]; plain m for a vector), `__colmask__(m)` for m[None, :]."""
    if not (isinstance(target, ast.Subscript) and isinstance(target.value, ast.Name) and target.value.id in env):
        return None
    sl = target.slice
    which = ROWMASK
    if isinstance(sl, ast.Tuple):
        if len(sl.elts) == 2 and is_full_slice(sl.elts[0]):
            sl, which = sl.elts[1], COLMASK
        elif len(sl.elts) == 2 and is_full_slice(sl.elts[1]):
            sl = sl.elts[0]
        else:
            return None
    m = _SubstEnv(env).visit(copy.deepcopy(sl))
    if not is_mask_expr(m):
        return None
    return target.value.id, ast.Call(func=ast.Name(id=which, ctx=ast.Load()), args=[m], keywords=[])


def at(stmts, stmt, expr, env0=None):
    """expr as seen just before `stmt` on the linear path, with every name replaced by its definition"""
    env = seq_env(stmts, upto=stmt, env=env0)
    return _SubstEnv(env).visit(copy.deepcopy(expr))


def at_node(fi, node, expr, consts=None):
    """expr as seen at `node` (anywhere inside fi): names defined by the straight-line prefix of the function body are replaced
    by their definitions; names written inside the compound statement that contains `node` stay opaque."""
    body = linear_path(fi.node.body, consts or {}) if consts is not None else fi.node.body
    top = None
    for s in body:
        if any(n is node for n in ast.walk(s)):
            top = s
            break
    if top is None:
        return expand(fi, expr)
    env = seq_env(body, upto=top)
    if not isinstance(top, (ast.Assign, ast.Expr, ast.Return, ast.AnnAssign, ast.AugAssign)):
        for n in stored_names(top):
            env.pop(n, None)
    return _SubstEnv(env).visit(copy.deepcopy(expr))


# ----------------------------------------------------------------------------- nested flow-sensitive environments
def _contains(s, node):
    return any(n is node for n in ast.walk(s))


def env_at(body, node, env=None, keep=()):
    """symbolic environment just before the simple statement (or compound header) that contains `node`, descending into loops/ifs/try:
    names written anywhere inside an enclosing compound statement are opaque at its entry and re-defined by the statements that
    precede `node` inside it."""
    env = dict(env or {})
    for s in body:
        if _contains(s, node):
            subs = []
            for field in ("body", "orelse", "finalbody"):
                sub = getattr(s, field, None)
                if isinstance(sub, list) and sub and isinstance(sub[0], ast.stmt):
                    subs.append(sub)
            if isinstance(s, ast.Try):
                for h in s.handlers:
                    subs.append(h.body)
            for sub in subs:
                if any(_contains(x, node) for x in sub):
                    if isinstance(s, (ast.For, ast.While)):
                        for n in stored_names(s):
                            env.pop(n, None)
                    return env_at(sub, node, env, keep)
            return env  # node is in the header / the simple statement itself
        env = seq_env([s], env=env, keep=keep)
    return env


PROG = None  # set by check.py: enables helper inlining in expr_at


def _simple_body(fnode):
    """statements of a helper that can be inlined: straight-line assignments followed by one return (docstring allowed)"""
    body = list(fnode.body)
    if body and isinstance(body[0], ast.Expr) and isinstance(body[0].value, ast.Constant) and isinstance(body[0].value.value, str):
        body = body[1:]
    if not body or not isinstance(body[-1], ast.Return) or body[-1].value is None:
        return None
    keep = []
    for s in body[:-1]:
        # a guard that only raises, and log calls, do not contribute to the returned value
        if isinstance(s, ast.If) and not s.orelse and all(isinstance(x, ast.Raise) for x in s.body):
            continue
        if isinstance(s, ast.Expr) and isinstance(s.value, ast.Call) and isinstance(s.value.func, ast.Attribute) and isinstance(s.value.func.value, ast.Name) \
                and s.value.func.value.id in ("logger", "logging", "warnings"):
            continue
        if isinstance(s, ast.Expr) and _dict_update(s) is not None:
            keep.append(s)
            continue
        if not isinstance(s, (ast.Assign, ast.AnnAssign)):
            return None
        keep.append(s)
    if fnode.args.vararg or fnode.args.kwarg:
        return None
    return keep + [body[-1]]


def _dict_update(s):
    """(name, [(key, value)]) for a statement `name.update(k=v, ...)` / `name.update({"k": v})` / `name["k"] = v`, else None"""
    if isinstance(s, ast.Expr) and isinstance(s.value, ast.Call) and isinstance(s.value.func, ast.Attribute) and s.value.func.attr == "update" \
            and isinstance(s.value.func.value, ast.Name):
        c = s.value
        items = []
        if len(c.args) == 1 and isinstance(c.args[0], ast.Dict) and all(isinstance(k, ast.Constant) for k in c.args[0].keys):
            items += [(k.value, v) for k, v in zip(c.args[0].keys, c.args[0].values)]
        elif len(c.args) == 1 and isinstance(c.args[0], ast.DictComp) and dictcomp_items(c.args[0]) is not None:
            items += dictcomp_items(c.args[0])
        elif c.args:
            return None
        if any(k.arg is None for k in c.keywords):
            return None
        items += [(k.arg, k.value) for k in c.keywords]
        return c.func.value.id, items
    return None


def _as_dict_literal(e):
    """Dict literal with constant keys for {..} / dict(k=v, ..), else None"""
    if isinstance(e, ast.Dict) and all(isinstance(k, ast.Constant) for k in e.keys):
        return e
    if isinstance(e, ast.Call) and isinstance(e.func, ast.Name) and e.func.id == "dict" and not e.args and all(k.arg for k in e.keywords):
        return ast.Dict(keys=[ast.Constant(value=k.arg) for k in e.keywords], values=[k.value for k in e.keywords])
    return None


class _Inline(ast.NodeTransformer):
    def __init__(self, prog, fi, depth):
        self.prog, self.fi, self.depth = prog, fi, depth

    def visit_Call(self, node):
        self.generic_visit(node)
        if self.depth <= 0:
            return node
        try:
            r = self.prog.resolve_call(self.fi, node)
        except Exception:
            return node
        if not isinstance(r, FuncInfo) or r.node is getattr(self.fi, "node", None):
            return node
        if r.node.decorator_list and not getattr(r, "is_static", False):
            return node
        bound = False
        receiver = None
        if r.cls is not None and not getattr(r, "is_static", False):
            # an instance method called on `self` from a method of the same object: `self` means the same thing in both bodies;
            # called on a parameter annotated with the class (module-level helper taking the object): `self` becomes that parameter
            if getattr(r, "is_classmethod", False) or getattr(r, "is_property", False) or not (isinstance(node.func, ast.Attribute) and isinstance(node.func.value, ast.Name)):
                return node
            if node.func.value.id == "self" and getattr(self.fi, "cls", None) is not None:
                pass
            elif self.prog.param_class(self.fi, node.func.value.id) is not None:
                receiver = node.func.value.id
            else:
                return node
            bound = True
        m, errs = bind_args(r.node, node, bound=bound)
        if errs:
            return node
        body = _simple_body(r.node)
        if body is None:
            # branches on a flag that this call passes as a constant: decide them, then the body may be straight-line
            consts = {p_: a_.value for p_, a_ in m.items() if isinstance(a_, ast.Constant) and not any(
                isinstance(n_, ast.Name) and n_.id == p_ and isinstance(n_.ctx, ast.Store) for n_ in ast.walk(r.node))}
            if consts:
                pruned = prune(r.node.body, consts)
                fake = ast.FunctionDef(name=r.node.name, args=r.node.args, body=pruned or [ast.Pass()], decorator_list=[], returns=None)
                body = _simple_body(fake)
        if body is None:
            return node
        pos, kwo, _, _ = params_of(r.node)
        env = {}
        a = r.node.args
        defaults = dict(zip(pos[len(pos) - len(a.defaults):], a.defaults))
        defaults.update({k.arg: d for k, d in zip(a.kwonlyargs, a.kw_defaults) if d is not None})
        for prm in (pos[1:] if bound else pos) + kwo:
            if prm in m:
                env[prm] = m[prm]
            elif prm in defaults:
                env[prm] = defaults[prm]
            else:
                return node
        env = seq_env(body[:-1], env=env)
        ret = _SubstEnv(env).visit(copy.deepcopy(body[-1].value))
        ret = _Inline(self.prog, r, self.depth - 1).visit(ret)
        if receiver is not None:
            ret = _SubstEnv({"self": ast.Name(id=receiver, ctx=ast.Load())}).visit(ret)
        return ast.copy_location(ret, node)


def inline_calls(prog, fi, e, depth=2):
    """replace calls of small package helpers (straight-line body + one return) by their returned expression"""
    return _Inline(prog, fi, depth).visit(e)


class _Fold(ast.NodeTransformer):
    """(a, b)[0] -> a ; [a, b][1] -> b ; X[..., slice(a, b)] -> X[..., a:b] ; slice(a, b).start -> a"""

    def visit_Attribute(self, node):
        self.generic_visit(node)
        v = node.value
        if node.attr in ("start", "stop") and isinstance(v, ast.Call) and isinstance(v.func, ast.Name) and v.func.id == "slice" and 2 <= len(v.args) <= 3:
            return v.args[0] if node.attr == "start" else v.args[1]
        return node

    def visit_Call(self, node):
        self.generic_visit(node)
        f = node.func
        # np.asarray(x) / np.asanyarray(x) without dtype: the same values
        if isinstance(f, ast.Attribute) and f.attr in ("asarray", "asanyarray") and isinstance(f.value, ast.Name) and f.value.id in ("np", "numpy") \
                and len(node.args) == 1 and not node.keywords:
            return node.args[0]
        # bool(<comparison / and / or / not>): the test itself
        if isinstance(f, ast.Name) and f.id == "bool" and len(node.args) == 1 and not node.keywords and isinstance(node.args[0], (ast.Compare, ast.BoolOp)) :
            return node.args[0]
        # getattr(obj, "name") -> obj.name
        if isinstance(f, ast.Name) and f.id == "getattr" and len(node.args) == 2 and not node.keywords and isinstance(node.args[1], ast.Constant) \
                and isinstance(node.args[1].value, str) and node.args[1].value.isidentifier():
            return ast.copy_location(ast.Attribute(value=node.args[0], attr=node.args[1].value, ctx=ast.Load()), node)
        # (lambda a, b: body)(x, y) -> body with a := x, b := y   (positional, no defaults / stars)
        if isinstance(f, ast.Lambda) and not node.keywords and not any(isinstance(a, ast.Starred) for a in node.args):
            la = f.args
            if not (la.vararg or la.kwarg or la.kwonlyargs or la.defaults or la.posonlyargs) and len(la.args) == len(node.args):
                env = {a.arg: v for a, v in zip(la.args, node.args)}
                body = copy.deepcopy(f.body)
                return ast.copy_location(_Fold().visit(_SubstEnv(env).visit(body) if env else body), node)
        return node

    def visit_Subscript(self, node):
        self.generic_visit(node)

        def as_slice(e):
            if isinstance(e, ast.Call) and isinstance(e.func, ast.Name) and e.func.id == "slice" and 1 <= len(e.args) <= 3 and not e.keywords:
                a = list(e.args)
                if len(a) == 1:
                    return ast.Slice(lower=None, upper=a[0], step=None)
                return ast.Slice(lower=a[0], upper=a[1], step=a[2] if len(a) == 3 else None)
            return e
        if isinstance(node.slice, ast.Tuple):
            node.slice.elts = [as_slice(x) for x in node.slice.elts]
        else:
            node.slice = as_slice(node.slice)
        # {"a": x, "b": y}["a"] -> x
        if isinstance(node.value, ast.Dict) and isinstance(node.slice, ast.Constant) and all(isinstance(k, ast.Constant) for k in node.value.keys):
            for k, v in zip(node.value.keys, node.value.values):
                if k.value == node.slice.value:
                    return v
        if isinstance(node.value, (ast.Tuple, ast.List)) and isinstance(node.slice, ast.Constant) and isinstance(node.slice.value, int) \
                and -len(node.value.elts) <= node.slice.value < len(node.value.elts) and not any(isinstance(e, ast.Starred) for e in node.value.elts):
            return node.value.elts[node.slice.value]
        # X[:n][k] -> X[k]  and  X[m:][k] -> X[m + k]   (literal bounds, 0 <= k < n: the first items of a sequence)
        if isinstance(node.value, ast.Subscript) and isinstance(node.value.slice, ast.Slice) and isinstance(node.slice, ast.Constant) \
                and isinstance(node.slice.value, int) and node.slice.value >= 0 and node.value.slice.step is None:
            lo, up = node.value.slice.lower, node.value.slice.upper
            lo_v = 0 if lo is None else (lo.value if isinstance(lo, ast.Constant) and isinstance(lo.value, int) and lo.value >= 0 else None)
            up_ok = up is None or (isinstance(up, ast.Constant) and isinstance(up.value, int) and lo_v is not None and node.slice.value < up.value - lo_v)
            if lo_v is not None and up_ok:
                return ast.Subscript(value=node.value.value, slice=ast.Constant(value=lo_v + node.slice.value), ctx=node.ctx)
        # X[a, b, :][s] -> X[a, b, s]   (exactly one full slice, all other indices scalars)
        if isinstance(node.value, ast.Subscript) and not isinstance(node.slice, ast.Tuple):
            inner = index_elts(node.value)
            full = [i for i, x in enumerate(inner) if is_full_slice(x)]
            scal = [x for x in inner if not isinstance(x, ast.Slice)]
            if len(full) == 1 and len(scal) == len(inner) - 1 and all(isinstance(x, (ast.Constant, ast.Name)) and not (isinstance(x, ast.Constant) and x.value in (None, Ellipsis)) for x in scal) \
                    and (len(inner) > 1):
                new_elts = list(inner)
                new_elts[full[0]] = node.slice
                return ast.Subscript(value=node.value.value, slice=ast.Tuple(elts=new_elts, ctx=ast.Load()), ctx=node.ctx)
        # (e(x) for x in [a, b, c])[k] -> e(k-th element)   (tuple-unpacking of a generator / comprehension over a literal list)
        v = node.value
        if isinstance(v, (ast.ListComp, ast.GeneratorExp)) and len(v.generators) == 1 and not v.generators[0].ifs and isinstance(v.generators[0].target, ast.Name) \
                and isinstance(v.generators[0].iter, (ast.List, ast.Tuple)) and isinstance(node.slice, ast.Constant) and isinstance(node.slice.value, int) \
                and 0 <= node.slice.value < len(v.generators[0].iter.elts):
            g = v.generators[0]
            return _SubstEnv({g.target.id: g.iter.elts[node.slice.value]}).visit(copy.deepcopy(v.elt))
        # [e(j) for j in range(n)][k] -> e(k)   /  range(a, b): e(a + k)
        if isinstance(v, ast.ListComp) and len(v.generators) == 1 and not v.generators[0].ifs and isinstance(v.generators[0].target, ast.Name) \
                and not isinstance(node.slice, (ast.Slice, ast.Tuple)) and not (isinstance(node.slice, ast.Constant) and isinstance(node.slice.value, int) and node.slice.value < 0):
            g = v.generators[0]
            it = g.iter
            if isinstance(it, ast.Call) and isinstance(it.func, ast.Name) and it.func.id == "range" and 1 <= len(it.args) <= 2 and not it.keywords:
                k = node.slice
                if len(it.args) == 2 and not (isinstance(it.args[0], ast.Constant) and it.args[0].value == 0):
                    k = ast.BinOp(left=copy.deepcopy(it.args[0]), op=ast.Add(), right=k)
                return _SubstEnv({g.target.id: k}).visit(copy.deepcopy(v.elt))
        return node


def fold(e):
    return _Fold().visit(e)


_ENV_CACHE = {}


def expr_at(fi, node, expr, keep=()):
    """`expr` evaluated symbolically at the program point of `node` inside fi; names in `keep` stay symbolic"""
    key = (id(fi.node), id(node), tuple(keep))
    hit = _ENV_CACHE.get(key)
    if hit is None or hit[0] is not fi.node or hit[1] is not node:
        hit = (fi.node, node, env_at(fi.node.body, node, keep=keep))      # the nodes are kept alive so that ids cannot be reused
        if len(_ENV_CACHE) > 4000:
            _ENV_CACHE.clear()
        _ENV_CACHE[key] = hit
    env = hit[2]
    out = fold(_SubstEnv(env).visit(copy.deepcopy(expr)))
    if PROG is not None:
        out = fold(inline_calls(PROG, fi, out))
    return out


# ----------------------------------------------------------------------------- table access paths
SHAPE_ONLY = {"reshape", "flatten", "ravel", "squeeze", "copy", "astype"}


class Access:
    """element(s) of a table parameter: table name, column (order) expression, row (pole) expression (None = all rows)"""

    def __init__(self, table, col, row, extra=None):
        self.table, self.col, self.row = table, col, row

    def key(self):
        return (self.table, dump(self.col) if self.col is not None else None, dump(self.row) if self.row is not None else None)

    def __repr__(self):
        return f"{self.table}[row={src(self.row) if self.row is not None else ':'}, col={src(self.col) if self.col is not None else ':'}]"


def access_path(e, tables):
    """decompose X[:, C].reshape(..)[R] / X[:, C][R, :] / X[R, C] / X[R, C, :] into Access; None if e is not such a path"""
    chain = []
    cur = e
    while True:
        if isinstance(cur, ast.Call) and isinstance(cur.func, ast.Attribute) and cur.func.attr in SHAPE_ONLY:
            cur = cur.func.value
        elif isinstance(cur, ast.Subscript):
            chain.append(index_elts(cur))
            cur = cur.value
        else:
            break
    if isinstance(cur, ast.Name) and cur.id in tables:
        tname = cur.id
    elif isinstance(cur, ast.Attribute) and src(cur) in tables:
        tname = src(cur)
    else:
        return None
    chain.reverse()
    col = row = None
    state = "table"  # table -> (rows x cols [x comps]) ; column -> rows [x comps]
    for idx in chain:
        idx = [i for i in idx]
        if state == "table":
            if len(idx) >= 2:
                r, c = idx[0], idx[1]
                if not is_full_slice(c):
                    col = c
                if not is_full_slice(r):
                    row = r
                state = "done" if (col is not None and row is not None) else ("column" if col is not None else "table-rowsel")
            elif len(idx) == 1:
                if not is_full_slice(idx[0]):
                    row = idx[0]
                state = "table-rowsel"
        elif state == "column":
            r = idx[0]
            if not is_full_slice(r):
                row = r
                state = "done"
        elif state == "table-rowsel":
            # X[r] then [c]
            c = idx[0]
            if not is_full_slice(c):
                col = c
                state = "done"
        else:
            # further indexing of a selected element (component selection): ignore slices, refuse others
            if not all(is_full_slice(i) for i in idx):
                return None
    return Access(tname, col, row)


def prune(body, consts, subst=False):
    """copy of `body` in which every `if` decidable under `consts` is replaced by the taken branch, recursively inside loops,
    try and with blocks (compound nodes are shallow-copied, simple statements are shared with the original tree).
    subst: names known to hold a literal at a statement are written as that literal there."""
    global _PRUNE_SUBST
    old = _PRUNE_SUBST
    _PRUNE_SUBST = subst
    try:
        return _prune(body, consts)[0]
    finally:
        _PRUNE_SUBST = old


_PRUNE_SUBST = False


def _assigned_names(stmts):
    out = set()
    for s in stmts:
        for n in ast.walk(s):
            if isinstance(n, ast.Name) and isinstance(n.ctx, (ast.Store, ast.Del)):
                out.add(n.id)
    return out


def _prune(body, consts):
    """-> (pruned statements, constants known after them)"""
    out = []
    consts = dict(consts)

    def ends(ss):
        if not ss:
            return False
        z = ss[-1]
        if isinstance(z, (ast.Return, ast.Raise, ast.Continue, ast.Break)):
            return True
        return isinstance(z, ast.If) and bool(z.orelse) and ends(z.body) and ends(z.orelse)
    for s in body:
        if ends(out):
            break           # code after a decided early exit is unreachable under these constants
        if isinstance(s, ast.Assign) and len(s.targets) == 1 and isinstance(s.targets[0], ast.Name):
            nm = s.targets[0].id
            if isinstance(s.value, (ast.Compare, ast.BoolOp, ast.UnaryOp, ast.Name, ast.Attribute)):
                v = const_test(s.value, consts)
                if v is not _UNDEC and (isinstance(v, (bool, str, OneOf)) or v is None):
                    consts[nm] = v      # a flag derived from the seeded constants / a local name for a seeded attribute
                else:
                    consts.pop(nm, None)
            elif isinstance(s.value, ast.Constant) and (s.value.value is None or isinstance(s.value.value, (str, bool))) and nm not in ("self",):
                consts[nm] = s.value.value          # a label / flag set to a literal
            else:
                consts.pop(nm, None)
        elif isinstance(s, (ast.Assign, ast.AugAssign, ast.AnnAssign, ast.For, ast.With)) or isinstance(s, ast.Delete):
            tg = []
            if isinstance(s, ast.Assign):
                tg = s.targets
            elif isinstance(s, (ast.AugAssign, ast.AnnAssign)):
                tg = [s.target]
            elif isinstance(s, ast.For):
                tg = [s.target]
            for t in tg:
                for n in ast.walk(t):
                    if isinstance(n, ast.Name) and isinstance(n.ctx, (ast.Store, ast.Del)):
                        consts.pop(n.id, None)
        if isinstance(s, ast.If):
            t = const_test(s.test, consts)
            if t is not _UNDEC:
                sub, consts = _prune(s.body if t else s.orelse, consts)
                out.extend(sub)
                continue
            n = copy.copy(s)
            b1, c1 = _prune(s.body, consts)
            b2, c2 = _prune(s.orelse, consts)
            n.body = b1 or [ast.Pass()]
            n.orelse = b2
            out.append(n)
            # what both continuing branches agree on
            live = [c for b_, c in ((b1, c1), (b2, c2)) if not ends(b_)]
            if not live:
                live = [c1, c2]
            merged = {}
            for k in set().union(*[set(c) for c in live]):
                vals = [c.get(k, _UNDEC) for c in live]
                if all(v is not _UNDEC and v == vals[0] and type(v) is type(vals[0]) for v in vals):
                    merged[k] = vals[0]
                elif all(v is not _UNDEC for v in vals) and all(isinstance(v, OneOf) or v is None or isinstance(v, (str, bool)) for v in vals):
                    flat = []
                    for v in vals:
                        for x in (v.vals if isinstance(v, OneOf) else (v,)):
                            if not any(repr(x) == repr(y) for y in flat):
                                flat.append(x)
                    if len(flat) <= 4:
                        merged[k] = OneOf(flat) if len(flat) > 1 else flat[0]
            consts = merged
        elif isinstance(s, (ast.For, ast.While, ast.With)):
            n = copy.copy(s)
            inner = {k: v for k, v in consts.items() if k not in _assigned_names(s.body + getattr(s, "orelse", []))} if not isinstance(s, ast.With) else consts
            n.body = _prune(s.body, inner)[0] or [ast.Pass()]
            if hasattr(s, "orelse"):
                n.orelse = _prune(s.orelse, inner)[0]
            out.append(n)
            consts = {k: v for k, v in consts.items() if k not in _assigned_names(s.body + getattr(s, "orelse", []))}
        elif isinstance(s, ast.Try):
            n = copy.copy(s)
            inner = {k: v for k, v in consts.items() if k not in _assigned_names(s.body + s.orelse + s.finalbody + [y for h in s.handlers for y in h.body])}
            n.body = _prune(s.body, inner)[0] or [ast.Pass()]
            n.orelse = _prune(s.orelse, inner)[0]
            n.finalbody = _prune(s.finalbody, inner)[0]
            hs = []
            for h in s.handlers:
                hh = copy.copy(h)
                hh.body = _prune(h.body, inner)[0] or [ast.Pass()]
                hs.append(hh)
            n.handlers = hs
            out.append(n)
            consts = inner
        else:
            out.append(_prune_ifexp(s, consts))
    return out, consts


def _prune_ifexp(s, consts):
    """a simple statement whose conditional expressions are decidable under the constants: a copy with the taken operands"""
    if _PRUNE_SUBST:
        env_ = {k: ast.Constant(value=v) for k, v in consts.items() if "." not in k and (v is None or isinstance(v, (str, bool)))}
        tg = {n.id for n in ast.walk(s) if isinstance(n, ast.Name) and isinstance(n.ctx, (ast.Store, ast.Del))}
        env_ = {k: v for k, v in env_.items() if k not in tg}
        if env_ and any(isinstance(n, ast.Name) and n.id in env_ and isinstance(n.ctx, ast.Load) for n in ast.walk(s)):
            s = _SubstEnv(env_).visit(copy.deepcopy(s))
        # attribute chains holding a literal label (`self.plot`): written as the literal where they are read
        aenv = {k: v for k, v in consts.items() if "." in k and (v is None or isinstance(v, (str, bool)))}
        if aenv and any(isinstance(n, ast.Attribute) and isinstance(n.ctx, ast.Load) and src(n) in aenv for n in ast.walk(s)) \
                and not any(isinstance(n, ast.Attribute) and isinstance(n.ctx, (ast.Store, ast.Del)) and src(n) in aenv for n in ast.walk(s)):
            class A(ast.NodeTransformer):
                def visit_Attribute(self, n):
                    if isinstance(n.ctx, ast.Load) and src(n) in aenv:
                        return ast.copy_location(ast.Constant(value=aenv[src(n)]), n)
                    return self.generic_visit(n)
            s = ast.fix_missing_locations(A().visit(copy.deepcopy(s)))
    if not any(isinstance(n, ast.IfExp) and const_test(n.test, consts) is not _UNDEC for n in ast.walk(s)):
        return s

    class T(ast.NodeTransformer):
        def visit_IfExp(self, n):
            t = const_test(n.test, consts)
            if t is _UNDEC:
                return self.generic_visit(n)
            return self.visit(n.body if t else n.orelse)
    return ast.fix_missing_locations(T().visit(copy.deepcopy(s)))


def dominating_attr_store(fi, at, text):
    """the value most recently stored into the attribute written `text` (`self.x_click`) on EVERY path that reaches node `at` inside
    fi: ("value", expr) / ("maybe", None) when a store sits in a branch or loop before `at` / ("none", None) when fi stores nothing
    into it before `at`"""
    pm = parent_map(fi.node)
    cur = at
    while cur is not None and not isinstance(cur, ast.stmt):
        cur = pm.get(cur)
    maybe = False
    while cur is not None and cur is not fi.node:
        par = pm.get(cur)
        for field in ("body", "orelse", "finalbody"):
            blk = getattr(par, field, None) if par is not None else None
            if isinstance(blk, list) and any(x is cur for x in blk):
                i = next(k for k, x in enumerate(blk) if x is cur)
                for prev in reversed(blk[:i]):
                    if isinstance(prev, ast.Assign) and any(isinstance(t, ast.Attribute) and src(t) == text for t in prev.targets):
                        return ("maybe", None) if maybe else ("value", expr_at(fi, prev, prev.value))
                    if any(isinstance(x, ast.Attribute) and isinstance(x.ctx, (ast.Store, ast.Del)) and src(x) == text for x in ast.walk(prev)):
                        maybe = True
                    if any(isinstance(x, ast.Call) and isinstance(x.func, ast.Attribute) and isinstance(x.func.value, ast.Name) and x.func.value.id == "self" for x in ast.walk(prev)):
                        pass        # calls on self may store as well: not followed here (the caller inlines what it can first)
        if isinstance(par, (ast.For, ast.While)):
            maybe = maybe or any(isinstance(x, ast.Attribute) and isinstance(x.ctx, (ast.Store, ast.Del)) and src(x) == text for x in ast.walk(par))
        cur = par
    return ("maybe", None) if maybe else ("none", None)


def attr_stores(fnode, text):
    """[(statement, value)] for every plain store into the attribute written `text` (`self.datasets`), tuple assignments included"""
    out = []
    for st in ast.walk(fnode):
        if not isinstance(st, ast.Assign):
            continue
        for t in st.targets:
            if isinstance(t, ast.Attribute) and src(t) == text:
                out.append((st, st.value))
            elif isinstance(t, (ast.Tuple, ast.List)) and isinstance(st.value, (ast.Tuple, ast.List)) and len(t.elts) == len(st.value.elts):
                for tt, vv in zip(t.elts, st.value.elts):
                    if isinstance(tt, ast.Attribute) and src(tt) == text:
                        out.append((st, vv))
    return out


def alias_root(fnode, name, limit=12):
    """the variable `name` is a plain copy of: follows `name = other` while `name` is bound exactly once in the function"""
    seen = set()
    while name not in seen and limit > 0:
        seen.add(name)
        limit -= 1
        binds = [n for n in ast.walk(fnode) if isinstance(n, ast.Name) and n.id == name and isinstance(n.ctx, (ast.Store, ast.Del))]
        if len(binds) != 1:
            return name
        owner = next((a for a in ast.walk(fnode) if isinstance(a, ast.Assign) and len(a.targets) == 1 and a.targets[0] is binds[0]), None)
        if owner is None or not isinstance(owner.value, ast.Name):
            return name
        name = owner.value.id
    return name


class PrunedFn:
    """a function specialised to constant seeds (decidable branches removed everywhere); usable where a FuncInfo is expected"""

    def __init__(self, fi, consts, subst=False):
        self.fi = fi
        self.mod, self.cls, self.qual = fi.mod, fi.cls, fi.qual
        self.is_property = self.is_static = self.is_classmethod = False
        # subst: names holding a literal label / flag at a statement are written as that literal there, so that helpers they are handed to
        # can be specialised too
        body = prune(fi.node.body, consts, subst=subst)
        node = ast.FunctionDef(name=fi.node.name, args=fi.node.args, body=body or [ast.Pass()], decorator_list=[], returns=None)
        ast.copy_location(node, fi.node)
        if PROG is not None and getattr(PROG, "desugarer", None) is not None:
            # option dicts / name tuples that differed between the decided branches are literal now
            from . import desugar as _ds
            cls_node = getattr(getattr(fi, "cls", None), "node", None)
            node = _ds.respecialise(PROG.desugarer, fi.mod, node, cls_node)
        self.node = node


def _self_chain(e):
    while isinstance(e, ast.Attribute):
        e = e.value
    return isinstance(e, ast.Name) and e.id == "self"


class SpecialisedFn:
    """a method specialised to ONE call site `self.m(...)` inside another method of the same object (constant propagation over the
    call edge): every parameter that the callee never re-binds and that receives, at this call, a constant, a `self.<attr>` chain, a
    bound method of self or a lambda over such values is replaced by that argument in a copy of the body; `getattr(self, "x")` and
    calls of the substituted lambdas are folded.  Usable where a FuncInfo is expected."""

    def __init__(self, callee, caller, call, extra_consts=None):
        self.fi = getattr(callee, "fi", callee)
        self.mod, self.cls, self.qual = callee.mod, callee.cls, callee.qual
        self.is_property = self.is_static = self.is_classmethod = False
        self.caller, self.call = caller, call
        m, errs = bind_args(callee.node, call, bound=True)
        self.errors = errs
        a = callee.node.args
        pos, kwo, _, _ = params_of(callee.node)
        defaults = dict(zip(pos[len(pos) - len(a.defaults):], a.defaults))
        defaults.update({k.arg: d for k, d in zip(a.kwonlyargs, a.kw_defaults) if d is not None})
        rebound = set()
        for st in callee.node.body:
            rebound |= stored_names(st)
        cparams = set(params_of(caller.node)[0] + params_of(caller.node)[1]) - {"self"}
        clocals = set()
        for st in callee.node.body:
            clocals |= {n.id for n in ast.walk(st) if isinstance(n, ast.Name)}
        sub = {}
        self.bound_params = {}
        for prm in pos[1:] + kwo:
            if prm in rebound:
                continue
            v = None
            if prm in m and isinstance(m[prm], ast.AST):
                v = expr_at(caller, call, m[prm])
            elif prm not in m and prm in defaults and isinstance(defaults[prm], ast.Constant):
                v = defaults[prm]
            if v is None:
                continue
            free = {n.id for n in ast.walk(v) if isinstance(n, ast.Name)} - {"self", "np", "True", "False", "None"}
            if isinstance(v, ast.Lambda):
                free -= {x.arg for x in v.args.args}
            # names of the caller's scope may travel only when they cannot be captured by a name of the callee
            if free - cparams or (free & clocals):
                continue
            ok = isinstance(v, ast.Constant) or (isinstance(v, ast.Attribute) and _self_chain(v)) or isinstance(v, ast.Lambda) \
                or (isinstance(v, ast.Name) and v.id in cparams)
            if ok:
                sub[prm] = v
                self.bound_params[prm] = v
        body = [fold(_SubstEnv(sub).visit(copy.deepcopy(st))) for st in callee.node.body]
        node = ast.FunctionDef(name=callee.node.name, args=callee.node.args, body=body or [ast.Pass()], decorator_list=[], returns=None)
        ast.copy_location(node, callee.node)
        ast.fix_missing_locations(node)
        self.node = node


def reaching_values(fi, node, name):
    """every value the local `name` may hold at `node`: the right-hand sides of all its plain assignments that precede `node` in the
    function text, each expanded at its own program point; None when the name is also bound in another way (parameter, loop target,
    augmented assignment, unpacking) - then the set of values is not known"""
    order = [n for s_ in fi.node.body for n in ast.walk(s_)]
    here = getattr(node, "lineno", None)
    if here is None or not any(n is node for n in order):
        return None
    if name in params_of(fi.node)[0] + params_of(fi.node)[1]:
        return None
    owners = {id(a_.targets[0]): a_ for a_ in order if isinstance(a_, ast.Assign) and len(a_.targets) == 1 and isinstance(a_.targets[0], ast.Name)}
    in_loop = any(isinstance(l_, (ast.For, ast.While)) and any(x is node for x in ast.walk(l_)) for l_ in order)
    vals = []
    for n in order:
        if isinstance(n, ast.Name) and n.id == name and isinstance(n.ctx, (ast.Store, ast.Del)):
            owner = owners.get(id(n))
            if owner is None:
                return None
            if owner.lineno < here or in_loop:
                vals.append(expr_at(fi, owner, owner.value))
    return vals


def parent_map(root):
    pm = {}
    for n in ast.walk(root):
        for c in ast.iter_child_nodes(n):
            pm[c] = n
    return pm


def enclosing(pm, node, types):
    n = pm.get(node)
    while n is not None:
        if isinstance(n, types):
            return n
        n = pm.get(n)
    return None


def branch_of(pm, node, ifnode):
    """'body' / 'orelse' / None: in which branch of `ifnode` does `node` sit"""
    for field in ("body", "orelse"):
        for s in getattr(ifnode, field):
            if any(x is node for x in ast.walk(s)):
                return field
    return None


# ----------------------------------------------------------------------------- matrix product normal form
def matnf(prog, fi, e):
    """normal form of a matrix expression built from dot/@, inv/pinv, solve and .T: list of (atom expr, inverted, transposed).
    (AB)^-1 = B^-1 A^-1, (AB)^T = B^T A^T, solve(A, B) = A^-1 B.  Returns None if e contains another matrix operation."""
    if isinstance(e, ast.BinOp) and isinstance(e.op, ast.MatMult):
        a, b = matnf(prog, fi, e.left), matnf(prog, fi, e.right)
        return None if a is None or b is None else a + b
    if isinstance(e, ast.Attribute) and e.attr == "T":
        a = matnf(prog, fi, e.value)
        return None if a is None else [(x, i, not t) for x, i, t in reversed(a)]
    if isinstance(e, ast.Call):
        nm = callee_name(prog, fi, e)
        if nm in ("numpy.dot", "numpy.matmul") and len(e.args) == 2:
            a, b = matnf(prog, fi, e.args[0]), matnf(prog, fi, e.args[1])
            return None if a is None or b is None else a + b
        if nm in ("numpy.linalg.inv", "numpy.linalg.pinv", "scipy.linalg.inv", "scipy.linalg.pinv") and e.args:
            a = matnf(prog, fi, e.args[0])
            return None if a is None else [(x, not i, t) for x, i, t in reversed(a)]
        if nm in ("numpy.linalg.solve", "scipy.linalg.solve") and len(e.args) == 2:
            a, b = matnf(prog, fi, e.args[0]), matnf(prog, fi, e.args[1])
            return None if a is None or b is None else [(x, not i, t) for x, i, t in reversed(a)] + b
        if nm in ("numpy.transpose",) and len(e.args) == 1:
            a = matnf(prog, fi, e.args[0])
            return None if a is None else [(x, i, not t) for x, i, t in reversed(a)]
        if nm in (".dot",) and len(e.args) == 1 and isinstance(e.func, ast.Attribute):
            a, b = matnf(prog, fi, e.func.value), matnf(prog, fi, e.args[0])
            return None if a is None or b is None else a + b
    return [(e, False, False)]


INV_FUNCS = ("numpy.linalg.inv", "numpy.linalg.pinv", "scipy.linalg.inv", "scipy.linalg.pinv")


def sliced_inverse_sites(prog, fi):
    """[(subscript node, inverse call)] where a proper slice is taken OF an inverse (directly or through a variable):
    a block of inv(A) is not the inverse of the block of A"""
    out = []
    for sub in ast.walk(fi.node):
        if isinstance(sub, ast.Subscript) and any(isinstance(x, ast.Slice) and not is_full_slice(x) for x in index_elts(sub)):
            x = expr_at(fi, sub, sub.value)
            if isinstance(x, ast.Call) and callee_name(prog, fi, x) in INV_FUNCS:
                out.append((sub, x))
    return out


CALLEE_DEFAULT = "__callee_default__"      # stands for "the keyword is left out: the callee's own default applies"


def dictcomp_items(x, prog=None, fi=None):
    """{k: v for k, v in {..literal..}.items() [if v] [if v is not None]}  (or over a literal tuple of (key, value) pairs): the entries as
    [(key, value)], a filtered value written `value if <test> else __callee_default__`; None when the comprehension is of another form"""
    if not (isinstance(x, ast.DictComp) and len(x.generators) == 1):
        return None
    g = x.generators[0]
    it = g.iter
    pairs = None
    if isinstance(it, ast.Call) and isinstance(it.func, ast.Attribute) and it.func.attr == "items" and isinstance(it.func.value, ast.Dict) \
            and all(isinstance(kk, ast.Constant) for kk in it.func.value.keys):
        pairs = list(zip(it.func.value.keys, it.func.value.values))
    elif isinstance(it, (ast.Tuple, ast.List)) and all(isinstance(e_, (ast.Tuple, ast.List)) and len(e_.elts) == 2 and isinstance(e_.elts[0], ast.Constant) for e_ in it.elts):
        pairs = [(e_.elts[0], e_.elts[1]) for e_ in it.elts]
    elif isinstance(it, ast.Call) and isinstance(it.func, ast.Attribute) and it.func.attr == "items" and not it.args and prog is not None:
        # the items of a dictionary that can itself be written out ({**TABLE, **kwargs}, a marked setdefault, ...)
        sub = dict_items_of(prog, fi, it.func.value)
        if sub is not None and not any(isinstance(v_, ast.IfExp) and isinstance(v_.orelse, ast.Name) and v_.orelse.id == CALLEE_DEFAULT and
                                       not (isinstance(v_.test, ast.Name) and v_.test.id.startswith("<")) for _, v_ in sub):
            pairs = [(ast.Constant(value=k_), v_) for k_, v_ in sub]
    if pairs is None or not (isinstance(g.target, ast.Tuple) and len(g.target.elts) == 2 and all(isinstance(t_, ast.Name) for t_ in g.target.elts)
                             and isinstance(x.key, ast.Name) and x.key.id == g.target.elts[0].id and isinstance(x.value, ast.Name) and x.value.id == g.target.elts[1].id):
        return None
    vname = g.target.elts[1].id
    kinds = []
    for c_ in g.ifs:
        if isinstance(c_, ast.Name) and c_.id == vname:
            kinds.append("truthy")
        elif isinstance(c_, ast.Compare) and isinstance(c_.left, ast.Name) and c_.left.id == vname and len(c_.ops) == 1 and isinstance(c_.ops[0], ast.IsNot) \
                and isinstance(c_.comparators[0], ast.Constant) and c_.comparators[0].value is None:
            kinds.append("notnone")
        else:
            return None
    items = []
    for kk, vv in pairs:
        # getattr(obj, "name", None): the attribute (None when the object does not have it)
        if isinstance(vv, ast.Call) and isinstance(vv.func, ast.Name) and vv.func.id == "getattr" and len(vv.args) == 3 and isinstance(vv.args[1], ast.Constant) \
                and isinstance(vv.args[2], ast.Constant) and vv.args[2].value is None:
            fields = None
            if prog is not None and fi is not None and getattr(fi, "cls", None) is not None and src(vv.args[0]) == "self.run_params":
                fields = prog.model_fields(fi.cls, "RunParamCls")
            if fields is not None and vv.args[1].value not in fields:
                vv = ast.Constant(value=None)        # the parameter model has no field of that name: the default of getattr
            else:
                vv = ast.Attribute(value=vv.args[0], attr=vv.args[1].value, ctx=ast.Load())
        if "truthy" in kinds:
            vv = ast.IfExp(test=copy.deepcopy(vv), body=vv, orelse=ast.Name(id=CALLEE_DEFAULT, ctx=ast.Load()))
        elif "notnone" in kinds:
            if isinstance(vv, ast.Constant) and vv.value is None:
                continue                              # always left out
            test = ast.Compare(left=copy.deepcopy(vv), ops=[ast.IsNot()], comparators=[ast.Constant(value=None)])
            vv = ast.IfExp(test=test, body=vv, orelse=ast.Name(id=CALLEE_DEFAULT, ctx=ast.Load()))
        items.append((kk.value, vv))
    return items


def _model_subset_items(prog, fi, x):
    """{n: D[n] for n in D if n in ("a", "b")} with D = dict(self.run_params) (or .model_dump() / vars(..)): the named fields of the
    parameter model, those that are not fields of it silently left out -> [(name, self.run_params.name)]"""
    if not (isinstance(x, ast.DictComp) and len(x.generators) == 1):
        return None
    g = x.generators[0]
    if not (isinstance(g.target, ast.Name) and isinstance(x.key, ast.Name) and x.key.id == g.target.id and len(g.ifs) == 1):
        return None
    n = g.target.id
    c = g.ifs[0]
    if not (isinstance(c, ast.Compare) and len(c.ops) == 1 and isinstance(c.ops[0], ast.In) and isinstance(c.left, ast.Name) and c.left.id == n
            and isinstance(c.comparators[0], (ast.Tuple, ast.List, ast.Set)) and all(isinstance(e_, ast.Constant) and isinstance(e_.value, str) for e_ in c.comparators[0].elts)):
        return None
    names = [e_.value for e_ in c.comparators[0].elts]

    def model_of(e):
        """the model object a `dict(X)` / `X.model_dump()` / `vars(X)` / `X.__dict__` is made of"""
        if isinstance(e, ast.Call) and isinstance(e.func, ast.Name) and e.func.id in ("dict", "vars") and len(e.args) == 1 and not e.keywords:
            return e.args[0]
        if isinstance(e, ast.Call) and isinstance(e.func, ast.Attribute) and e.func.attr in ("model_dump", "dict") and not e.args and not e.keywords:
            return e.func.value
        if isinstance(e, ast.Attribute) and e.attr == "__dict__":
            return e.value
        return None
    X = model_of(g.iter)
    if X is None or not (isinstance(X, ast.Attribute) and isinstance(X.value, ast.Name) and X.value.id == "self" and X.attr == "run_params"):
        return None
    v = x.value
    ok = (isinstance(v, ast.Subscript) and isinstance(v.slice, ast.Name) and v.slice.id == n and model_of(v.value) is not None and dump(model_of(v.value)) == dump(X)) or \
         (isinstance(v, ast.Call) and isinstance(v.func, ast.Name) and v.func.id == "getattr" and len(v.args) == 2 and dump(v.args[0]) == dump(X) and isinstance(v.args[1], ast.Name) and v.args[1].id == n)
    if not ok:
        return None
    fields = prog.model_fields(fi.cls, "RunParamCls") if getattr(fi, "cls", None) is not None else None
    if fields is None:
        return None
    return [(k, ast.Attribute(value=copy.deepcopy(X), attr=k, ctx=ast.Load())) for k in names if k in fields]


def _notnone_default(v, callee_node, name):
    """`x if x is not None else <callee default>` is `x` when the callee's own default for that parameter is None"""
    if isinstance(v, ast.IfExp) and isinstance(v.orelse, ast.Name) and v.orelse.id == CALLEE_DEFAULT and isinstance(v.test, ast.Compare) \
            and len(v.test.ops) == 1 and isinstance(v.test.ops[0], ast.IsNot) and dump(v.test.left) == dump(v.body):
        a_ = callee_node.args
        pos_ = [x.arg for x in a_.posonlyargs + a_.args]
        dmap = dict(zip(pos_[len(pos_) - len(a_.defaults):], a_.defaults))
        dmap.update({k.arg: d for k, d in zip(a_.kwonlyargs, a_.kw_defaults) if d is not None})
        d = dmap.get(name)
        if isinstance(d, ast.Constant) and d.value is None:
            return v.body
    return v


def dict_items_of(prog, fi, x):
    """[(key, value expression)] of a dictionary-valued expression as expanded at its use: a display with constant keys, dict(k=..),
    the recognised comprehension forms, each possibly wrapped in d.setdefault(k, v) markers; None when it cannot be written out"""
    items = None
    fills = []
    while isinstance(x, ast.Call) and isinstance(x.func, ast.Name) and x.func.id == SETDEFAULT and len(x.args) == 3:
        fills.insert(0, (x.args[1].value, x.args[2]))
        x = x.args[0]
    if isinstance(x, ast.Dict) and all(isinstance(kk, ast.Constant) for kk in x.keys):
        items = [(kk.value, v) for kk, v in zip(x.keys, x.values)]
    elif isinstance(x, ast.Dict) and all(kk is None or isinstance(kk, ast.Constant) for kk in x.keys):
        # {**a, "k": v, **b}: later entries win
        items = []
        for kk, v in zip(x.keys, x.values):
            sub = dict_items_of(prog, fi, v) if kk is None else [(kk.value, v)]
            if sub is None and kk is None:
                sub = _kwargs_param_items(prog, fi, v)
            if sub is None:
                items = None
                break
            for sk, sv in sub:
                prev = [b for a, b in items if a == sk]
                if prev and isinstance(sv, ast.IfExp) and isinstance(sv.orelse, ast.Name) and sv.orelse.id == CALLEE_DEFAULT:
                    sv = ast.IfExp(test=sv.test, body=sv.body, orelse=prev[-1])     # an entry that may be absent leaves the earlier one
                items = [(a, b) for a, b in items if a != sk] + [(sk, sv)]
    elif isinstance(x, ast.Call) and isinstance(x.func, ast.Name) and x.func.id == "dict" and not x.args and all(kw.arg for kw in x.keywords):
        items = [(kw.arg, kw.value) for kw in x.keywords]
    elif isinstance(x, ast.Call) and isinstance(x.func, ast.Attribute) and x.func.attr in ("model_dump", "dict") and not x.args:
        inc = kwarg(x, "include")
        if isinstance(inc, (ast.Set, ast.List, ast.Tuple)) and all(isinstance(e_, ast.Constant) and isinstance(e_.value, str) for e_ in inc.elts) \
                and all(k_.arg in ("include", "exclude_none") for k_ in x.keywords):
            # a pydantic model dumped field by field: {name: model.name}; with exclude_none the unset ones are left out
            xn = kwarg(x, "exclude_none")
            drop_none = isinstance(xn, ast.Constant) and xn.value is True
            items = []
            for e_ in sorted(inc.elts, key=lambda z: z.value):
                v_ = ast.Attribute(value=copy.deepcopy(x.func.value), attr=e_.value, ctx=ast.Load())
                if drop_none:
                    v_ = ast.IfExp(test=ast.Compare(left=copy.deepcopy(v_), ops=[ast.IsNot()], comparators=[ast.Constant(value=None)]), body=v_,
                                   orelse=ast.Name(id=CALLEE_DEFAULT, ctx=ast.Load()))
                items.append((e_.value, v_))
    if items is None and isinstance(x, ast.DictComp):
        items = dictcomp_items(x, prog, fi)
        if items is None:
            items = _model_subset_items(prog, fi, x)
    if items is not None and fills:
        # d.setdefault(k, v): k keeps its entry; an entry that may be left out (`x if <set> else <not passed>`) falls back on v
        for fk, fv in fills:
            cur = [i for i, (kk, _) in enumerate(items) if kk == fk]
            if not cur:
                items.append((fk, fv))
            else:
                i = cur[-1]
                vv = items[i][1]
                if isinstance(vv, ast.IfExp) and isinstance(vv.orelse, ast.Name) and vv.orelse.id == CALLEE_DEFAULT:
                    items[i] = (fk, ast.IfExp(test=vv.test, body=vv.body, orelse=fv))
    elif fills:
        items = None
    return items


def _kwargs_param_items(prog, fi, v):
    """`**over` where `over` is the **kwargs parameter of fi: the keywords the callers inside the package hand over (closed world: every
    call site writes its extra keywords out) - each as an entry that MAY be there"""
    kwp = getattr(fi.node.args.kwarg, "arg", None)
    if not (isinstance(v, ast.Name) and kwp is not None and v.id == kwp) or prog is None:
        return None
    if any(isinstance(n, ast.Name) and n.id == kwp and isinstance(n.ctx, (ast.Store, ast.Del)) for n in ast.walk(fi.node)):
        return None
    from .effects import _callers
    named = set(params_of(fi.node)[0] + params_of(fi.node)[1])
    keys = []
    sites = _callers(prog, getattr(fi, "fi", fi))
    if not sites:
        return None
    for g, c in sites:
        if any(k.arg is None for k in c.keywords):
            return None
        for k in c.keywords:
            if k.arg not in named and k.arg not in keys:
                keys.append(k.arg)
    return [(k, ast.IfExp(test=ast.Name(id=f"<{k} given by the caller>", ctx=ast.Load()), body=ast.Subscript(value=ast.Name(id=kwp, ctx=ast.Load()), slice=ast.Constant(value=k), ctx=ast.Load()),
                          orelse=ast.Name(id=CALLEE_DEFAULT, ctx=ast.Load()))) for k in keys]


def resolve_item(prog, fi, e):
    """D["k"] / D.pop("k") / D.get("k") with D a dictionary that can be written out (dict_items_of): the entry"""
    d = k = None
    if isinstance(e, ast.Subscript) and isinstance(e.slice, ast.Constant) and isinstance(e.slice.value, str):
        d, k = e.value, e.slice.value
    elif isinstance(e, ast.Call) and isinstance(e.func, ast.Attribute) and e.func.attr in ("pop", "get") and len(e.args) >= 1 and not e.keywords \
            and isinstance(e.args[0], ast.Constant) and isinstance(e.args[0].value, str):
        d, k = e.func.value, e.args[0].value
    if d is None:
        return e
    items = dict_items_of(prog, fi, d)
    if items is None:
        return e
    hit = [v for kk, v in items if kk == k]
    if not hit:
        return e.args[1] if isinstance(e, ast.Call) and len(e.args) > 1 else e
    v = hit[-1]
    if isinstance(v, ast.IfExp) and isinstance(v.orelse, ast.Name) and v.orelse.id == CALLEE_DEFAULT:
        return e            # the entry may be missing: the look-up itself could raise / give the default - left as it is
    return v


def bind_call(prog, fi, callee_node, call, bound=False):
    """bind_args, with `**name` resolved through the flow-sensitive environment when it is a dict literal / dict(...) call with
    constant keys.  Returns (mapping, errors, complete) - complete is False when some **kwargs could not be resolved."""
    m, errs = bind_args(callee_node, call, bound=bound)
    complete = True
    pos, kwonly, vararg, kwarg_ = params_of(callee_node)
    if any(isinstance(a, ast.Starred) for a in call.args):
        # f(a, *t, b): positions are known when every spread is a literal tuple / list at this point; otherwise nothing can be said
        # about the positional parameters ("not passed" would be a guess)
        flat = []
        for a in call.args:
            if isinstance(a, ast.Starred):
                x = expr_at(fi, call, a.value)
                if isinstance(x, (ast.Tuple, ast.List)) and not any(isinstance(e_, ast.Starred) for e_ in x.elts):
                    flat.extend(x.elts)
                else:
                    flat = None
                    break
            else:
                flat.append(a)
        if flat is None:
            complete = False
        else:
            ppos = pos[1:] if bound and pos else pos
            for i, a in enumerate(flat):
                if i < len(ppos) and ppos[i] not in m:
                    m[ppos[i]] = a
    for k in call.keywords:
        if k.arg is not None:
            continue
        x = expr_at(fi, call, k.value)
        items = dict_items_of(prog, fi, x)
        if items is None and isinstance(x, ast.Call) and isinstance(x.func, ast.Attribute) and x.func.attr in ("model_dump", "dict"):
            inc = kwarg(x, "include")
            if isinstance(inc, (ast.Set, ast.List, ast.Tuple)) and all(isinstance(e_, ast.Constant) and isinstance(e_.value, str) for e_ in inc.elts):
                # a pydantic model dumped field by field: {name: model.name}
                items = [(e_.value, ast.Attribute(value=copy.deepcopy(x.func.value), attr=e_.value, ctx=ast.Load())) for e_ in inc.elts]
        if items is None:
            complete = False
            continue
        for name, v in items:
            if name in m:
                errs.append(f"multiple values for '{name}'")
            elif name in pos or name in kwonly:
                m[name] = _notnone_default(v, callee_node, name)
            elif not kwarg_:
                errs.append(f"unexpected keyword '{name}'")
    if not complete:
        errs = [e for e in errs if not e.startswith("missing required")]
    else:
        # re-evaluate missing-required now that ** entries are known
        errs = [e for e in errs if not (e.startswith("missing required argument") and e.split("'")[1] in m)]
    return m, errs, complete


class Elem:
    """one way a list gets its elements: `at` = node for the program point, `elt` = element expression, `iter`/`target` of the loop or
    comprehension that produces them (None outside a loop)"""

    def __init__(self, at, elt, target, iter_, kind):
        self.at, self.elt, self.target, self.iter, self.kind = at, elt, target, iter_, kind


def list_elements(fi, name):
    """every producer of elements of the local list `name`: L.append(e) / L += [e] / L.extend([e]) in loops, L = [e for v in it]"""
    out = []
    pm = parent_map(fi.node)
    for n in ast.walk(fi.node):
        if isinstance(n, ast.Call) and isinstance(n.func, ast.Attribute) and isinstance(n.func.value, ast.Name) and n.func.value.id == name and len(n.args) == 1:
            loop = enclosing(pm, n, (ast.For,))
            if n.func.attr == "append":
                out.append(Elem(n, n.args[0], loop.target if loop else None, loop.iter if loop else None, "append"))
            elif n.func.attr == "extend" and isinstance(n.args[0], (ast.List, ast.Tuple)) and len(n.args[0].elts) == 1:
                out.append(Elem(n, n.args[0].elts[0], loop.target if loop else None, loop.iter if loop else None, "append"))
        elif isinstance(n, ast.AugAssign) and isinstance(n.target, ast.Name) and n.target.id == name and isinstance(n.op, ast.Add) \
                and isinstance(n.value, (ast.List, ast.Tuple)) and len(n.value.elts) == 1:
            loop = enclosing(pm, n, (ast.For,))
            out.append(Elem(n, n.value.elts[0], loop.target if loop else None, loop.iter if loop else None, "append"))
        elif isinstance(n, ast.Assign) and len(n.targets) == 1:
            t, v = n.targets[0], n.value
            pairs = []
            if isinstance(t, ast.Name) and t.id == name:
                pairs.append(v)
            elif isinstance(t, (ast.Tuple, ast.List)) and isinstance(v, (ast.Tuple, ast.List)) and len(t.elts) == len(v.elts):
                pairs.extend(b for a, b in zip(t.elts, v.elts) if isinstance(a, ast.Name) and a.id == name)
            for v in pairs:
                if isinstance(v, ast.Call) and isinstance(v.func, ast.Name) and v.func.id == "list" and v.args:
                    v = v.args[0]
                if isinstance(v, (ast.ListComp, ast.GeneratorExp)) and len(v.generators) == 1 and not v.generators[0].ifs:
                    out.append(Elem(v.elt, v.elt, v.generators[0].target, v.generators[0].iter, "comp"))
    return out


# ----------------------------------------------------------------------------- loop normalisation
class IndexedFn:
    """a view of a function in which `for a, b in zip(A, B)` / `for i, a in enumerate(A)` loops and comprehensions are rewritten to
    index loops (`for _k in range(len(A))`, a -> A[_k], b -> B[_k]); usable where a FuncInfo is expected.  A loop whose element
    variables are assigned in its body is left alone."""

    def __init__(self, fi):
        self.fi = fi
        self.mod, self.cls, self.qual = fi.mod, fi.cls, fi.qual
        self.is_property = self.is_static = self.is_classmethod = False
        node = copy.deepcopy(fi.node)
        self.count = 0
        node.body = self._block(node.body)
        node = _CompIdx(self).visit(node)
        ast.fix_missing_locations(node)
        self.node = node

    def _plan(self, target, it):
        """-> (index name, {var: replacement expr}, range iter) or None"""
        if not (isinstance(it, ast.Call) and isinstance(it.func, ast.Name) and it.func.id in ("zip", "enumerate") and it.args and not any(isinstance(a, ast.Starred) for a in it.args)):
            return None
        simple = lambda a: isinstance(a, (ast.Name, ast.Attribute)) or (isinstance(a, ast.Subscript) and isinstance(a.value, ast.Name))
        if it.func.id == "zip":
            if not (isinstance(target, ast.Tuple) and len(target.elts) == len(it.args) and all(isinstance(t, ast.Name) for t in target.elts) and all(simple(a) for a in it.args)):
                return None
            self.count += 1
            k = f"_k{self.count}"
            sub = {t.id: ast.Subscript(value=copy.deepcopy(a), slice=ast.Name(id=k, ctx=ast.Load()), ctx=ast.Load()) for t, a in zip(target.elts, it.args)}
            rng = ast.Call(func=ast.Name(id="range", ctx=ast.Load()), args=[ast.Call(func=ast.Name(id="len", ctx=ast.Load()), args=[copy.deepcopy(it.args[0])], keywords=[])], keywords=[])
            return k, sub, rng, None
        start = kwarg(it, "start", 1)
        # for i, (a, b) in enumerate(zip(A, B)): one index for both
        if isinstance(target, ast.Tuple) and len(target.elts) == 2 and isinstance(target.elts[0], ast.Name) and isinstance(target.elts[1], ast.Tuple) and start is None \
                and isinstance(it.args[0], ast.Call) and isinstance(it.args[0].func, ast.Name) and it.args[0].func.id == "zip" and len(it.args[0].args) == len(target.elts[1].elts) \
                and all(isinstance(t, ast.Name) for t in target.elts[1].elts) and all(simple(a) for a in it.args[0].args):
            i = target.elts[0].id
            sub = {t.id: ast.Subscript(value=copy.deepcopy(a), slice=ast.Name(id=i, ctx=ast.Load()), ctx=ast.Load()) for t, a in zip(target.elts[1].elts, it.args[0].args)}
            rng = ast.Call(func=ast.Name(id="range", ctx=ast.Load()), args=[ast.Call(func=ast.Name(id="len", ctx=ast.Load()), args=[copy.deepcopy(it.args[0].args[0])], keywords=[])], keywords=[])
            return i, sub, rng, i
        if not (isinstance(target, ast.Tuple) and len(target.elts) == 2 and all(isinstance(t, ast.Name) for t in target.elts) and simple(it.args[0])):
            return None
        a = it.args[0]
        i, x = target.elts[0].id, target.elts[1].id
        lo = None
        if isinstance(a, ast.Subscript) and isinstance(a.slice, ast.Slice):
            if a.slice.upper is not None or a.slice.step is not None:
                return None
            lo, a = a.slice.lower, a.value
        if lo is not None and start is not None and dump(lo) == dump(start):
            # enumerate(A[s:], start=s): the index is the position in A
            rng = ast.Call(func=ast.Name(id="range", ctx=ast.Load()), args=[copy.deepcopy(lo), ast.Call(func=ast.Name(id="len", ctx=ast.Load()), args=[copy.deepcopy(a)], keywords=[])], keywords=[])
            return i, {x: ast.Subscript(value=copy.deepcopy(a), slice=ast.Name(id=i, ctx=ast.Load()), ctx=ast.Load())}, rng, i
        if lo is not None or start is not None:
            return None
        rng = ast.Call(func=ast.Name(id="range", ctx=ast.Load()), args=[ast.Call(func=ast.Name(id="len", ctx=ast.Load()), args=[copy.deepcopy(a)], keywords=[])], keywords=[])
        return i, {x: ast.Subscript(value=copy.deepcopy(a), slice=ast.Name(id=i, ctx=ast.Load()), ctx=ast.Load())}, rng, i

    def _block(self, body):
        out = []
        for s in body:
            for f in ("body", "orelse", "finalbody"):
                if hasattr(s, f) and isinstance(getattr(s, f), list) and not isinstance(s, ast.For):
                    setattr(s, f, self._block(getattr(s, f)))
            if isinstance(s, ast.For):
                plan = self._plan(s.target, s.iter)
                stored = {n.id for b in s.body for n in ast.walk(b) if isinstance(n, ast.Name) and isinstance(n.ctx, ast.Store)}
                if plan is not None and not (set(plan[1]) & stored):
                    k, sub, rng, keep = plan
                    new_body = [_SubstEnv(sub).visit(b) for b in s.body]
                    s = ast.For(target=ast.Name(id=k, ctx=ast.Store()), iter=rng, body=new_body, orelse=s.orelse, lineno=s.lineno, col_offset=s.col_offset)
                s.body = self._block(s.body)
            out.append(s)
        return out


class _CompIdx(ast.NodeTransformer):
    def __init__(self, owner):
        self.o = owner

    def _comp(self, node):
        self.generic_visit(node)
        if len(node.generators) == 1 and not node.generators[0].is_async:
            g = node.generators[0]
            plan = self.o._plan(g.target, g.iter)
            if plan is not None:
                k, sub, rng, keep = plan
                tr = _SubstEnv(sub)
                if isinstance(node, ast.DictComp):
                    node.key, node.value = tr.visit(node.key), tr.visit(node.value)
                else:
                    node.elt = tr.visit(node.elt)
                g.ifs = [tr.visit(c) for c in g.ifs]
                g.target, g.iter = ast.Name(id=k, ctx=ast.Store()), rng
        return node
    visit_ListComp = visit_GeneratorExp = visit_SetComp = visit_DictComp = _comp


# ----------------------------------------------------------------------------- argument forwarding through helpers
def forwarded_args(prog, fi, target_qual, depth=2, _seen=()):
    """every way `fi` calls the function `target_qual`, directly or through helpers it calls (module-level functions of the same module,
    or methods of the same object called on `self`; up to `depth` levels):
    -> [{"call": call node, "holder": function containing it, "chain": [names], "args": {target param: expression in terms of fi's
    scope at the outermost call site (None if it cannot be expressed)}, "missing": [target params not passed], "complete": bool, "errors": [...],
    "star": names of `**kw` arguments of the call that could not be resolved}]"""
    from .program import FuncInfo
    out = []
    for c, r in prog.calls_in(fi):
        if not isinstance(r, FuncInfo):
            continue
        if r.qual == target_qual or r.qual.endswith("." + target_qual):
            m, errs, complete = bind_call(prog, fi, r.node, c)
            pos, kwonly, _, _ = params_of(r.node)
            args = {}
            for p_ in pos + kwonly:
                if p_ in m and isinstance(m[p_], ast.AST):
                    args[p_] = resolve_item(prog, fi, expr_at(fi, c, m[p_]))
            star = [k.value.id for k in c.keywords if k.arg is None and isinstance(k.value, ast.Name)]
            out.append({"call": c, "holder": fi, "chain": [fi.node.name], "args": args, "missing": [p_ for p_ in pos + kwonly if p_ not in m],
                        "complete": complete, "errors": errs, "outer_call": c, "star": star if not complete else []})
            continue
        on_self = r.cls is not None and isinstance(c.func, ast.Attribute) and isinstance(c.func.value, ast.Name) and c.func.value.id == "self" \
            and not getattr(r, "is_classmethod", False)
        static = on_self and getattr(r, "is_static", False)      # self._helper(...) of a @staticmethod: no implicit first argument
        same_obj = on_self and not static
        if depth > 0 and r.qual not in _seen and r.node is not fi.node and ((r.cls is None and r.mod == fi.mod) or same_obj or static):
            m, errs, complete = bind_call(prog, fi, r.node, c, bound=same_obj)
            # a helper that is steered by a label handed in as a literal (`self._derived("data")`): only the branch of that label counts
            labels = {p_: a_.value for p_, a_ in m.items() if isinstance(a_, ast.Constant) and (a_.value is None or isinstance(a_.value, (str, bool)))}
            r_view = r
            if labels:
                try:
                    r_view = PrunedFn(r, labels, subst=True)
                except Exception:
                    r_view = r
            inner = forwarded_args(prog, r_view, target_qual, depth - 1, _seen + (fi.qual,))
            if not inner:
                continue
            hpos, hkw, _, hkwarg = params_of(r.node)
            hkwarg = getattr(hkwarg, "arg", hkwarg)
            hp = set(hpos + hkw) - ({"self"} if same_obj else set())
            for rec in inner:
                args = {}
                for p_, e in rec["args"].items():
                    # express the helper-scope expression in the caller's scope: substitute the helper's parameters
                    names = {n.id for n in ast.walk(e) if isinstance(n, ast.Name) and n.id in hp}
                    if all(n in m and isinstance(m[n], ast.AST) for n in names):
                        sub = {n: expr_at(fi, c, m[n]) for n in names}
                        args[p_] = fold(_SubstEnv(sub).visit(copy.deepcopy(e)))
                    else:
                        args[p_] = None
                missing = list(rec["missing"])
                comp = rec["complete"] and complete
                # the helper forwards its own **kwargs: the extra keywords of THIS call travel through to the target
                if hkwarg and hkwarg in rec.get("star", []):
                    extra = {k.arg: k.value for k in c.keywords if k.arg is not None and k.arg not in hp}
                    unresolved = False
                    for k in c.keywords:
                        if k.arg is not None:
                            continue
                        # **d at this call: a dict literal / dict(...) with constant keys travels through entry by entry
                        x = expr_at(fi, c, k.value)
                        items = None
                        if isinstance(x, ast.Dict) and all(isinstance(kk, ast.Constant) for kk in x.keys):
                            items = [(kk.value, v) for kk, v in zip(x.keys, x.values)]
                        elif isinstance(x, ast.Call) and isinstance(x.func, ast.Name) and x.func.id == "dict" and not x.args and all(kw.arg for kw in x.keywords):
                            items = [(kw.arg, kw.value) for kw in x.keywords]
                        if items is None:
                            unresolved = True
                            continue
                        for name_, v_ in items:
                            if name_ not in hp:
                                extra.setdefault(name_, v_)
                    for k_, v_ in extra.items():
                        if k_ in missing:
                            args[k_] = v_ if not any(isinstance(n_, ast.Name) for n_ in ast.walk(v_)) else expr_at(fi, c, v_)
                            missing.remove(k_)
                    comp = complete and not unresolved and len(rec.get("star", [])) == 1
                out.append({"call": rec["call"], "holder": rec["holder"], "chain": [fi.node.name] + rec["chain"], "args": args, "missing": missing,
                            "complete": comp, "errors": rec["errors"] + errs, "outer_call": c, "star": []})
    return out


# ----------------------------------------------------------------------------- element-wise canonical forms
class _CanonElem(ast.NodeTransformer):
    """np.real(X) -> X.real, np.imag(X) -> X.imag, np.abs/np.absolute(X) -> abs(X), X.T[k] -> X[:, k], np.conj(X) -> X.conj()"""

    def __init__(self, prog, fi):
        self.prog, self.fi = prog, fi

    def visit_Call(self, node):
        self.generic_visit(node)
        nm = callee_name(self.prog, self.fi, node)
        if nm in ("numpy.real", "numpy.imag") and len(node.args) == 1:
            return ast.Attribute(value=node.args[0], attr=nm.split(".")[-1], ctx=ast.Load())
        if nm in ("numpy.abs", "numpy.absolute") and len(node.args) == 1:
            return ast.Call(func=ast.Name(id="abs", ctx=ast.Load()), args=node.args, keywords=[])
        return node

    def visit_Attribute(self, node):
        self.generic_visit(node)
        if node.attr == "T":
            v = node.value
            # X.T.T -> X ; X.copy().T -> X.T ; where(c, a, b).T -> where(c.T, a.T, b.T) ; masks and scalars transposed in place
            if isinstance(v, ast.Attribute) and v.attr == "T":
                return v.value
            if isinstance(v, ast.Call) and isinstance(v.func, ast.Attribute) and v.func.attr == "copy" and not v.args:
                return self.visit(ast.Attribute(value=v.func.value, attr="T", ctx=ast.Load()))
            if isinstance(v, ast.Call) and callee_name(self.prog, self.fi, v) == "numpy.where" and len(v.args) == 3:
                return ast.Call(func=v.func, args=[self.visit(ast.Attribute(value=a, attr="T", ctx=ast.Load())) for a in v.args], keywords=[])
            if isinstance(v, ast.Call) and isinstance(v.func, ast.Name) and v.func.id in (ROWMASK, COLMASK):
                return ast.Call(func=ast.Name(id=COLMASK if v.func.id == ROWMASK else ROWMASK, ctx=ast.Load()), args=v.args, keywords=[])
            if isinstance(v, ast.Constant) or (isinstance(v, ast.Attribute) and v.attr.lower() == "nan"):
                return v
        return node

    def visit_Subscript(self, node):
        self.generic_visit(node)
        if isinstance(node.value, ast.Attribute) and node.value.attr == "T" and not isinstance(node.slice, (ast.Tuple, ast.Slice)):
            return ast.Subscript(value=node.value.value, slice=ast.Tuple(elts=[ast.Slice(lower=None, upper=None, step=None), node.slice], ctx=ast.Load()), ctx=node.ctx)
        return node


def canon_elem(prog, fi, e):
    return _CanonElem(prog, fi).visit(copy.deepcopy(e))


def strip_index(e, k):
    """generalise an element expression to the whole array: X[k] -> X, X[:, k] -> X (k a loop-variable name); returns
    (expression, [(array dump, axis)] of the stripped accesses)"""
    hits = []

    class T(ast.NodeTransformer):
        def visit_Subscript(self, node):
            self.generic_visit(node)
            if isinstance(node.slice, ast.Name) and node.slice.id == k:
                hits.append((dump(node.value), 0))
                return node.value
            if isinstance(node.slice, ast.Tuple) and len(node.slice.elts) == 2 and is_full_slice(node.slice.elts[0]) and isinstance(node.slice.elts[1], ast.Name) and node.slice.elts[1].id == k:
                hits.append((dump(node.value), 1))
                return node.value
            return node
    return T().visit(copy.deepcopy(e)), hits


def loop_variant_names(loop):
    """names whose value (may) depend on the loop variable: the target, and transitively everything assigned / accumulated /
    appended inside the body from an expression that mentions a variant name"""
    variant = {n.id for n in ast.walk(loop.target) if isinstance(n, ast.Name)}

    def mentions(e):
        return any(isinstance(z, ast.Name) and z.id in variant for z in ast.walk(e))
    changed = True
    while changed:
        changed = False
        for st in ast.walk(loop):
            new = set()
            if isinstance(st, ast.Assign) and mentions(st.value):
                for t in st.targets:
                    base = t
                    while isinstance(base, (ast.Subscript, ast.Attribute)):
                        base = base.value
                    new |= {n.id for n in ast.walk(base) if isinstance(n, ast.Name)} if not isinstance(t, (ast.Tuple, ast.List)) else {n.id for n in ast.walk(t) if isinstance(n, ast.Name)}
            elif isinstance(st, ast.AugAssign) and (mentions(st.value) or mentions(st.target)):
                base = st.target
                while isinstance(base, (ast.Subscript, ast.Attribute)):
                    base = base.value
                new |= {n.id for n in ast.walk(base) if isinstance(n, ast.Name)}
            elif isinstance(st, ast.For) and st is not loop and mentions(st.iter):
                new |= {n.id for n in ast.walk(st.target) if isinstance(n, ast.Name)}
            elif isinstance(st, (ast.ListComp, ast.GeneratorExp, ast.SetComp, ast.DictComp)):
                for g in st.generators:
                    if mentions(g.iter):
                        new |= {n.id for n in ast.walk(g.target) if isinstance(n, ast.Name)}
            elif isinstance(st, ast.Call) and isinstance(st.func, ast.Attribute) and st.func.attr in ("append", "extend", "insert", "update", "add") \
                    and isinstance(st.func.value, ast.Name) and any(mentions(a) for a in st.args):
                new.add(st.func.value.id)
            if new - variant:
                variant |= new
                changed = True
    return variant


# ----------------------------------------------------------------------------- outcomes under constant seeds
def outcomes(body, consts):
    """the set of ways the statement list can end once the branches decidable from `consts` are removed:
    'raise:<Exc>' / 'return' / 'fall' (runs off the end).  Loops and try blocks are treated as falling through unless they
    contain nothing but raises."""
    stmts = prune(body, consts)
    return _outcomes(stmts)


def _exc_name(r):
    if r.exc is None:
        return "re-raise"
    return src(r.exc.func) if isinstance(r.exc, ast.Call) else src(r.exc)


def _outcomes(stmts):
    for i, s in enumerate(stmts):
        if isinstance(s, ast.Raise):
            return {"raise:" + _exc_name(s)}
        if isinstance(s, ast.Return):
            return {"return"}
        if isinstance(s, ast.If):
            a, b = _outcomes(s.body), _outcomes(s.orelse)
            both = a | b
            if "fall" not in both:
                return both
            rest = _outcomes(stmts[i + 1:])
            return (both - {"fall"}) | rest
        if isinstance(s, (ast.With,)):
            a = _outcomes(s.body)
            if "fall" not in a:
                return a
            return (a - {"fall"}) | _outcomes(stmts[i + 1:])
    return {"fall"}


# ----------------------------------------------------------------------------- hand-over of attributes / parameters to a callee
def _read_point(fi, call, attr_src, order, pos):
    """the statement at which the value `attr_src` that reaches `call` through a local name was read (the call itself when the
    attribute is read in the argument list)"""
    here = pos.get(id(call))
    if here is None:
        return call
    assigns = [n for n in order if isinstance(n, ast.Assign) and len(n.targets) == 1 and isinstance(n.targets[0], ast.Name)]
    best = None
    for a in list(call.args) + [k.value for k in call.keywords]:
        a = a.value if isinstance(a, ast.Starred) else a
        cur, at, hops = a, call, 0
        while isinstance(cur, ast.Name) and hops < 8:
            prev = [x for x in assigns if x.targets[0].id == cur.id and pos[id(x)] < pos[id(at)]]
            if not prev:
                break
            d = prev[-1]
            hops += 1
            if isinstance(d.value, ast.Attribute) and (src(d.value) == attr_src or src(expr_at(fi, d, d.value)) == attr_src):
                if best is None or pos[id(d)] < pos[id(best)]:
                    best = d
                break
            cur, at = d.value, d
    return best if best is not None else call


def attr_store_status(fi, at_node, attr_src):
    """for an expression like `self.run_params.DF` read at `at_node`: ("before", value) if the last store into it on the straight-line
    path precedes the read, ("after", value) if the first store comes later in the function, (None, None) if it is never stored"""
    order = [n for s_ in fi.node.body for n in ast.walk(s_)]
    pos = {id(n): i for i, n in enumerate(order)}
    if isinstance(at_node, ast.Call):
        # the attribute may have been read EARLIER than the call, into a local that is handed over (`tol = self.run_params.rtol` ...
        # `f(rtol=tol)`): the point of the read is what counts
        at_node = _read_point(fi, at_node, attr_src, order, pos)
    here = pos.get(id(at_node))
    before, after = None, None
    # the object the field lives in (`self.run_params` of `self.run_params.DF`) may be replaced as a whole by an updated copy:
    # self.run_params = <old>.model_copy(update={"DF": DF}) stores DF for every LATER read through `self.run_params` - but not for a
    # read through a local name that was bound to the object before the replacement
    obj_src, _, fld = attr_src.rpartition(".")
    alias_at = None
    # the read goes through a local name for the object (`rp.DF` with `rp = self.run_params` some statements earlier, possibly through
    # further copies of the name): the object is the one the attribute held when that name was bound
    reads = []
    if isinstance(at_node, ast.Assign):
        reads = [at_node.value]
    elif isinstance(at_node, ast.Call):
        reads = [a.value if isinstance(a, ast.Starred) else a for a in at_node.args] + [k.value for k in at_node.keywords]
    for rd in reads:
        if isinstance(rd, ast.Attribute) and rd.attr == fld and isinstance(rd.value, ast.Name) and rd.value.id != "self" and pos.get(id(at_node)) is not None:
            al, lim, hops = rd.value.id, pos[id(at_node)], 0
            while hops < 8:
                hops += 1
                binds = [x for x in order if isinstance(x, ast.Assign) and len(x.targets) == 1 and isinstance(x.targets[0], ast.Name) and x.targets[0].id == al
                         and pos[id(x)] < lim]
                if not binds:
                    break
                b_ = binds[-1]
                if isinstance(b_.value, ast.Name):
                    al, lim = b_.value.id, pos[id(b_)]
                    continue
                if src(b_.value) == obj_src:
                    alias_at = pos[id(b_)]
                break
            if alias_at is not None:
                break
    for n in order:
        if isinstance(n, ast.Assign) and len(n.targets) == 1 and isinstance(n.targets[0], ast.Attribute) and src(n.targets[0]) == obj_src \
                and isinstance(n.value, ast.Call) and isinstance(n.value.func, ast.Attribute) and n.value.func.attr == "model_copy":
            upd = expr_at(fi, n, kwarg(n.value, "update")) if kwarg(n.value, "update") is not None else None
            if isinstance(upd, ast.Dict):
                for k_, v_ in zip(upd.keys, upd.values):
                    if isinstance(k_, ast.Constant) and k_.value == fld:
                        if here is not None and pos[id(n)] < here and (alias_at is None or alias_at > pos[id(n)]):
                            before = (n, v_)
                        elif after is None and (here is None or pos[id(n)] > here or (alias_at is not None and alias_at < pos[id(n)])):
                            after = (n, v_)
    for n in order:
        if isinstance(n, ast.Assign):
            pairs = []
            for t in n.targets:
                if isinstance(t, (ast.Tuple, ast.List)) and isinstance(n.value, (ast.Tuple, ast.List)) and len(t.elts) == len(n.value.elts):
                    pairs += list(zip(t.elts, n.value.elts))
                else:
                    pairs.append((t, n.value))
            for t, v in pairs:
                if not isinstance(t, ast.Attribute):
                    continue
                hit = src(t) == attr_src
                if not hit and attr_src.endswith("." + t.attr) and isinstance(t.value, ast.Name) and t.value.id != "self":
                    # stored through a local name for the object (prm = self.run_params; prm.rtol = rtol)
                    load_ = copy.deepcopy(t.value)
                    load_.ctx = ast.Load()
                    hit = src(expr_at(fi, n, load_)) + "." + t.attr == attr_src
                if hit:
                    if here is not None and pos[id(n)] < here:
                        before = (n, v)
                    elif after is None:
                        after = (n, v)
    if before is not None:
        return "before", expr_at(fi, before[0], before[1])
    if after is not None:
        return "after", after[1]
    return None, None


def handover(prog, fi, callee_qual, want, depth=1):
    """check how `fi` hands values to the package function `callee_qual`.  want: {callee parameter: acceptable source texts}; a source is
    the text of the argument after flow-sensitive expansion (`self.run_params.nxseg`, a parameter name of fi, `self.result.S_val`, ...).
    -> [(call, param, status, detail)] with status True / False / None.  An attribute that is read before the method stores the
    caller's value into it is STALE (the value of an earlier call) and therefore wrong."""
    out = []
    recs = forwarded_args(prog, fi, callee_qual, depth=depth)
    params = set(params_of(fi.node)[0] + params_of(fi.node)[1])
    for rec in recs:
        c = rec["outer_call"]
        for p_, sources in want.items():
            if p_ in rec["missing"]:
                out.append((c, p_, False if rec["complete"] else None, f"`{p_}` is not passed (the callee's default is used)"))
                continue
            a = rec["args"].get(p_)
            if a is None:
                out.append((c, p_, None, f"argument for `{p_}` could not be expressed in the caller's scope"))
                continue
            if isinstance(a, ast.IfExp) and isinstance(a.orelse, ast.Name) and a.orelse.id == CALLEE_DEFAULT and isinstance(a.test, ast.Compare) \
                    and len(a.test.ops) == 1 and isinstance(a.test.ops[0], ast.IsNot) and isinstance(a.test.comparators[0], ast.Constant) and a.test.comparators[0].value is None:
                a = a.body          # left out only when None ("not set"): no setting is lost
            if isinstance(a, ast.IfExp) and isinstance(a.orelse, ast.Name) and a.orelse.id == CALLEE_DEFAULT:
                inner = src(a.body, 120)
                # dropping a falsy value matters where 0 / 0.0 / False is a legitimate setting: parameters whose default is a float or a bool
                # (an overlap of 0.0, zero_phase=False), or an axis; an empty string / a zero length is not a setting anyone loses
                cal = prog.functions.get(callee_qual) or next((f_ for q_, f_ in prog.functions.items() if q_.endswith("." + callee_qual)), None)
                dflt = None
                if cal is not None:
                    a_ = cal.node.args
                    pos_ = [x.arg for x in a_.posonlyargs + a_.args]
                    dmap = dict(zip(pos_[len(pos_) - len(a_.defaults):], a_.defaults))
                    dmap.update({k.arg: d for k, d in zip(a_.kwonlyargs, a_.kw_defaults) if d is not None})
                    dflt = dmap.get(p_)
                legit = isinstance(dflt, ast.Constant) and (isinstance(dflt.value, (float, bool)) or (isinstance(dflt.value, int) and p_ in ("axis",)))
                if legit:
                    out.append((c, p_, False, f"`{p_}` <- `{inner}` only when that value is truthy: a legitimate falsy setting (0, 0.0, False) is dropped and the callee's default ({src(dflt)}) is used instead"))
                    continue
                a = a.body
            txt = src(a, 120)
            if txt in sources:
                # an attribute source must not be stale
                if isinstance(a, ast.Attribute) and txt.startswith("self.run_params."):
                    st, v = attr_store_status(rec["holder"] if rec["holder"] is fi else fi, c, txt)
                    if st == "after":
                        out.append((c, p_, False, f"`{p_}` <- `{txt}` is read BEFORE this call's value is stored into it (`{txt} = {src(v, 30)}` comes later): the value of the previous call is used"))
                        continue
                out.append((c, p_, True, f"`{p_}` <- `{txt}`"))
                continue
            # an attribute holding the caller's own parameter, stored before the call
            if isinstance(a, ast.Attribute):
                st, v = attr_store_status(fi, c, txt)
                if st == "before" and v is not None and src(v, 120) in sources:
                    out.append((c, p_, True, f"`{p_}` <- `{txt}` (= `{src(v, 40)}` stored just before)"))
                    continue
                if st == "after":
                    out.append((c, p_, False, f"`{p_}` <- `{txt}` is read BEFORE `{txt} = {src(v, 30)}` is executed: the value of the previous call is used"))
                    continue
            recognisable = isinstance(a, (ast.Name, ast.Constant, ast.Attribute)) or (isinstance(a, ast.Subscript) and isinstance(a.slice, ast.Constant))
            note = ""
            if isinstance(a, ast.Attribute) and txt.startswith("self.run_params.") and a.attr in sources:
                note = f" - the stored parameter as it was before this request (no store of this call's `{a.attr}` into it precedes the read)"
            out.append((c, p_, False if recognisable else None, f"`{p_}` receives `{txt}`, expected one of {sorted(sources)}{note}"))
    return out


def dropped_options_rule(prog, run, rule, quals):
    """every call `f(.., **opts)` in the given functions whose options can be written out: an option whose value is a falsy CONSTANT that
    is a setting (0, 0.0, False) and that is let through only when it is truthy never arrives - the callee's default is used"""
    from .program import rel
    n = 0
    for q in quals:
        fi = prog.functions[q]
        f = rel(prog.mods[fi.mod].path)
        for c in ast.walk(fi.node):
            if not (isinstance(c, ast.Call) and any(k.arg is None for k in c.keywords)):
                continue
            for k in c.keywords:
                if k.arg is not None:
                    continue
                items = dict_items_of(prog, fi, expr_at(fi, c, k.value))
                if items is None:
                    continue
                n += 1
                lost, unsure = [], []
                # defaults of the callee: its own signature inside the package, the documented ones of the numpy reductions otherwise
                r_ = prog.resolve_call(fi, c)
                dflt = {}
                if getattr(r_, "node", None) is not None and isinstance(r_.node, ast.FunctionDef):
                    a_ = r_.node.args
                    pos_ = [x_.arg for x_ in a_.posonlyargs + a_.args]
                    dflt = {p_: d_.value for p_, d_ in zip(pos_[len(pos_) - len(a_.defaults):], a_.defaults) if isinstance(d_, ast.Constant)}
                    dflt.update({k_.arg: d_.value for k_, d_ in zip(a_.kwonlyargs, a_.kw_defaults) if isinstance(d_, ast.Constant)})
                elif (callee_name(prog, fi, c) or "").startswith("numpy."):
                    dflt = {"axis": None, "keepdims": False, "dtype": None, "out": None}
                for key, v in items:
                    if isinstance(v, ast.IfExp) and isinstance(v.orelse, ast.Name) and v.orelse.id == CALLEE_DEFAULT and dump(v.test) == dump(v.body):
                        b = v.body
                        if isinstance(b, ast.Constant) and b.value is not None and not isinstance(b.value, str) and not b.value:
                            if key in dflt and dflt[key] == b.value and type(dflt[key]) is type(b.value):
                                continue            # what is dropped is the callee's default anyway
                            (lost if key in dflt else unsure).append(f"{key}={b.value!r}")
                run.ob(rule, fi.qual, f"options of `{src(c.func, 40)}`", (not lost) if not (unsure and not lost) else None,
                       f"`{src(c, 70)}`" + ("" if not lost else f": {', '.join(lost)} is a setting, but the filter lets an option through only when it is truthy - it never arrives, the "
                                                               f"default of {src(c.func, 30)} applies"), witness=",".join(lost), file=f, node=c)
    if not n:
        run.ob(rule, quals[0] if quals else "-", "option dictionaries", True, "no call with a spread option dictionary that can be written out")
