"""AST query helpers used by the structural rules: resolved callee names, single-assignment expansion,
structural equality modulo local aliases, statement walking with enclosing-block information."""
import ast
import copy
import re

from .program import FuncInfo, ClassInfo, Ext, ModRef, rel
from .absint import CTX


def traversed_functions():
    return set(getattr(CTX, "traversed", ()))


def dump(e):
    return ast.dump(e, annotate_fields=False, include_attributes=False)


def src(e, limit=120):
    try:
        s = ast.unparse(e)
    except Exception:
        s = type(e).__name__
    s = " ".join(s.split())
    return s if len(s) <= limit else s[: limit - 3] + "..."


def callee_name(prog, fi, call):
    """dotted name of the callee: 'numpy.argmax', 'pyoma2.functions.gen.MAC', '.argmax' (method on a value), 'abs'"""
    r = prog.resolve_call(fi, call)
    if isinstance(r, Ext):
        return r.name
    if isinstance(r, FuncInfo):
        return r.qual
    if isinstance(r, ClassInfo):
        return r.qual
    f = call.func
    if isinstance(f, ast.Attribute):
        return "." + f.attr
    if isinstance(f, ast.Name):
        return f.id
    return "?"


def is_call_to(prog, fi, node, names):
    """node is a Call whose resolved callee (or method name) is in names; names like 'numpy.abs', 'abs', '.argmax'"""
    return isinstance(node, ast.Call) and callee_name(prog, fi, node) in names


ABS = {"abs", "numpy.abs", "numpy.absolute", ".__abs__"}
ARGMAX = {"numpy.argmax", "numpy.nanargmax", ".argmax"}
ARGMIN = {"numpy.argmin", "numpy.nanargmin", ".argmin"}


def assignments(fi):
    """name -> list of (stmt, value expr or None) for simple Name targets (tuple targets give value None)"""
    out = {}
    for n in ast.walk(fi.node):
        if isinstance(n, ast.Assign):
            for t in n.targets:
                if isinstance(t, ast.Name):
                    out.setdefault(t.id, []).append((n, n.value))
                elif isinstance(t, (ast.Tuple, ast.List)):
                    for i, el in enumerate(t.elts):
                        if isinstance(el, ast.Name):
                            v = None
                            if isinstance(n.value, (ast.Tuple, ast.List)) and len(n.value.elts) == len(t.elts):
                                v = n.value.elts[i]
                            out.setdefault(el.id, []).append((n, v))
        elif isinstance(n, ast.AnnAssign) and isinstance(n.target, ast.Name) and n.value is not None:
            out.setdefault(n.target.id, []).append((n, n.value))
        elif isinstance(n, ast.AugAssign) and isinstance(n.target, ast.Name):
            out.setdefault(n.target.id, []).append((n, None))
        elif isinstance(n, (ast.For, ast.comprehension)):
            for el in ast.walk(n.target):
                if isinstance(el, ast.Name):
                    out.setdefault(el.id, []).append((n, None))
        elif isinstance(n, ast.NamedExpr) and isinstance(n.target, ast.Name):
            out.setdefault(n.target.id, []).append((n, n.value))
    a = fi.node.args
    for x in a.posonlyargs + a.args + a.kwonlyargs:
        out.setdefault(x.arg, []).append((fi.node, None))
    return out


def unique_def(amap, name):
    """the defining expression of `name` if every assignment to it has the same expression (same text in all branches)"""
    ent = amap.get(name)
    if not ent or any(v is None for _, v in ent):
        return None
    # x = <expr>; x = float(x): the value of the first, re-typed
    ent = [(st, v) for st, v in ent if not (isinstance(v, ast.Call) and isinstance(v.func, ast.Name) and v.func.id in ("int", "float") and len(v.args) == 1
                                             and isinstance(v.args[0], ast.Name) and v.args[0].id == name)] or ent
    d0 = dump(ent[0][1])
    if all(dump(v) == d0 for _, v in ent[1:]):
        return ent[0][1]
    return None


class _Subst(ast.NodeTransformer):
    def __init__(self, amap, depth, stop=()):
        self.amap = amap
        self.depth = depth
        self.stop = set(stop)

    def visit_Name(self, node):
        if isinstance(node.ctx, ast.Load) and node.id not in self.stop and self.depth > 0:
            v0 = unique_def(self.amap, node.id)
            if v0 is not None:
                v = copy.deepcopy(v0)
                return _Subst(self.amap, self.depth - 1, self.stop | {node.id}).visit(v)
        return node


def expand(fi, e, depth=12, stop=()):
    """substitute locals that are assigned exactly once by their defining expression"""
    amap = getattr(fi, "_amap", None)
    if amap is None:
        amap = assignments(fi)
        fi._amap = amap
    return _Subst(amap, depth, stop).visit(copy.deepcopy(e))


def same(fi, a, b, depth=12):
    """structural equality modulo single-assignment local aliases"""
    if dump(a) == dump(b):
        return True
    return dump(expand(fi, a, depth)) == dump(expand(fi, b, depth))


def strip_abs(prog, fi, e):
    """abs(V)/np.abs(V) -> V, else None"""
    if isinstance(e, ast.Call) and callee_name(prog, fi, e) in ABS and e.args:
        return e.args[0]
    return None


def argreduce(prog, fi, e, kinds):
    """if e is argmax/argmin style call (function or method form) return its array argument"""
    while isinstance(e, ast.Call) and isinstance(e.func, ast.Name) and e.func.id == "int" and len(e.args) == 1 and not e.keywords:
        e = e.args[0]               # int(np.argmin(..)): the index itself
    if not isinstance(e, ast.Call):
        return None
    nm = callee_name(prog, fi, e)
    if nm in kinds:
        if nm.startswith(".") and isinstance(e.func, ast.Attribute):
            return e.func.value
        return e.args[0] if e.args else None
    return None


def index_elts(sub):
    s = sub.slice
    return list(s.elts) if isinstance(s, ast.Tuple) else [s]


def is_full_slice(e):
    return isinstance(e, ast.Slice) and e.lower is None and e.upper is None and e.step is None


def unit_norm_sites(fi, prog=None, _depth=1):
    """[(node, ok, why)] for every division whose divisor is selected with an argmax (also inside package helpers called from fi)"""
    prog = prog or CTX.prog
    out = []
    if _depth > 0:
        for c, r in prog.calls_in(fi):
            if isinstance(r, FuncInfo) and r.cls is None and r.node is not fi.node and r.node.name.startswith("_"):
                out.extend(unit_norm_sites(r, prog, _depth - 1))
    for n in ast.walk(fi.node):
        if not (isinstance(n, ast.BinOp) and isinstance(n.op, ast.Div)):
            continue
        den = n.right
        numr = n.left
        den_x = expand(fi, den)
        # np.take_along_axis(X, argmax(abs(X), axis=a)[newaxis at a], axis=a): the pivots of the vectors lying along axis a, kept broadcastable
        if isinstance(den_x, ast.Call) and callee_name(prog, fi, den_x) == "numpy.take_along_axis" and len(den_x.args) >= 2:
            ax = kwarg(den_x, "axis", 2)
            idx = expand(fi, den_x.args[1])
            ins = None
            if isinstance(idx, ast.Subscript):
                iel = index_elts(idx)
                new_pos = [i for i, x in enumerate(iel) if (isinstance(x, ast.Constant) and x.value is None) or src(x).endswith("newaxis")]
                if len(new_pos) == 1 and all(is_full_slice(x) for i, x in enumerate(iel) if i != new_pos[0]):
                    ins, idx = new_pos[0], expand(fi, idx.value)
            elif isinstance(idx, ast.Call) and callee_name(prog, fi, idx) == "numpy.expand_dims" and len(idx.args) >= 1:
                a2 = kwarg(idx, "axis", 1)
                ins, idx = (a2.value if isinstance(a2, ast.Constant) else None), expand(fi, idx.args[0])
            a_ = argreduce(prog, fi, idx, ARGMAX)
            if a_ is None or ins is None or not isinstance(ax, ast.Constant):
                out.append((n, None, f"divisor `{src(den, 60)}`: pivot selection not recognised"))
                continue
            inner = strip_abs(prog, fi, expand(fi, a_))
            ax_arg = kwarg(idx, "axis", 1)
            if inner is None:
                out.append((n, False, f"pivot index is argmax of `{src(a_)}`, not of a magnitude (abs missing)"))
            elif not (isinstance(ax_arg, ast.Constant) and ax_arg.value == ax.value == ins):
                out.append((n, False, f"pivot searched along axis `{src(ax_arg) if ax_arg is not None else None}`, selected along axis {ax.value}, broadcast along axis {ins}"))
            elif not (same(fi, inner, den_x.args[0]) and same(fi, numr, den_x.args[0])):
                out.append((n, False, f"the largest-magnitude components are searched in `{src(inner)}` / taken from `{src(den_x.args[0])}` but `{src(numr)}` is normalised"))
            else:
                out.append((n, True, f"`{src(numr)}` divided by its own components at argmax(abs(.), axis={ax.value})"))
            continue
        if not isinstance(den_x, ast.Subscript):
            continue
        # broadcast wrapper  p[:, None] / p[None, :] / p[:, np.newaxis]
        bel = index_elts(den_x)
        wrapped = len(bel) == 2 and any(is_full_slice(x) for x in bel) and any((isinstance(x, ast.Constant) and x.value is None) or src(x).endswith("newaxis") for x in bel)
        # a bare pivot vector X[argmax(abs(X), axis=0), arange(n)] broadcasts along the last axis: column j is divided by pivot j
        bare = not wrapped and len(bel) == 2 and any(isinstance(expand(fi, x), ast.Call) and callee_name(prog, fi, expand(fi, x)) in ("numpy.arange", "range") for x in bel)
        if wrapped or bare:
            if wrapped:
                den_x = expand(fi, den_x.value)
            if not isinstance(den_x, ast.Subscript):
                continue
            vel = index_elts(den_x)
            # vectorised pivot: X[argmax(abs(X), axis=0), arange(n)]  (or the transposed arrangement)
            if len(vel) == 2:
                found = None
                for pos_ in (0, 1):
                    a_ = argreduce(prog, fi, expand(fi, vel[pos_]), ARGMAX)
                    other = expand(fi, vel[1 - pos_])
                    if a_ is not None and isinstance(other, ast.Call) and callee_name(prog, fi, other) in ("numpy.arange", "range"):
                        found = (pos_, a_, expand(fi, vel[pos_]))
                if found is not None:
                    pos_, a_, call_ = found
                    inner = strip_abs(prog, fi, expand(fi, a_))
                    ax = kwarg(call_, "axis", 1)
                    num_x = expand(fi, numr)
                    base = num_x.value if isinstance(num_x, ast.Attribute) and num_x.attr == "T" else num_x
                    if inner is None:
                        out.append((n, False, f"pivot index is argmax of `{src(a_)}`, not of a magnitude (abs missing)"))
                    elif not (isinstance(ax, ast.Constant) and ax.value == pos_):
                        out.append((n, False if isinstance(ax, ast.Constant) else None, f"pivot searched along axis `{src(ax) if ax is not None else None}` but used as index {pos_}"))
                    elif bare and pos_ != 0:
                        out.append((n, False, f"the pivots of the rows (argmax along axis 1) are broadcast along the last axis: element (i, j) is divided by the pivot of row j, not of row i"))
                    elif dump(expand(fi, inner)) != dump(expand(fi, den_x.value)) or (dump(expand(fi, base)) != dump(expand(fi, den_x.value)) and dump(expand(fi, num_x)) != dump(expand(fi, den_x.value))):
                        out.append((n, False, f"the largest-magnitude components are searched in `{src(inner)}` / taken from `{src(den_x.value)}` but `{src(base)}` is normalised"))
                    else:
                        out.append((n, True, f"`{src(numr)}` divided column-wise by its own components at argmax(abs(.), axis={pos_})"))
                    continue
        arg_pos = None
        arr = None
        elts = index_elts(den_x)
        for i, el in enumerate(elts):
            el_x = expand(fi, el)
            a = argreduce(prog, fi, el_x, ARGMAX)
            if a is not None:
                arg_pos, arr = i, a
        if arg_pos is None:
            continue
        inner = strip_abs(prog, fi, expand(fi, arr))
        if inner is None:
            out.append((n, False, f"divisor index is argmax of `{src(arr)}`, not of a magnitude (abs missing)"))
            continue
        if not same(fi, inner, numr):
            out.append((n, False, f"the largest-magnitude component is searched in `{src(inner)}` but `{src(numr)}` is the vector being normalised"))
            continue
        # the divisor must be the element of the numerator vector at that index
        num_x = expand(fi, numr)
        ok = False
        if isinstance(num_x, ast.Subscript):
            nel = index_elts(num_x)
            slice_pos = [i for i, el in enumerate(nel) if isinstance(el, ast.Slice)]
            if len(slice_pos) == 1 and is_full_slice(nel[slice_pos[0]]) and dump(num_x.value) == dump(den_x.value) and len(nel) == len(elts) \
                    and slice_pos[0] == arg_pos and all(dump(expand(fi, a)) == dump(expand(fi, b)) for i, (a, b) in enumerate(zip(nel, elts)) if i != arg_pos):
                ok = True
        if not ok and len(elts) == 1 and dump(num_x) == dump(den_x.value):
            ok = True
        if not ok and len(elts) == 1 and same(fi, numr, den.value if isinstance(den, ast.Subscript) else den_x.value):
            ok = True
        if ok:
            out.append((n, True, f"`{src(numr)}` divided by its own component at argmax(abs(.))"))
        else:
            out.append((n, False, f"divisor `{src(den)}` is not the component of `{src(numr)}` at the argmax index"))
    return out


# ----------------------------------------------------------------------------- casts that drop the imaginary part
REAL_DTYPES = {"float", "np.float64", "np.float32", "np.float_", "np.double", "numpy.float64", "numpy.float32", "np.float16", "np.longdouble", "int", "np.int64", "np.int32"}


def _is_real_dtype(e):
    if isinstance(e, ast.Constant) and isinstance(e.value, str):
        return e.value.lower().lstrip("<>=").startswith(("float", "f4", "f8", "d", "int", "i4", "i8"))
    return src(e) in REAL_DTYPES


def real_casts(e):
    """sub-expressions of e that turn a (possibly complex) array into a real one: dtype=float in a constructor / astype(float),
    `.real`, np.real(..) - returns [(node, text)].  Magnitudes (abs) are values of their own, not casts, and are not listed."""
    out = []
    # what sits in an index position (`x[<here>]`, the index argument of take / delete) selects values, it is not one of them: a cast there
    # (an index list made `dtype=int`) says nothing about the array
    idx_nodes = set()
    for n in ast.walk(e):
        if isinstance(n, ast.Subscript):
            idx_nodes |= {id(y) for y in ast.walk(n.slice)}
        elif isinstance(n, ast.Call) and src(n.func).split(".")[-1] in ("take", "delete", "take_along_axis", "isin", "in1d", "setdiff1d") and len(n.args) >= 2:
            for a_ in n.args[1:]:
                idx_nodes |= {id(y) for y in ast.walk(a_)}
    for n in ast.walk(e):
        if id(n) in idx_nodes:
            continue
        if isinstance(n, ast.Call):
            for k in n.keywords:
                if k.arg == "dtype" and _is_real_dtype(k.value):
                    out.append((n, f"`{src(n, 50)}` (dtype={src(k.value)})"))
            if isinstance(n.func, ast.Attribute) and n.func.attr == "astype" and n.args and _is_real_dtype(n.args[0]):
                out.append((n, f"`{src(n, 50)}`"))
            if isinstance(n.func, ast.Attribute) and n.func.attr in ("real", "real_if_close") and isinstance(n.func.value, ast.Name) and n.func.value.id in ("np", "numpy") and n.func.attr == "real":
                out.append((n, f"`{src(n, 50)}`"))
            if isinstance(n.func, ast.Name) and n.func.id == "float":
                out.append((n, f"`{src(n, 50)}`"))
        elif isinstance(n, ast.Attribute) and n.attr == "real" and not (isinstance(n.value, ast.Name) and n.value.id in ("np", "numpy")):
            out.append((n, f"`{src(n, 50)}`"))
    return out


# ----------------------------------------------------------------------------- statements / blocks
def walk_stmts(body, path=()):
    """yield (stmt, path) where path is a tuple of (container stmt, field) from the function body down"""
    for s in body:
        yield s, path
        for field in ("body", "orelse", "finalbody"):
            sub = getattr(s, field, None)
            if isinstance(sub, list) and sub and isinstance(sub[0], ast.stmt):
                yield from walk_stmts(sub, path + ((s, field),))
        if isinstance(s, ast.Try):
            for h in s.handlers:
                yield from walk_stmts(h.body, path + ((s, "handler"),))


def calls_resolved(prog, fi, pred):
    """all calls in fi whose resolved callee name satisfies pred(name)"""
    out = []
    for n in ast.walk(fi.node):
        if isinstance(n, ast.Call):
            nm = callee_name(prog, fi, n)
            if pred(nm):
                out.append((n, nm))
    return out


def kwarg(call, name, pos=None):
    for k in call.keywords:
        if k.arg == name:
            return k.value
    if pos is not None and len(call.args) > pos and not any(isinstance(a, ast.Starred) for a in call.args[: pos + 1]):
        return call.args[pos]
    return None


def call_keywords(prog, fi, call):
    """({keyword: value expression}, complete) of a call, option dictionaries spread with `**` written out (dict_items_of); an entry
    that may be left out keeps the form `v if <test> else __callee_default__`; complete is False when a spread could not be written out"""
    out, complete = {}, True
    for k in call.keywords:
        if k.arg is not None:
            out[k.arg] = k.value
            continue
        items = dict_items_of(prog, fi, expr_at(fi, call, k.value))
        if items is None:
            complete = False
            continue
        for name, v in items:
            out[name] = v
    return out, complete


def kwargs_open(call):
    """the call hands over keywords (or positions) that are not written at the call: f(**opts), f(*args) - `kwarg()` not finding a
    keyword there does not mean it is not passed"""
    return any(k.arg is None for k in call.keywords) or any(isinstance(a, ast.Starred) for a in call.args)


def params_of(fnode):
    a = fnode.args
    return [x.arg for x in a.posonlyargs + a.args], [x.arg for x in a.kwonlyargs], a.vararg, a.kwarg


def bind_args(fnode, call, bound=False):
    """map parameter name -> argument expression for a call to fnode (None when a default is used).
    Returns (mapping, errors)."""
    pos, kwonly, vararg, kwarg_ = params_of(fnode)
    if bound and pos:
        pos = pos[1:]
    m = {}
    errs = []
    star = any(isinstance(a, ast.Starred) for a in call.args)
    if not star:
        for i, a in enumerate(call.args):
            if i < len(pos):
                m[pos[i]] = a
            elif not vararg:
                errs.append(f"too many positional arguments ({len(call.args)} > {len(pos)})")
                break
    for k in call.keywords:
        if k.arg is None:
            continue
        if k.arg in m:
            errs.append(f"multiple values for '{k.arg}'")
        elif k.arg in pos or k.arg in kwonly:
            m[k.arg] = k.value
        elif not kwarg_:
            errs.append(f"unexpected keyword '{k.arg}'")
    ndef = len(fnode.args.defaults)
    allpos, _, _, _ = params_of(fnode)
    required = allpos[: len(allpos) - ndef]
    if bound and required:
        required = required[1:]
    dstar = any(k.arg is None for k in call.keywords)
    if not star and not dstar:
        for r in required:
            if r not in m:
                errs.append(f"missing required argument '{r}'")
        for p, d in zip(kwonly, fnode.args.kw_defaults):
            if d is None and p not in m:
                errs.append(f"missing required keyword-only argument '{p}'")
    return m, errs


# ----------------------------------------------------------------------------- constant-seeded linear paths
_UNDEC = object()


class OneOf:
    """a name known to hold one of a few literals (different labels set on different branches)"""

    def __init__(self, vals):
        self.vals = tuple(vals)

    def __eq__(self, o):
        return isinstance(o, OneOf) and set(map(repr, self.vals)) == set(map(repr, o.vals))

    def __hash__(self):
        return hash(tuple(sorted(map(repr, self.vals))))


class _NotNoneT:
    """marks a name that holds an object which is certainly not None (an array just built, a display): decides `x is None` only"""

    def __repr__(self):
        return "<not None>"


NOT_NONE = _NotNoneT()
_NEVER_NONE_CALLS = {"full", "zeros", "ones", "empty", "asarray", "array", "arange", "atleast_1d", "atleast_2d", "list", "tuple", "dict", "int", "float", "str",
                     "len", "zeros_like", "ones_like", "empty_like", "full_like", "linspace", "reshape", "ravel", "flatten", "astype", "copy", "sorted", "set"}


def const_test(e, consts):
    """evaluate a test expression under known constants; _UNDEC if it cannot be decided"""
    if isinstance(e, ast.Compare) and len(e.ops) == 1 and isinstance(e.ops[0], (ast.Is, ast.IsNot)) and isinstance(e.comparators[0], ast.Constant) \
            and e.comparators[0].value is None and isinstance(e.left, ast.Name) and consts.get(e.left.id) is NOT_NONE:
        return isinstance(e.ops[0], ast.IsNot)
    if any(v is NOT_NONE for v in consts.values()):
        consts = {k: v for k, v in consts.items() if v is not NOT_NONE}
    alts = [k for k, v in consts.items() if isinstance(v, OneOf)]
    if alts and any(isinstance(n, ast.Name) and n.id in alts for n in ast.walk(e)):
        # decided when every alternative gives the same answer
        k = next(a for a in alts if any(isinstance(n, ast.Name) and n.id == a for n in ast.walk(e)))
        res = []
        for v in consts[k].vals:
            c2 = dict(consts)
            c2[k] = v
            res.append(const_test(e, c2))
        if any(r is _UNDEC for r in res):
            return _UNDEC
        truth = [bool(r) for r in res]
        if all(truth) or not any(truth):
            return res[0] if all(repr(r) == repr(res[0]) for r in res) else truth[0]
        return _UNDEC
    if isinstance(e, ast.Constant):
        return e.value
    if isinstance(e, ast.Name):
        return consts[e.id] if e.id in consts else _UNDEC
    if isinstance(e, ast.Attribute):
        k = src(e)
        return consts[k] if k in consts else _UNDEC
    if isinstance(e, ast.UnaryOp) and isinstance(e.op, ast.Not):
        v = const_test(e.operand, consts)
        return _UNDEC if v is _UNDEC else (not v)
    if isinstance(e, ast.UnaryOp) and isinstance(e.op, (ast.USub, ast.UAdd)):
        v = const_test(e.operand, consts)
        if v is _UNDEC or isinstance(v, bool) or not isinstance(v, (int, float)):
            return _UNDEC
        return -v if isinstance(e.op, ast.USub) else v
    if isinstance(e, ast.BoolOp):
        vals = [const_test(v, consts) for v in e.values]
        if isinstance(e.op, ast.And):
            if any(v is not _UNDEC and not v for v in vals):
                return False
            return _UNDEC if any(v is _UNDEC for v in vals) else True
        if any(v is not _UNDEC and v for v in vals):
            return True
        return _UNDEC if any(v is _UNDEC for v in vals) else False
    if isinstance(e, ast.Call) and isinstance(e.func, ast.Name) and e.func.id == "isinstance" and len(e.args) == 2 and isinstance(e.args[0], ast.Name):
        if e.args[0].id not in consts:
            return _UNDEC
        v = consts[e.args[0].id]
        tn = [t.id for t in (e.args[1].elts if isinstance(e.args[1], ast.Tuple) else [e.args[1]]) if isinstance(t, ast.Name)]
        py = {"int": int, "list": list, "str": str, "float": float, "tuple": tuple, "dict": dict, "bool": bool}
        ts = tuple(py[t] for t in tn if t in py)
        if len(ts) != len(tn):
            return _UNDEC
        return isinstance(v, ts) and not (int in ts and bool not in ts and isinstance(v, bool))
    if isinstance(e, ast.Call) and isinstance(e.func, ast.Attribute) and not e.keywords and isinstance(e.func.value, (ast.Name, ast.Constant, ast.Call)):
        # label.lower() / label.strip() ...: computed for a known string
        from .desugar import STR_PURE
        if e.func.attr in STR_PURE:
            b = const_test(e.func.value, consts)
            args = [const_test(a, consts) for a in e.args]
            if isinstance(b, str) and all(isinstance(a, (str, int)) and not isinstance(a, bool) for a in args):
                try:
                    r_ = getattr(b, e.func.attr)(*args)
                except Exception:
                    return _UNDEC
                return r_ if isinstance(r_, (str, bool)) else _UNDEC
        return _UNDEC
    if isinstance(e, ast.Call) and isinstance(e.func, ast.Name) and e.func.id == "str" and len(e.args) == 1 and not e.keywords:
        b = const_test(e.args[0], consts)
        return b if isinstance(b, str) else _UNDEC
    if isinstance(e, ast.Subscript) and isinstance(e.value, ast.Dict) and all(isinstance(k, ast.Constant) for k in e.value.keys):
        k_ = const_test(e.slice, consts)
        if k_ is _UNDEC or isinstance(k_, OneOf):
            return _UNDEC
        hit = [v for k, v in zip(e.value.keys, e.value.values) if type(k.value) is type(k_) and k.value == k_]
        return const_test(hit[-1], consts) if hit else _UNDEC
    if isinstance(e, ast.Compare) and len(e.ops) == 1:
        l, r = const_test(e.left, consts), const_test(e.comparators[0], consts)
        if isinstance(e.comparators[0], (ast.Dict, ast.Set)) and l is not _UNDEC and isinstance(e.ops[0], (ast.In, ast.NotIn)):
            ks = e.comparators[0].keys if isinstance(e.comparators[0], ast.Dict) else e.comparators[0].elts
            if all(isinstance(k, ast.Constant) for k in ks):
                inside = any(type(k.value) is type(l) and k.value == l for k in ks)
                return inside if isinstance(e.ops[0], ast.In) else not inside
        if isinstance(e.comparators[0], (ast.Tuple, ast.List)) and l is not _UNDEC:
            items = [const_test(x, consts) for x in e.comparators[0].elts]
            if all(i is not _UNDEC for i in items):
                if isinstance(e.ops[0], ast.In):
                    return l in items
                if isinstance(e.ops[0], ast.NotIn):
                    return l not in items
        if l is _UNDEC or r is _UNDEC:
            return _UNDEC
        op = e.ops[0]
        try:
            if isinstance(op, ast.Eq):
                return l == r
            if isinstance(op, ast.NotEq):
                return l != r
            if isinstance(op, ast.Is):
                return l is r
            if isinstance(op, ast.IsNot):
                return l is not r
            if isinstance(op, ast.Lt):
                return l < r
            if isinstance(op, ast.Gt):
                return l > r
            if isinstance(op, ast.LtE):
                return l <= r
            if isinstance(op, ast.GtE):
                return l >= r
        except Exception:
            return _UNDEC
    return _UNDEC


def linear_path(body, consts):
    """statements executed for the given constants: decidable `if`s are replaced by the taken branch, everything else
    is kept; stops after the first top-level return/raise on the path."""
    out = []
    for s in body:
        if isinstance(s, ast.If):
            t = const_test(s.test, consts)
            if t is _UNDEC:
                out.append(s)
                continue
            sub = linear_path(s.body if t else s.orelse, consts)
            out.extend(sub)
            if sub and isinstance(sub[-1], (ast.Return, ast.Raise)):
                return out
            continue
        out.append(s)
        if isinstance(s, (ast.Return, ast.Raise)):
            return out
    return out


class PathFn:
    """a view of a function restricted to a linear path: supports expand()/assignments like a FuncInfo"""

    def __init__(self, fi, consts):
        self.fi = fi
        self.mod = fi.mod
        self.cls = fi.cls
        self.qual = fi.qual
        self.consts = dict(consts)
        self.stmts = linear_path(fi.node.body, consts)
        node = ast.FunctionDef(name=fi.node.name, args=fi.node.args, body=self.stmts or [ast.Pass()], decorator_list=[], returns=None)
        ast.copy_location(node, fi.node)
        self.node = node
        self._locals = getattr(fi, "_locals", None)

    def returns(self):
        return [s for s in self.stmts if isinstance(s, ast.Return)]


# ----------------------------------------------------------------------------- flow-sensitive expansion along a linear path
class _SubstEnv(ast.NodeTransformer):
    def __init__(self, env, bound=()):
        self.env = env
        self.bound = set(bound)

    def visit_Name(self, node):
        if isinstance(node.ctx, ast.Load) and node.id in self.env and node.id not in self.bound:
            return copy.deepcopy(self.env[node.id])
        return node

    def visit_Subscript(self, node):
        # d["k"] after `d["k"] = v` / `d.update({"k": v})` in the straight-line code before: the value stored there
        if isinstance(node.ctx, ast.Load) and isinstance(node.value, ast.Name) and node.value.id not in self.bound \
                and isinstance(node.slice, ast.Constant) and isinstance(node.slice.value, str):
            key = entry_key(node.value.id, node.slice.value)
            if key in self.env:
                # (the read is kept next to the value: rules that ask WHICH entry this is still see it)
                return ast.Call(func=ast.Name(id=ENTRY_VALUE, ctx=ast.Load()), args=[node, copy.deepcopy(self.env[key])], keywords=[])
        return self.generic_visit(node)

    def _comp(self, node):
        # comprehension variables shadow outer names
        names = set()
        for g in node.generators:
            for n in ast.walk(g.target):
                if isinstance(n, ast.Name):
                    names.add(n.id)
        sub = _SubstEnv(self.env, self.bound | names)
        for g in node.generators:
            g.iter = sub.visit(g.iter)
            g.ifs = [sub.visit(i) for i in g.ifs]
        if hasattr(node, "elt"):
            node.elt = sub.visit(node.elt)
        else:
            node.key = sub.visit(node.key)
            node.value = sub.visit(node.value)
        return node

    visit_ListComp = visit_GeneratorExp = visit_SetComp = visit_DictComp = _comp


def stored_names(stmt):
    out = set()
    for n in ast.walk(stmt):
        if isinstance(n, ast.Name) and isinstance(n.ctx, (ast.Store, ast.Del)):
            out.add(n.id)
    return out


SETDEFAULT = "__setdefault__"
BEFORE_STORE = "__entry_before_store__"
ENTRY_VALUE = "__entry__"           # __entry__(d["k"], value stored there)


def entry_key(d, k):
    return f"{d}[{k!r}]"


def _entry_store(env, d, k, value):
    """record `d[k] = value` for a dictionary that is not written out in env: later reads of d[k] see the value; expressions read
    BEFORE the store keep the old entry (marked, so that the two are not confused)"""
    key = entry_key(d, k)

    class Old(ast.NodeTransformer):
        def visit_Subscript(self, n):
            if isinstance(n.value, ast.Name) and n.value.id == d and isinstance(n.slice, ast.Constant) and n.slice.value == k and isinstance(n.ctx, ast.Load):
                return ast.Call(func=ast.Name(id=BEFORE_STORE, ctx=ast.Load()), args=[n], keywords=[])
            return self.generic_visit(n)

        def visit_Call(self, n):
            if isinstance(n.func, ast.Name) and n.func.id == BEFORE_STORE:
                return n
            if isinstance(n.func, ast.Name) and n.func.id == ENTRY_VALUE and len(n.args) == 2:
                # a read of an entry that had been stored before: now it is the value of THAT time
                return ast.Call(func=ast.Name(id=BEFORE_STORE, ctx=ast.Load()), args=[n], keywords=[]) \
                    if (isinstance(n.args[0], ast.Subscript) and isinstance(n.args[0].value, ast.Name) and n.args[0].value.id == d
                        and isinstance(n.args[0].slice, ast.Constant) and n.args[0].slice.value == k) else self.generic_visit(n)
            return self.generic_visit(n)
    v = _SubstEnv(env).visit(copy.deepcopy(value))
    v = Old().visit(v)
    for nm in list(env):
        if nm != key and any(isinstance(x, ast.Subscript) and isinstance(x.value, ast.Name) and x.value.id == d for x in ast.walk(env[nm])):
            env[nm] = Old().visit(copy.deepcopy(env[nm]))
    env[key] = ast.fix_missing_locations(v)


MAYBE_REPLACED = "__entry_maybe_replaced__"


def _entry_effects(env, s):
    """effect of a compound statement (if / for / try ..) on the dictionary entries recorded in env:
    `if "k" not in d: d["k"] = default` does nothing when d["k"] is known to have been stored; a store under a constant key makes that
    entry 'maybe replaced'; a store under a computed key (for k in d: d[k] = ..) makes every entry of d 'maybe replaced' (the recorded
    value stays visible inside the marker); removing entries (del / pop / clear) or an update that is not written out forgets them"""
    known = {}
    for key_ in env:
        if "[" in key_ and key_.endswith("]"):
            known.setdefault(key_.split("[", 1)[0], []).append(key_)
    if not known:
        return
    # the fill-in idiom on a key that is known to be present: no effect
    if isinstance(s, ast.If) and not s.orelse and isinstance(s.test, ast.Compare) and len(s.test.ops) == 1 and isinstance(s.test.ops[0], ast.NotIn) \
            and isinstance(s.test.left, ast.Constant) and isinstance(s.test.comparators[0], ast.Name) \
            and entry_key(s.test.comparators[0].id, s.test.left.value) in env \
            and all(isinstance(b, ast.Assign) and len(b.targets) == 1 and isinstance(b.targets[0], ast.Subscript) and isinstance(b.targets[0].value, ast.Name)
                    and b.targets[0].value.id == s.test.comparators[0].id and isinstance(b.targets[0].slice, ast.Constant)
                    and b.targets[0].slice.value == s.test.left.value for b in s.body):
        return

    def maybe(key_):
        v = env[key_]
        if not (isinstance(v, ast.Call) and isinstance(v.func, ast.Name) and v.func.id == MAYBE_REPLACED):
            env[key_] = ast.Call(func=ast.Name(id=MAYBE_REPLACED, ctx=ast.Load()), args=[v], keywords=[])
    for d_, keys in known.items():
        const_k, computed, forget = set(), False, False
        for n in ast.walk(s):
            if isinstance(n, ast.Subscript) and isinstance(n.value, ast.Name) and n.value.id == d_ and isinstance(n.ctx, (ast.Store, ast.Del)):
                if isinstance(n.ctx, ast.Del):
                    forget = True
                elif isinstance(n.slice, ast.Constant) and isinstance(n.slice.value, str):
                    const_k.add(n.slice.value)
                else:
                    computed = True
            elif isinstance(n, ast.Call) and isinstance(n.func, ast.Attribute) and isinstance(n.func.value, ast.Name) and n.func.value.id == d_ \
                    and n.func.attr in ("update", "pop", "popitem", "setdefault", "clear", "__setitem__", "__delitem__"):
                forget = True
            elif isinstance(n, ast.Name) and n.id == d_ and isinstance(n.ctx, (ast.Store, ast.Del)):
                forget = True
        if forget:
            for key_ in keys:
                env.pop(key_, None)
            continue
        for key_ in keys:
            if computed or any(key_ == entry_key(d_, k_) for k_ in const_k):
                maybe(key_)


def _entry_touchers(s):
    """names of dictionaries whose entries statement s may change in a way that is not followed"""
    out = set()
    for n in ast.walk(s):
        if isinstance(n, ast.Subscript) and isinstance(n.ctx, (ast.Store, ast.Del)) and isinstance(n.value, ast.Name):
            out.add(n.value.id)
        elif isinstance(n, ast.Call) and isinstance(n.func, ast.Attribute) and isinstance(n.func.value, ast.Name) \
                and n.func.attr in ("update", "pop", "popitem", "setdefault", "clear", "__setitem__", "__delitem__"):
            out.add(n.func.value.id)
    return out


def seq_env(stmts, upto=None, env=None, keep=()):
    """symbolic environment name -> defining expression (already substituted) after executing `stmts` in order;
    names written inside compound statements become opaque.  Stops before statement `upto` if given."""
    env = dict(env or {})
    for s in stmts:
        if s is upto:
            break
        if keep and stored_names(s) & set(keep) and not isinstance(s, (ast.For, ast.While, ast.If, ast.Try, ast.With)):
            for n in stored_names(s):
                env.pop(n, None)
            continue
        if isinstance(s, ast.Assign) and len(s.targets) == 1 and isinstance(s.targets[0], ast.Name):
            if (isinstance(s.value, ast.Dict) and not s.value.keys) or \
                    (isinstance(s.value, ast.Call) and isinstance(s.value.func, ast.Name) and s.value.func.id == "dict" and not s.value.args and not s.value.keywords):
                env[s.targets[0].id] = ast.Dict(keys=[], values=[])     # an option dictionary filled in below (stores that are not followed forget it)
            elif (isinstance(s.value, (ast.List, ast.Dict, ast.Set)) and not getattr(s.value, "elts", getattr(s.value, "keys", None))) or \
                    (isinstance(s.value, ast.Call) and isinstance(s.value.func, ast.Name) and s.value.func.id in ("list", "dict", "set") and not s.value.args and not s.value.keywords):
                env.pop(s.targets[0].id, None)  # mutable accumulator: keep the name opaque
            else:
                env[s.targets[0].id] = _SubstEnv(env).visit(copy.deepcopy(s.value))
                for n_ in _entry_touchers(s.value):
                    if n_ != s.targets[0].id:
                        env.pop(n_, None)           # x = d.pop("k"): d is no longer the dictionary written out
        elif isinstance(s, ast.Assign) and len(s.targets) == 1 and isinstance(s.targets[0], (ast.Tuple, ast.List)) \
                and isinstance(s.value, (ast.Tuple, ast.List)) and len(s.value.elts) == len(s.targets[0].elts) \
                and all(isinstance(t, ast.Name) for t in s.targets[0].elts):
            vals = [_SubstEnv(env).visit(copy.deepcopy(v)) for v in s.value.elts]
            for t, v in zip(s.targets[0].elts, vals):
                if (isinstance(v, (ast.List, ast.Dict, ast.Set)) and not getattr(v, "elts", getattr(v, "keys", None))) or \
                        (isinstance(v, ast.Call) and isinstance(v.func, ast.Name) and v.func.id in ("list", "dict", "set") and not v.args and not v.keywords):
                    env.pop(t.id, None)     # mutable accumulator: keep the name opaque
                else:
                    env[t.id] = v
        elif isinstance(s, ast.Assign) and len(s.targets) == 1 and isinstance(s.targets[0], (ast.Tuple, ast.List)) \
                and all(isinstance(t, ast.Name) for t in s.targets[0].elts):
            # tuple unpacking of a call: name -> call(...)[i]
            v = _SubstEnv(env).visit(copy.deepcopy(s.value))
            for i, t in enumerate(s.targets[0].elts):
                env[t.id] = ast.Subscript(value=copy.deepcopy(v), slice=ast.Constant(value=i), ctx=ast.Load())
        elif isinstance(s, ast.AnnAssign) and isinstance(s.target, ast.Name) and s.value is not None:
            env[s.target.id] = _SubstEnv(env).visit(copy.deepcopy(s.value))
        elif isinstance(s, ast.AugAssign) and isinstance(s.target, ast.Name) and s.target.id in env:
            env[s.target.id] = ast.BinOp(left=env[s.target.id], op=s.op, right=_SubstEnv(env).visit(copy.deepcopy(s.value)))
        elif _dict_update(s) is not None and _dict_update(s)[0] in env and _as_dict_literal(env[_dict_update(s)[0]]) is not None:
            # d.update(k=v): the dictionary value with the entries added / replaced
            nm_, items_ = _dict_update(s)
            d_ = _as_dict_literal(env[nm_])
            keys = [k.value for k in d_.keys]
            vals = list(d_.values)
            for k_, v_ in items_:
                v_ = _SubstEnv(env).visit(copy.deepcopy(v_))
                if k_ in keys:
                    vals[keys.index(k_)] = v_
                else:
                    keys.append(k_)
                    vals.append(v_)
            env[nm_] = ast.Dict(keys=[ast.Constant(value=k_) for k_ in keys], values=vals)
        elif isinstance(s, ast.Expr) and isinstance(s.value, ast.Call) and isinstance(s.value.func, ast.Attribute) and s.value.func.attr == "setdefault" \
                and isinstance(s.value.func.value, ast.Name) and s.value.func.value.id in env and len(s.value.args) == 2 and not s.value.keywords \
                and isinstance(s.value.args[0], ast.Constant) and isinstance(s.value.args[0].value, str):
            # d.setdefault("k", v): the dictionary with k filled in where it is missing (kept as a marked expression; bind_call reads it)
            nm_ = s.value.func.value.id
            env[nm_] = ast.Call(func=ast.Name(id=SETDEFAULT, ctx=ast.Load()), args=[env[nm_], s.value.args[0], _SubstEnv(env).visit(copy.deepcopy(s.value.args[1]))], keywords=[])
        elif isinstance(s, ast.Assign) and len(s.targets) == 1 and isinstance(s.targets[0], ast.Subscript) and isinstance(s.targets[0].value, ast.Name) \
                and s.targets[0].value.id in env and isinstance(s.targets[0].slice, ast.Constant) and isinstance(s.targets[0].slice.value, str) \
                and _as_dict_literal(env[s.targets[0].value.id]) is not None:
            # d["k"] = v
            d_ = _as_dict_literal(env[s.targets[0].value.id])
            keys = [k.value for k in d_.keys]
            vals = list(d_.values)
            v_ = _SubstEnv(env).visit(copy.deepcopy(s.value))
            k_ = s.targets[0].slice.value
            if k_ in keys:
                vals[keys.index(k_)] = v_
            else:
                keys.append(k_)
                vals.append(v_)
            env[s.targets[0].value.id] = ast.Dict(keys=[ast.Constant(value=x) for x in keys], values=vals)
        elif isinstance(s, ast.Assign) and len(s.targets) == 1 and isinstance(s.targets[0], ast.Subscript) and isinstance(s.targets[0].value, ast.Name) \
                and s.targets[0].value.id not in env and isinstance(s.targets[0].slice, ast.Constant) and isinstance(s.targets[0].slice.value, str):
            # d["k"] = v on a dictionary we only know by name (a parameter): the entry becomes a value of its own
            _entry_store(env, s.targets[0].value.id, s.targets[0].slice.value, s.value)
        elif _dict_update(s) is not None and _dict_update(s)[0] not in env:
            nm_, items_ = _dict_update(s)
            vals_ = [(k_, v_) for k_, v_ in items_]
            for k_, v_ in vals_:
                if isinstance(k_, str):
                    _entry_store(env, nm_, k_, v_)
        elif isinstance(s, ast.Assign) and len(s.targets) == 1 and isinstance(s.targets[0], ast.Subscript) and isinstance(s.targets[0].value, ast.Name) \
                and s.targets[0].value.id in env and (is_full_slice(s.targets[0].slice) or (isinstance(s.targets[0].slice, ast.Constant) and s.targets[0].slice.value is Ellipsis)):
            # X[:] = v / X[...] = v : every element replaced (v broadcast into the shape of X)
            env[s.targets[0].value.id] = _SubstEnv(env).visit(copy.deepcopy(s.value))
        elif isinstance(s, ast.Assign) and len(s.targets) == 1 and _masked_store(s.targets[0], env) is not None:
            # X[mask] = v  /  X[:, mask] = v   ->   X = where(mask broadcast over the other axes, v, X)   (functional form of the update)
            name, mask = _masked_store(s.targets[0], env)
            env[name] = ast.Call(func=ast.Attribute(value=ast.Name(id="np", ctx=ast.Load()), attr="where", ctx=ast.Load()),
                                 args=[mask, _SubstEnv(env).visit(copy.deepcopy(s.value)), env[name]], keywords=[])
        else:
            merged = _if_dict_merge(env, s, keep) if isinstance(s, ast.If) else {}
            for n in stored_names(s):
                env.pop(n, None)
            for n in _entry_touchers(s):
                env.pop(n, None)                    # entries stored / removed in a way that is not followed: the dictionary is not known any more
            _entry_effects(env, s)
            env.update(merged)
    return env


def _terminates(stmts):
    return bool(stmts) and isinstance(stmts[-1], (ast.Return, ast.Raise, ast.Continue, ast.Break))


def _if_dict_merge(env, s, keep=()):
    """`if T: d["k"] = v` and its relatives on a dictionary that is written out in env: the dictionary after the statement, an entry that
    only one branch stores written `v if T else <left out>` (what ** then hands over, or does not).  {} when the statement is not of
    that kind."""
    cand = [n for n in sorted(_entry_touchers(s) | stored_names(s)) if "[" not in n]
    base = {n for n in cand if n in env and _as_dict_literal(env[n]) is not None}
    if not cand:
        return {}
    e1 = seq_env(s.body, env=env, keep=keep)
    e2 = seq_env(s.orelse, env=env, keep=keep)
    t1, t2 = _terminates(s.body), _terminates(s.orelse)
    if t1 and t2:
        return {}
    test = _SubstEnv(env).visit(copy.deepcopy(s.test))
    ntest = ast.UnaryOp(op=ast.Not(), operand=test)
    if isinstance(test, ast.Compare) and len(test.ops) == 1 and isinstance(test.ops[0], (ast.Is, ast.IsNot)):
        ntest = ast.Compare(left=test.left, ops=[ast.IsNot() if isinstance(test.ops[0], ast.Is) else ast.Is()], comparators=test.comparators)
    out = {}
    absent = ast.Name(id=CALLEE_DEFAULT, ctx=ast.Load())
    for n in cand:
        a, b = e1.get(n), e2.get(n)
        da, db = (_as_dict_literal(a) if a is not None else None), (_as_dict_literal(b) if b is not None else None)
        if t1 or t2:
            d = db if t1 else da
            if d is not None and (n in base or n in stored_names(s)):
                out[n] = d
            continue
        if da is None or db is None:
            continue
        ka, kb = [k.value for k in da.keys], [k.value for k in db.keys]
        keys, vals = [], []
        for k in ka + [k for k in kb if k not in ka]:
            va = da.values[ka.index(k)] if k in ka else None
            vb = db.values[kb.index(k)] if k in kb else None
            if va is not None and vb is not None:
                v = va if dump(va) == dump(vb) else ast.IfExp(test=test, body=va, orelse=vb)
            elif va is not None:
                v = ast.IfExp(test=test, body=va, orelse=absent)
            else:
                v = ast.IfExp(test=ntest, body=vb, orelse=absent)
            keys.append(ast.Constant(value=k))
            vals.append(v)
        out[n] = ast.Dict(keys=keys, values=vals)
    return out


MASK_CALLS = {"isnan", "isinf", "isfinite", "isclose", "logical_and", "logical_or", "logical_not", "isin", "iscomplex", "isreal"}
ROWMASK, COLMASK = "__rowmask__", "__colmask__"


def is_mask_expr(e):
    """a boolean array by construction: comparison, ~ / & / | of such, np.isnan-like call"""
    if isinstance(e, ast.Compare):
        return True
    if isinstance(e, ast.UnaryOp) and isinstance(e.op, (ast.Invert, ast.Not)):
        return is_mask_expr(e.operand)
    if isinstance(e, ast.BinOp) and isinstance(e.op, (ast.BitAnd, ast.BitOr, ast.BitXor)):
        return is_mask_expr(e.left) and is_mask_expr(e.right)
    if isinstance(e, ast.Call) and isinstance(e.func, ast.Attribute) and e.func.attr in MASK_CALLS:
        return True
    return False


def _masked_store(target, env):
    """(array name, broadcast mask expression) for a store through a boolean mask into a name with a known value, else None.
    `__rowmask__(m)` stands for m broadcast along axis 0 (m[:, None, ...]; plain m for a vector), `__colmask__(m)` for m[None, :]."""
    if not (isinstance(target, ast.Subscript) and isinstance(target.value, ast.Name) and target.value.id in env):
        return None
    sl = target.slice
    which = ROWMASK
    if isinstance(sl, ast.Tuple):
        if len(sl.elts) == 2 and is_full_slice(sl.elts[0]):
            sl, which = sl.elts[1], COLMASK
        elif len(sl.elts) == 2 and is_full_slice(sl.elts[1]):
            sl = sl.elts[0]
        else:
            return None
    m = _SubstEnv(env).visit(copy.deepcopy(sl))
    if not is_mask_expr(m):
        return None
    return target.value.id, ast.Call(func=ast.Name(id=which, ctx=ast.Load()), args=[m], keywords=[])


def at(stmts, stmt, expr, env0=None):
    """expr as seen just before `stmt` on the linear path, with every name replaced by its definition"""
    env = seq_env(stmts, upto=stmt, env=env0)
    return _SubstEnv(env).visit(copy.deepcopy(expr))


def at_node(fi, node, expr, consts=None):
    """expr as seen at `node` (anywhere inside fi): names defined by the straight-line prefix of the function body are replaced
    by their definitions; names written inside the compound statement that contains `node` stay opaque."""
    body = linear_path(fi.node.body, consts or {}) if consts is not None else fi.node.body
    top = None
    for s in body:
        if any(n is node for n in ast.walk(s)):
            top = s
            break
    if top is None:
        return expand(fi, expr)
    env = seq_env(body, upto=top)
    if not isinstance(top, (ast.Assign, ast.Expr, ast.Return, ast.AnnAssign, ast.AugAssign)):
        for n in stored_names(top):
            env.pop(n, None)
    return _SubstEnv(env).visit(copy.deepcopy(expr))


# ----------------------------------------------------------------------------- nested flow-sensitive environments
def _contains(s, node):
    return any(n is node for n in ast.walk(s))


def env_at(body, node, env=None, keep=()):
    """symbolic environment just before the simple statement (or compound header) that contains `node`, descending into loops/ifs/try:
    names written anywhere inside an enclosing compound statement are opaque at its entry and re-defined by the statements that
    precede `node` inside it."""
    env = dict(env or {})
    for s in body:
        if _contains(s, node):
            subs = []
            for field in ("body", "orelse", "finalbody"):
                sub = getattr(s, field, None)
                if isinstance(sub, list) and sub and isinstance(sub[0], ast.stmt):
                    subs.append(sub)
            if isinstance(s, ast.Try):
                for h in s.handlers:
                    subs.append(h.body)
            for sub in subs:
                if any(_contains(x, node) for x in sub):
                    if isinstance(s, (ast.For, ast.While)):
                        for n in stored_names(s):
                            env.pop(n, None)
                    return env_at(sub, node, env, keep)
            return env  # node is in the header / the simple statement itself
        env = seq_env([s], env=env, keep=keep)
    return env


PROG = None  # set by check.py: enables helper inlining in expr_at


def _simple_body(fnode):
    """statements of a helper that can be inlined: straight-line assignments followed by one return (docstring allowed)"""
    body = list(fnode.body)
    if body and isinstance(body[0], ast.Expr) and isinstance(body[0].value, ast.Constant) and isinstance(body[0].value.value, str):
        body = body[1:]
    if not body or not isinstance(body[-1], ast.Return) or body[-1].value is None:
        return None
    keep = []
    for s in body[:-1]:
        # a guard that only raises, and log calls, do not contribute to the returned value
        if isinstance(s, ast.If) and not s.orelse and all(isinstance(x, ast.Raise) for x in s.body):
            continue
        if isinstance(s, ast.Expr) and isinstance(s.value, ast.Call) and isinstance(s.value.func, ast.Attribute) and isinstance(s.value.func.value, ast.Name) \
                and s.value.func.value.id in ("logger", "logging", "warnings"):
            continue
        if isinstance(s, ast.Expr) and _dict_update(s) is not None:
            keep.append(s)
            continue
        if not isinstance(s, (ast.Assign, ast.AnnAssign)):
            return None
        keep.append(s)
    if fnode.args.vararg or fnode.args.kwarg:
        return None
    return keep + [body[-1]]


def _dict_update(s):
    """(name, [(key, value)]) for a statement `name.update(k=v, ...)` / `name.update({"k": v})` / `name["k"] = v`, else None"""
    if isinstance(s, ast.Expr) and isinstance(s.value, ast.Call) and isinstance(s.value.func, ast.Attribute) and s.value.func.attr == "update" \
            and isinstance(s.value.func.value, ast.Name):
        c = s.value
        items = []
        if len(c.args) == 1 and isinstance(c.args[0], ast.Dict) and all(isinstance(k, ast.Constant) for k in c.args[0].keys):
            items += [(k.value, v) for k, v in zip(c.args[0].keys, c.args[0].values)]
        elif len(c.args) == 1 and isinstance(c.args[0], ast.DictComp) and dictcomp_items(c.args[0]) is not None:
            items += dictcomp_items(c.args[0])
        elif c.args:
            return None
        if any(k.arg is None for k in c.keywords):
            return None
        items += [(k.arg, k.value) for k in c.keywords]
        return c.func.value.id, items
    return None


def _as_dict_literal(e):
    """Dict literal with constant keys for {..} / dict(k=v, ..), else None"""
    if isinstance(e, ast.Dict) and all(isinstance(k, ast.Constant) for k in e.keys):
        return e
    if isinstance(e, ast.Call) and isinstance(e.func, ast.Name) and e.func.id == "dict" and not e.args and all(k.arg for k in e.keywords):
        return ast.Dict(keys=[ast.Constant(value=k.arg) for k in e.keywords], values=[k.value for k in e.keywords])
    return None


class _Inline(ast.NodeTransformer):
    def __init__(self, prog, fi, depth):
        self.prog, self.fi, self.depth = prog, fi, depth

    def visit_Call(self, node):
        self.generic_visit(node)
        if self.depth <= 0:
            return node
        try:
            r = self.prog.resolve_call(self.fi, node)
        except Exception:
            return node
        if not isinstance(r, FuncInfo) or r.node is getattr(self.fi, "node", None):
            return node
        if r.node.decorator_list and not getattr(r, "is_static", False) and not all(
                src(d.func if isinstance(d, ast.Call) else d).split(".")[-1] in ("lru_cache", "cache") for d in r.node.decorator_list):
            return node             # (a memoised function returns the value of its body: as a VALUE it may be written out)
        bound = False
        receiver = None
        if r.cls is not None and not getattr(r, "is_static", False):
            # an instance method called on `self` from a method of the same object: `self` means the same thing in both bodies;
            # called on a parameter annotated with the class (module-level helper taking the object): `self` becomes that parameter
            if getattr(r, "is_classmethod", False) or getattr(r, "is_property", False) or not (isinstance(node.func, ast.Attribute) and isinstance(node.func.value, ast.Name)):
                return node
            if node.func.value.id == "self" and getattr(self.fi, "cls", None) is not None:
                pass
            elif self.prog.param_class(self.fi, node.func.value.id) is not None:
                receiver = node.func.value.id
            else:
                return node
            bound = True
        m, errs = bind_args(r.node, node, bound=bound)
        if errs:
            return node
        body = _simple_body(r.node)
        if body is None:
            # branches on a flag that this call passes as a constant: decide them, then the body may be straight-line
            consts = {p_: a_.value for p_, a_ in m.items() if isinstance(a_, ast.Constant) and not any(
                isinstance(n_, ast.Name) and n_.id == p_ and isinstance(n_.ctx, ast.Store) for n_ in ast.walk(r.node))}
            if consts:
                pruned = prune(r.node.body, consts)
                fake = ast.FunctionDef(name=r.node.name, args=r.node.args, body=pruned or [ast.Pass()], decorator_list=[], returns=None)
                body = _simple_body(fake)
        if body is None:
            return node
        pos, kwo, _, _ = params_of(r.node)
        env = {}
        a = r.node.args
        defaults = dict(zip(pos[len(pos) - len(a.defaults):], a.defaults))
        defaults.update({k.arg: d for k, d in zip(a.kwonlyargs, a.kw_defaults) if d is not None})
        for prm in (pos[1:] if bound else pos) + kwo:
            if prm in m:
                env[prm] = m[prm]
            elif prm in defaults:
                env[prm] = defaults[prm]
            else:
                return node
        env = seq_env(body[:-1], env=env)
        ret = _SubstEnv(env).visit(copy.deepcopy(body[-1].value))
        ret = _Inline(self.prog, r, self.depth - 1).visit(ret)
        if receiver is not None:
            ret = _SubstEnv({"self": ast.Name(id=receiver, ctx=ast.Load())}).visit(ret)
        return ast.copy_location(ret, node)


def inline_calls(prog, fi, e, depth=2):
    """replace calls of small package helpers (straight-line body + one return) by their returned expression"""
    return _Inline(prog, fi, depth).visit(e)


class _Fold(ast.NodeTransformer):
    """(a, b)[0] -> a ; [a, b][1] -> b ; X[..., slice(a, b)] -> X[..., a:b] ; slice(a, b).start -> a"""

    def visit_Attribute(self, node):
        self.generic_visit(node)
        v = node.value
        if node.attr in ("start", "stop") and isinstance(v, ast.Call) and isinstance(v.func, ast.Name) and v.func.id == "slice" and 2 <= len(v.args) <= 3:
            return v.args[0] if node.attr == "start" else v.args[1]
        return node

    def visit_Call(self, node):
        self.generic_visit(node)
        f = node.func
        # int(np.argmin(..)) / int(len(..)): the value is an integer already
        if isinstance(f, ast.Name) and f.id == "int" and len(node.args) == 1 and not node.keywords and isinstance(node.args[0], ast.Call) \
                and src(node.args[0].func).split(".")[-1] in _INT_VALUED and not any(k.arg == "axis" for k in node.args[0].keywords):
            return node.args[0]
        # np.asarray(x) / np.asanyarray(x) without dtype: the same values
        if isinstance(f, ast.Attribute) and f.attr in ("asarray", "asanyarray") and isinstance(f.value, ast.Name) and f.value.id in ("np", "numpy") \
                and len(node.args) == 1 and not node.keywords:
            return node.args[0]
        # bool(<comparison / and / or / not>): the test itself
        if isinstance(f, ast.Name) and f.id == "bool" and len(node.args) == 1 and not node.keywords and isinstance(node.args[0], (ast.Compare, ast.BoolOp)) :
            return node.args[0]
        # getattr(obj, "name") -> obj.name
        if isinstance(f, ast.Name) and f.id == "getattr" and len(node.args) == 2 and not node.keywords and isinstance(node.args[1], ast.Constant) \
                and isinstance(node.args[1].value, str) and node.args[1].value.isidentifier():
            return ast.copy_location(ast.Attribute(value=node.args[0], attr=node.args[1].value, ctx=ast.Load()), node)
        # (lambda a, b: body)(x, y) -> body with a := x, b := y   (positional, no defaults / stars)
        if isinstance(f, ast.Lambda) and not node.keywords and not any(isinstance(a, ast.Starred) for a in node.args):
            la = f.args
            if not (la.vararg or la.kwarg or la.kwonlyargs or la.defaults or la.posonlyargs) and len(la.args) == len(node.args):
                env = {a.arg: v for a, v in zip(la.args, node.args)}
                body = copy.deepcopy(f.body)
                return ast.copy_location(_Fold().visit(_SubstEnv(env).visit(body) if env else body), node)
        return node

    def visit_Subscript(self, node):
        self.generic_visit(node)

        def as_slice(e):
            if isinstance(e, ast.Call) and isinstance(e.func, ast.Name) and e.func.id == "slice" and 1 <= len(e.args) <= 3 and not e.keywords:
                a = list(e.args)
                if len(a) == 1:
                    return ast.Slice(lower=None, upper=a[0], step=None)
                return ast.Slice(lower=a[0], upper=a[1], step=a[2] if len(a) == 3 else None)
            return e
        if isinstance(node.slice, ast.Tuple):
            node.slice.elts = [as_slice(x) for x in node.slice.elts]
        else:
            node.slice = as_slice(node.slice)
        # {"a": x, "b": y}["a"] -> x
        if isinstance(node.value, ast.Dict) and isinstance(node.slice, ast.Constant) and all(isinstance(k, ast.Constant) for k in node.value.keys):
            for k, v in zip(node.value.keys, node.value.values):
                if k.value == node.slice.value:
                    return v
        if isinstance(node.value, (ast.Tuple, ast.List)) and isinstance(node.slice, ast.Constant) and isinstance(node.slice.value, int) \
                and -len(node.value.elts) <= node.slice.value < len(node.value.elts) and not any(isinstance(e, ast.Starred) for e in node.value.elts):
            return node.value.elts[node.slice.value]
        # X[:n][k] -> X[k]  and  X[m:][k] -> X[m + k]   (literal bounds, 0 <= k < n: the first items of a sequence)
        if isinstance(node.value, ast.Subscript) and isinstance(node.value.slice, ast.Slice) and isinstance(node.slice, ast.Constant) \
                and isinstance(node.slice.value, int) and node.slice.value >= 0 and node.value.slice.step is None:
            lo, up = node.value.slice.lower, node.value.slice.upper
            lo_v = 0 if lo is None else (lo.value if isinstance(lo, ast.Constant) and isinstance(lo.value, int) and lo.value >= 0 else None)
            up_ok = up is None or (isinstance(up, ast.Constant) and isinstance(up.value, int) and lo_v is not None and node.slice.value < up.value - lo_v)
            if lo_v is not None and up_ok:
                return ast.Subscript(value=node.value.value, slice=ast.Constant(value=lo_v + node.slice.value), ctx=node.ctx)
        # X[a, b, :][s] -> X[a, b, s]   (exactly one full slice, all other indices scalars)
        if isinstance(node.value, ast.Subscript) and not isinstance(node.slice, ast.Tuple):
            inner = index_elts(node.value)
            full = [i for i, x in enumerate(inner) if is_full_slice(x)]
            scal = [x for x in inner if not isinstance(x, ast.Slice)]
            if len(full) == 1 and len(scal) == len(inner) - 1 and all(isinstance(x, (ast.Constant, ast.Name)) and not (isinstance(x, ast.Constant) and x.value in (None, Ellipsis)) for x in scal) \
                    and (len(inner) > 1):
                new_elts = list(inner)
                new_elts[full[0]] = node.slice
                return ast.Subscript(value=node.value.value, slice=ast.Tuple(elts=new_elts, ctx=ast.Load()), ctx=node.ctx)
        # (e(x) for x in [a, b, c])[k] -> e(k-th element)   (tuple-unpacking of a generator / comprehension over a literal list)
        v = node.value
        if isinstance(v, (ast.ListComp, ast.GeneratorExp)) and len(v.generators) == 1 and not v.generators[0].ifs and isinstance(v.generators[0].target, ast.Name) \
                and isinstance(v.generators[0].iter, (ast.List, ast.Tuple)) and isinstance(node.slice, ast.Constant) and isinstance(node.slice.value, int) \
                and 0 <= node.slice.value < len(v.generators[0].iter.elts):
            g = v.generators[0]
            return _SubstEnv({g.target.id: g.iter.elts[node.slice.value]}).visit(copy.deepcopy(v.elt))
        # [e(j) for j in range(n)][k] -> e(k)   /  range(a, b): e(a + k)
        if isinstance(v, ast.ListComp) and len(v.generators) == 1 and not v.generators[0].ifs and isinstance(v.generators[0].target, ast.Name) \
                and not isinstance(node.slice, (ast.Slice, ast.Tuple)) and not (isinstance(node.slice, ast.Constant) and isinstance(node.slice.value, int) and node.slice.value < 0):
            g = v.generators[0]
            it = g.iter
            if isinstance(it, ast.Call) and isinstance(it.func, ast.Name) and it.func.id == "range" and 1 <= len(it.args) <= 2 and not it.keywords:
                k = node.slice
                if len(it.args) == 2 and not (isinstance(it.args[0], ast.Constant) and it.args[0].value == 0):
                    k = ast.BinOp(left=copy.deepcopy(it.args[0]), op=ast.Add(), right=k)
                return _SubstEnv({g.target.id: k}).visit(copy.deepcopy(v.elt))
        return node


def fold(e):
    return _Fold().visit(e)


_ENV_CACHE = {}


def expr_at(fi, node, expr, keep=()):
    """`expr` evaluated symbolically at the program point of `node` inside fi; names in `keep` stay symbolic"""
    key = (id(fi.node), id(node), tuple(keep))
    hit = _ENV_CACHE.get(key)
    if hit is None or hit[0] is not fi.node or hit[1] is not node:
        hit = (fi.node, node, env_at(fi.node.body, node, keep=keep))      # the nodes are kept alive so that ids cannot be reused
        if len(_ENV_CACHE) > 4000:
            _ENV_CACHE.clear()
        _ENV_CACHE[key] = hit
    env = hit[2]
    out = fold(_SubstEnv(env).visit(copy.deepcopy(expr)))
    if PROG is not None:
        out = fold(inline_calls(PROG, fi, out))
    return out


# ----------------------------------------------------------------------------- table access paths
SHAPE_ONLY = {"reshape", "flatten", "ravel", "squeeze", "copy", "astype"}


class Access:
    """element(s) of a table parameter: table name, column (order) expression, row (pole) expression (None = all rows)"""

    def __init__(self, table, col, row, extra=None):
        self.table, self.col, self.row = table, col, row

    def key(self):
        return (self.table, dump(self.col) if self.col is not None else None, dump(self.row) if self.row is not None else None)

    def __repr__(self):
        return f"{self.table}[row={src(self.row) if self.row is not None else ':'}, col={src(self.col) if self.col is not None else ':'}]"


def access_path(e, tables):
    """decompose X[:, C].reshape(..)[R] / X[:, C][R, :] / X[R, C] / X[R, C, :] into Access; None if e is not such a path"""
    chain = []
    cur = e
    while True:
        if isinstance(cur, ast.Call) and isinstance(cur.func, ast.Attribute) and cur.func.attr in SHAPE_ONLY:
            cur = cur.func.value
        elif isinstance(cur, ast.Subscript):
            chain.append(index_elts(cur))
            cur = cur.value
        else:
            break
    if isinstance(cur, ast.Name) and cur.id in tables:
        tname = cur.id
    elif isinstance(cur, ast.Attribute) and src(cur) in tables:
        tname = src(cur)
    else:
        return None
    chain.reverse()
    col = row = None
    state = "table"  # table -> (rows x cols [x comps]) ; column -> rows [x comps]
    for idx in chain:
        idx = [i for i in idx]
        if state == "table":
            if len(idx) >= 2:
                r, c = idx[0], idx[1]
                if not is_full_slice(c):
                    col = c
                if not is_full_slice(r):
                    row = r
                state = "done" if (col is not None and row is not None) else ("column" if col is not None else "table-rowsel")
            elif len(idx) == 1:
                if not is_full_slice(idx[0]):
                    row = idx[0]
                state = "table-rowsel"
        elif state == "column":
            r = idx[0]
            if not is_full_slice(r):
                row = r
                state = "done"
        elif state == "table-rowsel":
            # X[r] then [c]
            c = idx[0]
            if not is_full_slice(c):
                col = c
                state = "done"
        else:
            # further indexing of a selected element (component selection): ignore slices, refuse others
            if not all(is_full_slice(i) for i in idx):
                return None
    return Access(tname, col, row)


def prune(body, consts, subst=False, fi=None):
    """copy of `body` in which every `if` decidable under `consts` is replaced by the taken branch, recursively inside loops,
    try and with blocks (compound nodes are shallow-copied, simple statements are shared with the original tree).
    subst: names known to hold a literal at a statement are written as that literal there.
    fi: the function the statements belong to - lets `label = helper(label)` be computed when the helper returns a constant for it."""
    global _PRUNE_SUBST, _PRUNE_FI
    old = _PRUNE_SUBST, _PRUNE_FI
    _PRUNE_SUBST = subst
    if fi is not None:
        _PRUNE_FI = fi
    try:
        return _prune(body, consts)[0]
    finally:
        _PRUNE_SUBST, _PRUNE_FI = old


_PRUNE_SUBST = False
_PRUNE_FI = None


def const_call(fi, call, consts, numbers=False):
    """_const_call for a call written in function fi (numbers: a numeric constant counts as a result too)"""
    global _PRUNE_FI
    old = _PRUNE_FI, _CONST_CALL_NUMBERS[0]
    _PRUNE_FI = fi
    _CONST_CALL_NUMBERS[0] = numbers
    try:
        return _const_call(call, consts)
    finally:
        _PRUNE_FI, _CONST_CALL_NUMBERS[0] = old


_INT_VALUED = {"argmin", "argmax", "nanargmin", "nanargmax", "len", "searchsorted", "index", "count_nonzero", "argsort", "flatnonzero"}
_ARRAY_OF = {"asarray", "asanyarray", "ascontiguousarray", "asfarray", "atleast_1d"}


def retyped_param(fi, x, pname):
    """x is the parameter pname of fi, possibly after conversions of type / container that keep every value (int(p), list(p),
    [int(o) for o in p], np.atleast_1d(p), a local name given such values on every path): True; False when x is made of something
    else; None when it cannot be told"""
    x = uncoerce(x)
    if isinstance(x, ast.Name) and x.id == pname:
        return True
    names = {n.id for n in ast.walk(x) if isinstance(n, ast.Name)} - {"np", "numpy", "int", "float", "list", "tuple"}
    if not names:
        return None
    params = set(params_of(fi.node)[0] + params_of(fi.node)[1])
    dep = _depends_on(fi.node, {pname}, data_only=True) | {pname}
    if names <= dep and not (names & (params - {pname})):
        # made of pname only: every assignment on the way must be a value-keeping conversion
        amap = assignments(fi)
        for nm in names - {pname}:
            for st, v in amap.get(nm, []):
                if v is None:
                    return None
                vv = uncoerce(v)
                ok = isinstance(vv, ast.Name) or (isinstance(vv, ast.Call) and src(vv.func).split(".")[-1] in ("int", "float", "list", "tuple", "asarray", "array", "atleast_1d", "ravel", "reshape", "tolist", "astype")) \
                    or isinstance(vv, (ast.ListComp, ast.IfExp))
                if not ok:
                    return None
        return True
    if not (names & dep):
        return False
    return None


class _Uncoerce(ast.NodeTransformer):
    def visit_Call(self, n):
        self.generic_visit(n)
        nm = src(n.func).split(".")[-1]
        if isinstance(n.func, ast.Name) and n.func.id == "float" and len(n.args) == 1 and not n.keywords and not isinstance(n.args[0], ast.Constant):
            return n.args[0]
        if isinstance(n.func, ast.Name) and n.func.id == "int" and len(n.args) == 1 and not n.keywords and isinstance(n.args[0], ast.Call) \
                and src(n.args[0].func).split(".")[-1] in _INT_VALUED:
            return n.args[0]                # already an integer
        if nm in _ARRAY_OF and src(n.func).split(".")[0] in ("np", "numpy") and len(n.args) == 1 and all(k.arg in ("dtype", "order") for k in n.keywords):
            return n.args[0]
        if isinstance(n.func, ast.Attribute) and n.func.attr in ("item", "tolist") and not n.args and not n.keywords:
            return n.func.value
        return n

    def _comp(self, n):
        self.generic_visit(n)
        # [float(v) for v in X] / [int(v) for v in X]: X, element by element
        if len(n.generators) == 1 and not n.generators[0].ifs and isinstance(n.generators[0].target, ast.Name):
            v = n.generators[0].target.id
            e = n.elt
            if isinstance(e, ast.Call) and isinstance(e.func, ast.Name) and e.func.id in ("float", "int") and len(e.args) == 1 and not e.keywords:
                e = e.args[0]
            if isinstance(e, ast.Name) and e.id == v:
                return n.generators[0].iter
        return n

    visit_ListComp = _comp


def uncoerce(e):
    """e without the conversions that keep every value: float(x), int(<integer-valued call>), np.asarray(x[, dtype]), .item(),
    [float(v) for v in X]"""
    return ast.fix_missing_locations(_Uncoerce().visit(copy.deepcopy(e))) if e is not None else None


def strip_coercion(e):
    """int(x) / float(x) / str(x) / np.float64(x) ..: x - a conversion of type keeps what the user set"""
    while isinstance(e, ast.Call) and len(e.args) == 1 and not e.keywords and src(e.func).split(".")[-1] in (
            "int", "float", "str", "float64", "int64", "int32", "float32", "index", "intp"):
        e = e.args[0]
    return e


def keeps_labels(fi, e, pname, labels):
    """e is `helper(pname)` and the helper gives back each of the labels unchanged (a normaliser of spellings): True; False when it
    turns one of them into another label; None when it cannot be computed"""
    if not (isinstance(e, ast.Call) and len(e.args) >= 1 and isinstance(e.args[0], ast.Name) and e.args[0].id == pname):
        return None
    res = [const_call(fi, e, {pname: l}) for l in labels]
    if any(r is _UNDEC for r in res):
        return None
    return all(r == l for r, l in zip(res, labels))
_CONST_CALL_DEPTH = [0]


_CONST_CALL_NUMBERS = [False]


def _const_call(call, consts):
    """value of `helper(label, ..)` when every argument is a known constant and the helper - a function of the package, specialised
    to those constants - returns one and the same constant on every path that returns (a label normalised through a table of
    spellings, a flag looked up by name); _UNDEC otherwise"""
    if PROG is None or _PRUNE_FI is None or _CONST_CALL_DEPTH[0] > 2 or call.keywords and any(k.arg is None for k in call.keywords):
        return _UNDEC
    if any(isinstance(a, ast.Starred) for a in call.args):
        return _UNDEC
    try:
        r = PROG.resolve_call(getattr(_PRUNE_FI, "fi", _PRUNE_FI), call)
    except Exception:
        return _UNDEC
    if not hasattr(r, "node") or not isinstance(r.node, ast.FunctionDef) or r.node.args.vararg or r.node.args.kwarg or getattr(r, "cls", None) is not None:
        return _UNDEC
    m, errs = bind_args(r.node, call)
    if errs:
        return _UNDEC
    seeds = {}
    for p_, a in m.items():
        v = const_test(a, consts) if isinstance(a, ast.AST) else _UNDEC
        if v is _UNDEC or not (v is None or isinstance(v, (str, bool))):
            continue                # not known: the helper is specialised to the arguments that are; its returns must be constant all the same
        seeds[p_] = v
    if not seeds:
        return _UNDEC
    from .desugar import const_eval, NotConst
    _CONST_CALL_DEPTH[0] += 1
    try:
        body = prune(r.node.body, seeds, subst=True, fi=r)
    finally:
        _CONST_CALL_DEPTH[0] -= 1
    vals = []
    stack = list(body)
    while stack:
        st = stack.pop()
        if isinstance(st, (ast.FunctionDef, ast.AsyncFunctionDef, ast.ClassDef)):
            continue
        if isinstance(st, ast.Return):
            if st.value is None:
                return _UNDEC
            try:
                vals.append(const_eval(st.value, {k: ast.Constant(value=v) for k, v in seeds.items()}))
            except NotConst:
                return _UNDEC
            continue
        for f_ in ("body", "orelse", "finalbody"):
            stack.extend(getattr(st, f_, []) or [])
        for h in getattr(st, "handlers", []) or []:
            stack.extend(h.body)
    if not vals or any(repr(v) != repr(vals[0]) for v in vals):
        return _UNDEC
    if not (vals[0] is None or isinstance(vals[0], (str, bool)) or (_CONST_CALL_NUMBERS[0] and isinstance(vals[0], (int, float)))):
        return _UNDEC
    return vals[0]


def _assigned_names(stmts):
    out = set()
    for s in stmts:
        for n in ast.walk(s):
            if isinstance(n, ast.Name) and isinstance(n.ctx, (ast.Store, ast.Del)):
                out.add(n.id)
    return out


def _prune(body, consts):
    """-> (pruned statements, constants known after them)"""
    out = []
    consts = dict(consts)

    def ends(ss):
        if not ss:
            return False
        z = ss[-1]
        if isinstance(z, (ast.Return, ast.Raise, ast.Continue, ast.Break)):
            return True
        return isinstance(z, ast.If) and bool(z.orelse) and ends(z.body) and ends(z.orelse)
    for s in body:
        if ends(out):
            break           # code after a decided early exit is unreachable under these constants
        if isinstance(s, ast.Assign) and len(s.targets) == 1 and isinstance(s.targets[0], ast.Name):
            nm = s.targets[0].id
            if isinstance(s.value, (ast.Compare, ast.BoolOp, ast.UnaryOp, ast.Name, ast.Attribute)) or (
                    isinstance(s.value, (ast.Subscript, ast.Call)) and const_test(s.value, consts) is not _UNDEC):
                v = const_test(s.value, consts)
                if v is not _UNDEC and (isinstance(v, (bool, str, OneOf)) or v is None):
                    consts[nm] = v      # a flag derived from the seeded constants / a local name for a seeded attribute
                else:
                    consts.pop(nm, None)
            elif isinstance(s.value, ast.Constant) and (s.value.value is None or isinstance(s.value.value, (str, bool))) and nm not in ("self",):
                consts[nm] = s.value.value          # a label / flag set to a literal
            elif isinstance(s.value, ast.Call) and s.value.args and consts and _const_call(s.value, consts) is not _UNDEC:
                consts[nm] = _const_call(s.value, consts)     # a label passed through a helper that gives a constant for it
            elif isinstance(s.value, (ast.List, ast.Tuple, ast.Dict, ast.ListComp, ast.DictComp, ast.Set)) or \
                    (isinstance(s.value, ast.Call) and src(s.value.func).split(".")[-1] in _NEVER_NONE_CALLS):
                consts[nm] = NOT_NONE                          # an object just built: `nm is None` is false from here on
            else:
                consts.pop(nm, None)
        elif isinstance(s, (ast.Assign, ast.AugAssign, ast.AnnAssign, ast.For, ast.With)) or isinstance(s, ast.Delete):
            tg = []
            if isinstance(s, ast.Assign):
                tg = s.targets
            elif isinstance(s, (ast.AugAssign, ast.AnnAssign)):
                tg = [s.target]
            elif isinstance(s, ast.For):
                tg = [s.target]
            for t in tg:
                for n in ast.walk(t):
                    if isinstance(n, ast.Name) and isinstance(n.ctx, (ast.Store, ast.Del)):
                        consts.pop(n.id, None)
        if isinstance(s, ast.If):
            t = const_test(s.test, consts)
            if t is not _UNDEC:
                sub, consts = _prune(s.body if t else s.orelse, consts)
                out.extend(sub)
                continue
            n = copy.copy(s)
            b1, c1 = _prune(s.body, consts)
            b2, c2 = _prune(s.orelse, consts)
            n.body = b1 or [ast.Pass()]
            n.orelse = b2
            out.append(n)
            # what both continuing branches agree on
            live = [c for b_, c in ((b1, c1), (b2, c2)) if not ends(b_)]
            if not live:
                live = [c1, c2]
            merged = {}
            for k in set().union(*[set(c) for c in live]):
                vals = [c.get(k, _UNDEC) for c in live]
                if all(v is not _UNDEC and v == vals[0] and type(v) is type(vals[0]) for v in vals):
                    merged[k] = vals[0]
                elif all(v is not _UNDEC for v in vals) and all(isinstance(v, OneOf) or v is None or isinstance(v, (str, bool)) for v in vals):
                    flat = []
                    for v in vals:
                        for x in (v.vals if isinstance(v, OneOf) else (v,)):
                            if not any(repr(x) == repr(y) for y in flat):
                                flat.append(x)
                    if len(flat) <= 4:
                        merged[k] = OneOf(flat) if len(flat) > 1 else flat[0]
            consts = merged
        elif isinstance(s, (ast.For, ast.While, ast.With)):
            n = copy.copy(s)
            inner = {k: v for k, v in consts.items() if k not in _assigned_names(s.body + getattr(s, "orelse", []))} if not isinstance(s, ast.With) else consts
            n.body = _prune(s.body, inner)[0] or [ast.Pass()]
            if hasattr(s, "orelse"):
                n.orelse = _prune(s.orelse, inner)[0]
            out.append(n)
            consts = {k: v for k, v in consts.items() if k not in _assigned_names(s.body + getattr(s, "orelse", []))}
        elif isinstance(s, ast.Try):
            n = copy.copy(s)
            inner = {k: v for k, v in consts.items() if k not in _assigned_names(s.body + s.orelse + s.finalbody + [y for h in s.handlers for y in h.body])}
            n.body = _prune(s.body, inner)[0] or [ast.Pass()]
            n.orelse = _prune(s.orelse, inner)[0]
            n.finalbody = _prune(s.finalbody, inner)[0]
            hs = []
            for h in s.handlers:
                hh = copy.copy(h)
                hh.body = _prune(h.body, inner)[0] or [ast.Pass()]
                hs.append(hh)
            n.handlers = hs
            out.append(n)
            consts = inner
        else:
            out.append(_prune_ifexp(s, consts))
    return out, consts


def _prune_ifexp(s, consts):
    """a simple statement whose conditional expressions are decidable under the constants: a copy with the taken operands"""
    if _PRUNE_SUBST:
        env_ = {k: ast.Constant(value=v) for k, v in consts.items() if "." not in k and (v is None or isinstance(v, (str, bool)))}
        tg = {n.id for n in ast.walk(s) if isinstance(n, ast.Name) and isinstance(n.ctx, (ast.Store, ast.Del))}
        env_ = {k: v for k, v in env_.items() if k not in tg}
        if env_ and any(isinstance(n, ast.Name) and n.id in env_ and isinstance(n.ctx, ast.Load) for n in ast.walk(s)):
            s = _SubstEnv(env_).visit(copy.deepcopy(s))
        # attribute chains holding a literal label (`self.plot`): written as the literal where they are read
        aenv = {k: v for k, v in consts.items() if "." in k and (v is None or isinstance(v, (str, bool)))}
        if aenv and any(isinstance(n, ast.Attribute) and isinstance(n.ctx, ast.Load) and src(n) in aenv for n in ast.walk(s)) \
                and not any(isinstance(n, ast.Attribute) and isinstance(n.ctx, (ast.Store, ast.Del)) and src(n) in aenv for n in ast.walk(s)):
            class A(ast.NodeTransformer):
                def visit_Attribute(self, n):
                    if isinstance(n.ctx, ast.Load) and src(n) in aenv:
                        return ast.copy_location(ast.Constant(value=aenv[src(n)]), n)
                    return self.generic_visit(n)
            s = ast.fix_missing_locations(A().visit(copy.deepcopy(s)))
    if not any(isinstance(n, ast.IfExp) and const_test(n.test, consts) is not _UNDEC for n in ast.walk(s)):
        return s

    class T(ast.NodeTransformer):
        def visit_IfExp(self, n):
            t = const_test(n.test, consts)
            if t is _UNDEC:
                return self.generic_visit(n)
            return self.visit(n.body if t else n.orelse)
    return ast.fix_missing_locations(T().visit(copy.deepcopy(s)))


def dominating_attr_store(fi, at, text):
    """the value most recently stored into the attribute written `text` (`self.x_click`) on EVERY path that reaches node `at` inside
    fi: ("value", expr) / ("maybe", None) when a store sits in a branch or loop before `at` / ("none", None) when fi stores nothing
    into it before `at`"""
    pm = parent_map(fi.node)
    cur = at
    while cur is not None and not isinstance(cur, ast.stmt):
        cur = pm.get(cur)
    maybe = False
    while cur is not None and cur is not fi.node:
        par = pm.get(cur)
        for field in ("body", "orelse", "finalbody"):
            blk = getattr(par, field, None) if par is not None else None
            if isinstance(blk, list) and any(x is cur for x in blk):
                i = next(k for k, x in enumerate(blk) if x is cur)
                for prev in reversed(blk[:i]):
                    if isinstance(prev, ast.Assign) and any(isinstance(t, ast.Attribute) and src(t) == text for t in prev.targets):
                        return ("maybe", None) if maybe else ("value", expr_at(fi, prev, prev.value))
                    if any(isinstance(x, ast.Attribute) and isinstance(x.ctx, (ast.Store, ast.Del)) and src(x) == text for x in ast.walk(prev)):
                        maybe = True
                    if any(isinstance(x, ast.Call) and isinstance(x.func, ast.Attribute) and isinstance(x.func.value, ast.Name) and x.func.value.id == "self" for x in ast.walk(prev)):
                        pass        # calls on self may store as well: not followed here (the caller inlines what it can first)
        if isinstance(par, (ast.For, ast.While)):
            maybe = maybe or any(isinstance(x, ast.Attribute) and isinstance(x.ctx, (ast.Store, ast.Del)) and src(x) == text for x in ast.walk(par))
        cur = par
    return ("maybe", None) if maybe else ("none", None)


def attr_stores(fnode, text):
    """[(statement, value)] for every plain store into the attribute written `text` (`self.datasets`), tuple assignments included"""
    out = []
    for st in ast.walk(fnode):
        if not isinstance(st, ast.Assign):
            continue
        for t in st.targets:
            if isinstance(t, ast.Attribute) and src(t) == text:
                out.append((st, st.value))
            elif isinstance(t, (ast.Tuple, ast.List)) and isinstance(st.value, (ast.Tuple, ast.List)) and len(t.elts) == len(st.value.elts):
                for tt, vv in zip(t.elts, st.value.elts):
                    if isinstance(tt, ast.Attribute) and src(tt) == text:
                        out.append((st, vv))
    return out


def alias_root(fnode, name, limit=12):
    """the variable `name` is a plain copy of: follows `name = other` while `name` is bound exactly once in the function"""
    seen = set()
    while name not in seen and limit > 0:
        seen.add(name)
        limit -= 1
        binds = [n for n in ast.walk(fnode) if isinstance(n, ast.Name) and n.id == name and isinstance(n.ctx, (ast.Store, ast.Del))]
        if len(binds) != 1:
            return name
        owner = next((a for a in ast.walk(fnode) if isinstance(a, ast.Assign) and len(a.targets) == 1 and a.targets[0] is binds[0]), None)
        if owner is None or not isinstance(owner.value, ast.Name):
            return name
        name = owner.value.id
    return name


class PrunedFn:
    """a function specialised to constant seeds (decidable branches removed everywhere); usable where a FuncInfo is expected"""

    def __init__(self, fi, consts, subst=False, renormalise=True):
        self.fi = fi
        self.mod, self.cls, self.qual = fi.mod, fi.cls, fi.qual
        self.is_property = self.is_static = self.is_classmethod = False
        # subst: names holding a literal label / flag at a statement are written as that literal there, so that helpers they are handed to
        # can be specialised too
        body = prune(fi.node.body, consts, subst=subst, fi=fi)
        node = ast.FunctionDef(name=fi.node.name, args=fi.node.args, body=body or [ast.Pass()], decorator_list=[], returns=None)
        ast.copy_location(node, fi.node)
        if renormalise and PROG is not None and getattr(PROG, "desugarer", None) is not None:
            # option dicts / name tuples that differed between the decided branches are literal now
            from . import desugar as _ds
            cls_node = getattr(getattr(fi, "cls", None), "node", None)
            node = _ds.respecialise(PROG.desugarer, fi.mod, node, cls_node)
        self.node = node


def _self_chain(e):
    while isinstance(e, ast.Attribute):
        e = e.value
    return isinstance(e, ast.Name) and e.id == "self"


class SpecialisedFn:
    """a method specialised to ONE call site `self.m(...)` inside another method of the same object (constant propagation over the
    call edge): every parameter that the callee never re-binds and that receives, at this call, a constant, a `self.<attr>` chain, a
    bound method of self or a lambda over such values is replaced by that argument in a copy of the body; `getattr(self, "x")` and
    calls of the substituted lambdas are folded.  Usable where a FuncInfo is expected."""

    def __init__(self, callee, caller, call, extra_consts=None):
        self.fi = getattr(callee, "fi", callee)
        self.mod, self.cls, self.qual = callee.mod, callee.cls, callee.qual
        self.is_property = self.is_static = self.is_classmethod = False
        self.caller, self.call = caller, call
        m, errs = bind_args(callee.node, call, bound=True)
        self.errors = errs
        a = callee.node.args
        pos, kwo, _, _ = params_of(callee.node)
        defaults = dict(zip(pos[len(pos) - len(a.defaults):], a.defaults))
        defaults.update({k.arg: d for k, d in zip(a.kwonlyargs, a.kw_defaults) if d is not None})
        rebound = set()
        for st in callee.node.body:
            rebound |= stored_names(st)
        cparams = set(params_of(caller.node)[0] + params_of(caller.node)[1]) - {"self"}
        clocals = set()
        for st in callee.node.body:
            clocals |= {n.id for n in ast.walk(st) if isinstance(n, ast.Name)}
        sub = {}
        self.bound_params = {}
        for prm in pos[1:] + kwo:
            if prm in rebound:
                continue
            v = None
            if prm in m and isinstance(m[prm], ast.AST):
                v = expr_at(caller, call, m[prm])
            elif prm not in m and prm in defaults and isinstance(defaults[prm], ast.Constant):
                v = defaults[prm]
            if v is None:
                continue
            free = {n.id for n in ast.walk(v) if isinstance(n, ast.Name)} - {"self", "np", "True", "False", "None"}
            if isinstance(v, ast.Lambda):
                free -= {x.arg for x in v.args.args}
            # names of the caller's scope may travel only when they cannot be captured by a name of the callee
            if free - cparams or (free & clocals):
                continue
            ok = isinstance(v, ast.Constant) or (isinstance(v, ast.Attribute) and _self_chain(v)) or isinstance(v, ast.Lambda) \
                or (isinstance(v, ast.Name) and v.id in cparams)
            if ok:
                sub[prm] = v
                self.bound_params[prm] = v
        body = [fold(_SubstEnv(sub).visit(copy.deepcopy(st))) for st in callee.node.body]
        node = ast.FunctionDef(name=callee.node.name, args=callee.node.args, body=body or [ast.Pass()], decorator_list=[], returns=None)
        ast.copy_location(node, callee.node)
        ast.fix_missing_locations(node)
        self.node = node


def reaching_values(fi, node, name):
    """every value the local `name` may hold at `node`: the right-hand sides of all its plain assignments that precede `node` in the
    function text, each expanded at its own program point; None when the name is also bound in another way (parameter, loop target,
    augmented assignment, unpacking) - then the set of values is not known"""
    order = [n for s_ in fi.node.body for n in ast.walk(s_)]
    here = getattr(node, "lineno", None)
    if here is None or not any(n is node for n in order):
        return None
    if name in params_of(fi.node)[0] + params_of(fi.node)[1]:
        return None
    owners = {id(a_.targets[0]): a_ for a_ in order if isinstance(a_, ast.Assign) and len(a_.targets) == 1 and isinstance(a_.targets[0], ast.Name)}
    in_loop = any(isinstance(l_, (ast.For, ast.While)) and any(x is node for x in ast.walk(l_)) for l_ in order)
    vals = []
    for n in order:
        if isinstance(n, ast.Name) and n.id == name and isinstance(n.ctx, (ast.Store, ast.Del)):
            owner = owners.get(id(n))
            if owner is None:
                return None
            if owner.lineno < here or in_loop:
                vals.append(expr_at(fi, owner, owner.value))
    return vals


def parent_map(root):
    pm = {}
    for n in ast.walk(root):
        for c in ast.iter_child_nodes(n):
            pm[c] = n
    return pm


def enclosing(pm, node, types):
    n = pm.get(node)
    while n is not None:
        if isinstance(n, types):
            return n
        n = pm.get(n)
    return None


def branch_of(pm, node, ifnode):
    """'body' / 'orelse' / None: in which branch of `ifnode` does `node` sit"""
    for field in ("body", "orelse"):
        for s in getattr(ifnode, field):
            if any(x is node for x in ast.walk(s)):
                return field
    return None


# ----------------------------------------------------------------------------- matrix product normal form
def matnf(prog, fi, e):
    """normal form of a matrix expression built from dot/@, inv/pinv, solve and .T: list of (atom expr, inverted, transposed).
    (AB)^-1 = B^-1 A^-1, (AB)^T = B^T A^T, solve(A, B) = A^-1 B.  Returns None if e contains another matrix operation."""
    if isinstance(e, ast.BinOp) and isinstance(e.op, ast.MatMult):
        a, b = matnf(prog, fi, e.left), matnf(prog, fi, e.right)
        return None if a is None or b is None else a + b
    if isinstance(e, ast.Attribute) and e.attr == "T":
        a = matnf(prog, fi, e.value)
        return None if a is None else [(x, i, not t) for x, i, t in reversed(a)]
    if isinstance(e, ast.Call):
        nm = callee_name(prog, fi, e)
        if nm in ("numpy.dot", "numpy.matmul") and len(e.args) == 2:
            a, b = matnf(prog, fi, e.args[0]), matnf(prog, fi, e.args[1])
            return None if a is None or b is None else a + b
        if nm in ("numpy.linalg.inv", "numpy.linalg.pinv", "scipy.linalg.inv", "scipy.linalg.pinv") and e.args:
            a = matnf(prog, fi, e.args[0])
            return None if a is None else [(x, not i, t) for x, i, t in reversed(a)]
        if nm in ("numpy.linalg.solve", "scipy.linalg.solve") and len(e.args) == 2:
            a, b = matnf(prog, fi, e.args[0]), matnf(prog, fi, e.args[1])
            return None if a is None or b is None else [(x, not i, t) for x, i, t in reversed(a)] + b
        if nm in ("numpy.transpose",) and len(e.args) == 1:
            a = matnf(prog, fi, e.args[0])
            return None if a is None else [(x, i, not t) for x, i, t in reversed(a)]
        if nm in (".dot",) and len(e.args) == 1 and isinstance(e.func, ast.Attribute):
            a, b = matnf(prog, fi, e.func.value), matnf(prog, fi, e.args[0])
            return None if a is None or b is None else a + b
    return [(e, False, False)]


INV_FUNCS = ("numpy.linalg.inv", "numpy.linalg.pinv", "scipy.linalg.inv", "scipy.linalg.pinv")


def sliced_inverse_sites(prog, fi):
    """[(subscript node, inverse call)] where a proper slice is taken OF an inverse (directly or through a variable):
    a block of inv(A) is not the inverse of the block of A"""
    out = []
    for sub in ast.walk(fi.node):
        if isinstance(sub, ast.Subscript) and any(isinstance(x, ast.Slice) and not is_full_slice(x) for x in index_elts(sub)):
            x = expr_at(fi, sub, sub.value)
            if isinstance(x, ast.Call) and callee_name(prog, fi, x) in INV_FUNCS:
                out.append((sub, x))
    return out


CALLEE_DEFAULT = "__callee_default__"      # stands for "the keyword is left out: the callee's own default applies"


def dictcomp_items(x, prog=None, fi=None):
    """{k: v for k, v in {..literal..}.items() [if v] [if v is not None]}  (or over a literal tuple of (key, value) pairs): the entries as
    [(key, value)], a filtered value written `value if <test> else __callee_default__`; None when the comprehension is of another form"""
    if not (isinstance(x, ast.DictComp) and len(x.generators) == 1):
        return None
    g = x.generators[0]
    it = g.iter
    pairs = None
    if isinstance(it, ast.Call) and isinstance(it.func, ast.Attribute) and it.func.attr == "items" and isinstance(it.func.value, ast.Dict) \
            and all(isinstance(kk, ast.Constant) for kk in it.func.value.keys):
        pairs = list(zip(it.func.value.keys, it.func.value.values))
    elif isinstance(it, (ast.Tuple, ast.List)) and all(isinstance(e_, (ast.Tuple, ast.List)) and len(e_.elts) == 2 and isinstance(e_.elts[0], ast.Constant) for e_ in it.elts):
        pairs = [(e_.elts[0], e_.elts[1]) for e_ in it.elts]
    elif isinstance(it, ast.Call) and isinstance(it.func, ast.Attribute) and it.func.attr == "items" and not it.args and prog is not None:
        # the items of a dictionary that can itself be written out ({**TABLE, **kwargs}, a marked setdefault, ...)
        sub = dict_items_of(prog, fi, it.func.value)
        if sub is not None and not any(isinstance(v_, ast.IfExp) and isinstance(v_.orelse, ast.Name) and v_.orelse.id == CALLEE_DEFAULT and
                                       not (isinstance(v_.test, ast.Name) and v_.test.id.startswith("<")) for _, v_ in sub):
            pairs = [(ast.Constant(value=k_), v_) for k_, v_ in sub]
    if pairs is None or not (isinstance(g.target, ast.Tuple) and len(g.target.elts) == 2 and all(isinstance(t_, ast.Name) for t_ in g.target.elts)
                             and isinstance(x.key, ast.Name) and x.key.id == g.target.elts[0].id and isinstance(x.value, ast.Name) and x.value.id == g.target.elts[1].id):
        return None
    vname = g.target.elts[1].id
    kinds = []
    for c_ in g.ifs:
        if isinstance(c_, ast.Name) and c_.id == vname:
            kinds.append("truthy")
        elif isinstance(c_, ast.Compare) and isinstance(c_.left, ast.Name) and c_.left.id == vname and len(c_.ops) == 1 and isinstance(c_.ops[0], ast.IsNot) \
                and isinstance(c_.comparators[0], ast.Constant) and c_.comparators[0].value is None:
            kinds.append("notnone")
        else:
            return None
    items = []
    for kk, vv in pairs:
        # getattr(obj, "name", None): the attribute (None when the object does not have it)
        if isinstance(vv, ast.Call) and isinstance(vv.func, ast.Name) and vv.func.id == "getattr" and len(vv.args) == 3 and isinstance(vv.args[1], ast.Constant) \
                and isinstance(vv.args[2], ast.Constant) and vv.args[2].value is None:
            fields = None
            if prog is not None and fi is not None and getattr(fi, "cls", None) is not None and src(vv.args[0]) == "self.run_params":
                fields = prog.model_fields(fi.cls, "RunParamCls")
            if fields is not None and vv.args[1].value not in fields:
                vv = ast.Constant(value=None)        # the parameter model has no field of that name: the default of getattr
            else:
                vv = ast.Attribute(value=vv.args[0], attr=vv.args[1].value, ctx=ast.Load())
        if "truthy" in kinds:
            vv = ast.IfExp(test=copy.deepcopy(vv), body=vv, orelse=ast.Name(id=CALLEE_DEFAULT, ctx=ast.Load()))
        elif "notnone" in kinds:
            if isinstance(vv, ast.Constant) and vv.value is None:
                continue                              # always left out
            test = ast.Compare(left=copy.deepcopy(vv), ops=[ast.IsNot()], comparators=[ast.Constant(value=None)])
            vv = ast.IfExp(test=test, body=vv, orelse=ast.Name(id=CALLEE_DEFAULT, ctx=ast.Load()))
        items.append((kk.value, vv))
    return items


def _model_subset_items(prog, fi, x):
    """{n: D[n] for n in D if n in ("a", "b")} with D = dict(self.run_params) (or .model_dump() / vars(..)): the named fields of the
    parameter model, those that are not fields of it silently left out -> [(name, self.run_params.name)]"""
    if not (isinstance(x, ast.DictComp) and len(x.generators) == 1):
        return None
    g = x.generators[0]
    if not (isinstance(g.target, ast.Name) and isinstance(x.key, ast.Name) and x.key.id == g.target.id and len(g.ifs) == 1):
        return None
    n = g.target.id
    c = g.ifs[0]
    if not (isinstance(c, ast.Compare) and len(c.ops) == 1 and isinstance(c.ops[0], ast.In) and isinstance(c.left, ast.Name) and c.left.id == n
            and isinstance(c.comparators[0], (ast.Tuple, ast.List, ast.Set)) and all(isinstance(e_, ast.Constant) and isinstance(e_.value, str) for e_ in c.comparators[0].elts)):
        return None
    names = [e_.value for e_ in c.comparators[0].elts]

    def model_of(e):
        """the model object a `dict(X)` / `X.model_dump()` / `vars(X)` / `X.__dict__` is made of"""
        if isinstance(e, ast.Call) and isinstance(e.func, ast.Name) and e.func.id in ("dict", "vars") and len(e.args) == 1 and not e.keywords:
            return e.args[0]
        if isinstance(e, ast.Call) and isinstance(e.func, ast.Attribute) and e.func.attr in ("model_dump", "dict") and not e.args and not e.keywords:
            return e.func.value
        if isinstance(e, ast.Attribute) and e.attr == "__dict__":
            return e.value
        return None
    X = model_of(g.iter)
    if X is None or not (isinstance(X, ast.Attribute) and isinstance(X.value, ast.Name) and X.value.id == "self" and X.attr == "run_params"):
        return None
    v = x.value
    ok = (isinstance(v, ast.Subscript) and isinstance(v.slice, ast.Name) and v.slice.id == n and model_of(v.value) is not None and dump(model_of(v.value)) == dump(X)) or \
         (isinstance(v, ast.Call) and isinstance(v.func, ast.Name) and v.func.id == "getattr" and len(v.args) == 2 and dump(v.args[0]) == dump(X) and isinstance(v.args[1], ast.Name) and v.args[1].id == n)
    if not ok:
        return None
    fields = prog.model_fields(fi.cls, "RunParamCls") if getattr(fi, "cls", None) is not None else None
    if fields is None:
        return None
    return [(k, ast.Attribute(value=copy.deepcopy(X), attr=k, ctx=ast.Load())) for k in names if k in fields]


class _GetattrFields(ast.NodeTransformer):
    """getattr(self.run_params, "name", default) with the fields of the algorithm's parameter model known: the attribute, or the default
    when the model has no such field"""
    def __init__(self, prog, fi):
        self.fields = None
        if prog is not None and fi is not None and getattr(fi, "cls", None) is not None:
            self.fields = prog.model_fields(fi.cls, "RunParamCls")

    def visit_Call(self, n):
        self.generic_visit(n)
        if isinstance(n.func, ast.Name) and n.func.id == "getattr" and len(n.args) == 3 and not n.keywords and isinstance(n.args[1], ast.Constant) \
                and isinstance(n.args[1].value, str) and src(n.args[0]) == "self.run_params" and self.fields is not None:
            if n.args[1].value in self.fields:
                return ast.Attribute(value=n.args[0], attr=n.args[1].value, ctx=ast.Load())
            return n.args[2]
        return n


def _settle_items(prog, fi, items):
    """entries of a written-out dictionary after what is known statically is applied: attribute look-ups by name on the parameter
    model, `v if v is not None else <left out>` with v the constant None (always left out) or another constant (always there)"""
    out = []
    for k, v in items:
        if any(isinstance(x, ast.Name) and x.id == "getattr" for x in ast.walk(v)):
            v = ast.fix_missing_locations(_GetattrFields(prog, fi).visit(copy.deepcopy(v)))
        if isinstance(v, ast.IfExp) and isinstance(v.orelse, ast.Name) and v.orelse.id == CALLEE_DEFAULT and isinstance(v.test, ast.Compare) \
                and len(v.test.ops) == 1 and isinstance(v.test.ops[0], (ast.IsNot, ast.Is)) and isinstance(v.test.left, ast.Constant) \
                and isinstance(v.test.comparators[0], ast.Constant) and v.test.comparators[0].value is None:
            there = (v.test.left.value is not None) == isinstance(v.test.ops[0], ast.IsNot)
            if not there:
                continue
            v = v.body
        elif isinstance(v, ast.IfExp) and isinstance(v.orelse, ast.Name) and v.orelse.id == CALLEE_DEFAULT and isinstance(v.test, ast.Constant):
            if v.test.value is None or (isinstance(v.test.value, str) and not v.test.value):
                continue                    # `if value:` on a value that is the constant None / "": never stored, and nothing is lost
            if not v.test.value:
                out.append((k, v))          # 0 / 0.0 / False dropped by a truth test: kept as written - that IS the finding of the options rule
                continue
            v = v.body
        out.append((k, v))
    return out


def _notnone_default(v, callee_node, name):
    """`x if x is not None else <callee default>` is `x` when the callee's own default for that parameter is None"""
    if isinstance(v, ast.IfExp) and isinstance(v.orelse, ast.Name) and v.orelse.id == CALLEE_DEFAULT and isinstance(v.test, ast.Compare) \
            and len(v.test.ops) == 1 and isinstance(v.test.ops[0], ast.IsNot) and dump(v.test.left) == dump(v.body):
        a_ = callee_node.args
        pos_ = [x.arg for x in a_.posonlyargs + a_.args]
        dmap = dict(zip(pos_[len(pos_) - len(a_.defaults):], a_.defaults))
        dmap.update({k.arg: d for k, d in zip(a_.kwonlyargs, a_.kw_defaults) if d is not None})
        d = dmap.get(name)
        if isinstance(d, ast.Constant) and d.value is None:
            return v.body
    return v


def dict_items_of(prog, fi, x):
    """[(key, value expression)] of a dictionary-valued expression as expanded at its use: a display with constant keys, dict(k=..),
    the recognised comprehension forms, each possibly wrapped in d.setdefault(k, v) markers; None when it cannot be written out"""
    items = None
    fills = []
    while isinstance(x, ast.Call) and isinstance(x.func, ast.Name) and x.func.id == SETDEFAULT and len(x.args) == 3:
        fills.insert(0, (x.args[1].value, x.args[2]))
        x = x.args[0]
    if isinstance(x, ast.Dict) and all(isinstance(kk, ast.Constant) for kk in x.keys):
        items = [(kk.value, v) for kk, v in zip(x.keys, x.values)]
    elif isinstance(x, ast.Dict) and all(kk is None or isinstance(kk, ast.Constant) for kk in x.keys):
        # {**a, "k": v, **b}: later entries win
        items = []
        for kk, v in zip(x.keys, x.values):
            sub = dict_items_of(prog, fi, v) if kk is None else [(kk.value, v)]
            if sub is None and kk is None:
                sub = _kwargs_param_items(prog, fi, v)
            if sub is None:
                items = None
                break
            for sk, sv in sub:
                prev = [b for a, b in items if a == sk]
                if prev and isinstance(sv, ast.IfExp) and isinstance(sv.orelse, ast.Name) and sv.orelse.id == CALLEE_DEFAULT:
                    sv = ast.IfExp(test=sv.test, body=sv.body, orelse=prev[-1])     # an entry that may be absent leaves the earlier one
                items = [(a, b) for a, b in items if a != sk] + [(sk, sv)]
    elif isinstance(x, ast.Call) and isinstance(x.func, ast.Name) and x.func.id == "dict" and not x.args and all(kw.arg for kw in x.keywords):
        items = [(kw.arg, kw.value) for kw in x.keywords]
    elif isinstance(x, ast.Call) and isinstance(x.func, ast.Attribute) and x.func.attr in ("model_dump", "dict") and not x.args:
        inc = kwarg(x, "include")
        if isinstance(inc, (ast.Set, ast.List, ast.Tuple)) and all(isinstance(e_, ast.Constant) and isinstance(e_.value, str) for e_ in inc.elts) \
                and all(k_.arg in ("include", "exclude_none") for k_ in x.keywords):
            # a pydantic model dumped field by field: {name: model.name}; with exclude_none the unset ones are left out
            xn = kwarg(x, "exclude_none")
            drop_none = isinstance(xn, ast.Constant) and xn.value is True
            items = []
            for e_ in sorted(inc.elts, key=lambda z: z.value):
                v_ = ast.Attribute(value=copy.deepcopy(x.func.value), attr=e_.value, ctx=ast.Load())
                if drop_none:
                    v_ = ast.IfExp(test=ast.Compare(left=copy.deepcopy(v_), ops=[ast.IsNot()], comparators=[ast.Constant(value=None)]), body=v_,
                                   orelse=ast.Name(id=CALLEE_DEFAULT, ctx=ast.Load()))
                items.append((e_.value, v_))
    if items is None and isinstance(x, ast.DictComp):
        items = dictcomp_items(x, prog, fi)
        if items is None:
            items = _model_subset_items(prog, fi, x)
    if items is not None:
        items = _settle_items(prog, fi, items)
    if items is not None and fills:
        # d.setdefault(k, v): k keeps its entry; an entry that may be left out (`x if <set> else <not passed>`) falls back on v
        for fk, fv in fills:
            cur = [i for i, (kk, _) in enumerate(items) if kk == fk]
            if not cur:
                items.append((fk, fv))
            else:
                i = cur[-1]
                vv = items[i][1]
                if isinstance(vv, ast.IfExp) and isinstance(vv.orelse, ast.Name) and vv.orelse.id == CALLEE_DEFAULT:
                    items[i] = (fk, ast.IfExp(test=vv.test, body=vv.body, orelse=fv))
    elif fills:
        items = None
    return items


def _kwargs_param_items(prog, fi, v):
    """`**over` where `over` is the **kwargs parameter of fi: the keywords the callers inside the package hand over (closed world: every
    call site writes its extra keywords out) - each as an entry that MAY be there"""
    kwp = getattr(fi.node.args.kwarg, "arg", None)
    if not (isinstance(v, ast.Name) and kwp is not None and v.id == kwp) or prog is None:
        return None
    if any(isinstance(n, ast.Name) and n.id == kwp and isinstance(n.ctx, (ast.Store, ast.Del)) for n in ast.walk(fi.node)):
        return None
    from .effects import _callers
    named = set(params_of(fi.node)[0] + params_of(fi.node)[1])
    keys = []
    sites = _callers(prog, getattr(fi, "fi", fi))
    if not sites:
        return None
    for g, c in sites:
        if any(k.arg is None for k in c.keywords):
            return None
        for k in c.keywords:
            if k.arg not in named and k.arg not in keys:
                keys.append(k.arg)
    return [(k, ast.IfExp(test=ast.Name(id=f"<{k} given by the caller>", ctx=ast.Load()), body=ast.Subscript(value=ast.Name(id=kwp, ctx=ast.Load()), slice=ast.Constant(value=k), ctx=ast.Load()),
                          orelse=ast.Name(id=CALLEE_DEFAULT, ctx=ast.Load()))) for k in keys]


def resolve_item(prog, fi, e):
    """D["k"] / D.pop("k") / D.get("k") with D a dictionary that can be written out (dict_items_of): the entry"""
    d = k = None
    if isinstance(e, ast.Subscript) and isinstance(e.slice, ast.Constant) and isinstance(e.slice.value, str):
        d, k = e.value, e.slice.value
    elif isinstance(e, ast.Call) and isinstance(e.func, ast.Attribute) and e.func.attr in ("pop", "get") and len(e.args) >= 1 and not e.keywords \
            and isinstance(e.args[0], ast.Constant) and isinstance(e.args[0].value, str):
        d, k = e.func.value, e.args[0].value
    if d is None:
        return e
    items = dict_items_of(prog, fi, d)
    if items is None:
        return e
    hit = [v for kk, v in items if kk == k]
    if not hit:
        return e.args[1] if isinstance(e, ast.Call) and len(e.args) > 1 else e
    v = hit[-1]
    if isinstance(v, ast.IfExp) and isinstance(v.orelse, ast.Name) and v.orelse.id == CALLEE_DEFAULT:
        return e            # the entry may be missing: the look-up itself could raise / give the default - left as it is
    return v


def bind_call(prog, fi, callee_node, call, bound=False):
    """bind_args, with `**name` resolved through the flow-sensitive environment when it is a dict literal / dict(...) call with
    constant keys.  Returns (mapping, errors, complete) - complete is False when some **kwargs could not be resolved."""
    m, errs = bind_args(callee_node, call, bound=bound)
    complete = True
    pos, kwonly, vararg, kwarg_ = params_of(callee_node)
    if any(isinstance(a, ast.Starred) for a in call.args):
        # f(a, *t, b): positions are known when every spread is a literal tuple / list at this point; otherwise nothing can be said
        # about the positional parameters ("not passed" would be a guess)
        flat = []
        for a in call.args:
            if isinstance(a, ast.Starred):
                x = expr_at(fi, call, a.value)
                if isinstance(x, (ast.Tuple, ast.List)) and not any(isinstance(e_, ast.Starred) for e_ in x.elts):
                    flat.extend(x.elts)
                else:
                    flat = None
                    break
            else:
                flat.append(a)
        if flat is None:
            complete = False
        else:
            ppos = pos[1:] if bound and pos else pos
            for i, a in enumerate(flat):
                if i < len(ppos) and ppos[i] not in m:
                    m[ppos[i]] = a
    for k in call.keywords:
        if k.arg is not None:
            continue
        x = expr_at(fi, call, k.value)
        items = dict_items_of(prog, fi, x)
        if items is None and isinstance(x, ast.Call) and isinstance(x.func, ast.Attribute) and x.func.attr in ("model_dump", "dict"):
            inc = kwarg(x, "include")
            if isinstance(inc, (ast.Set, ast.List, ast.Tuple)) and all(isinstance(e_, ast.Constant) and isinstance(e_.value, str) for e_ in inc.elts):
                # a pydantic model dumped field by field: {name: model.name}
                items = [(e_.value, ast.Attribute(value=copy.deepcopy(x.func.value), attr=e_.value, ctx=ast.Load())) for e_ in inc.elts]
        if items is None:
            complete = False
            continue
        for name, v in items:
            if name in m:
                errs.append(f"multiple values for '{name}'")
            elif name in pos or name in kwonly:
                m[name] = _notnone_default(v, callee_node, name)
            elif not kwarg_:
                errs.append(f"unexpected keyword '{name}'")
    if not complete:
        errs = [e for e in errs if not e.startswith("missing required")]
    else:
        # re-evaluate missing-required now that ** entries are known
        errs = [e for e in errs if not (e.startswith("missing required argument") and e.split("'")[1] in m)]
    return m, errs, complete


def _param_default(fnode, name):
    a_ = fnode.args
    pos_ = [x.arg for x in a_.posonlyargs + a_.args]
    dmap = dict(zip(pos_[len(pos_) - len(a_.defaults):], a_.defaults))
    dmap.update({k.arg: d for k, d in zip(a_.kwonlyargs, a_.kw_defaults) if d is not None})
    return dmap.get(name)


def _model_field_default(prog, fi, name):
    """default expression of field `name` of the parameter model of the class fi is a method of (None when it is not found)"""
    ci = getattr(fi, "cls", None)
    if ci is None:
        return None
    c, v = prog.find_classattr(ci, "RunParamCls")
    if v is None:
        return None
    try:
        r = prog.resolve_expr(c.mod, v)
    except Exception:
        return None
    if not hasattr(r, "node"):
        return None
    for k in prog.mro(r):
        for b in k.node.body:
            if isinstance(b, ast.AnnAssign) and isinstance(b.target, ast.Name) and b.target.id == name:
                return b.value
    return None


def resolves_by_default(prog, fi, e, accept, depth=4, _seen=()):
    """does the value of expression e in fi satisfy `accept` whenever the user leaves the library's defaults alone?  Constants are
    judged; a parameter by its default and by what every caller inside the package hands over (recursively); a field of the run
    parameters by its default (a user who sets it has asked for something else).  True / False / None (not followed)."""
    base = getattr(fi, "fi", fi)
    x = expand(fi, e) if not isinstance(e, ast.Constant) else e
    if isinstance(x, ast.IfExp) and isinstance(x.orelse, ast.Name) and x.orelse.id == CALLEE_DEFAULT:
        x = x.body
    if isinstance(x, ast.Constant):
        return bool(accept(x.value))
    if depth <= 0:
        return None
    if isinstance(x, ast.Attribute) and src(x.value) == "self.run_params":
        d = _model_field_default(prog, base, x.attr)
        if isinstance(d, ast.Constant):
            return bool(accept(d.value))
        return None
    pos, kwonly = params_of(base.node)[0], params_of(base.node)[1]
    if isinstance(x, ast.Name) and x.id in pos + kwonly and not any(
            isinstance(n, ast.Name) and n.id == x.id and isinstance(n.ctx, ast.Store) for n in ast.walk(base.node)):
        verdicts = []
        d = _param_default(base.node, x.id)
        if d is not None:
            verdicts.append(bool(accept(d.value)) if isinstance(d, ast.Constant) else None)
        from .effects import _callers
        key = (id(base.node), x.id)
        if key in _seen:
            return None
        for g, c in _callers(prog, base):
            bound = bool(getattr(base, "cls", None)) and not getattr(base, "is_static", False)
            m, errs, complete = bind_call(prog, g, base.node, c, bound=bound)
            if x.id in m:
                verdicts.append(resolves_by_default(prog, g, expr_at(g, c, m[x.id]), accept, depth - 1, _seen + (key,)))
            elif not complete:
                verdicts.append(None)
            elif d is None:
                verdicts.append(None)
        if not verdicts:
            return None
        if any(v is False for v in verdicts):
            return False
        return None if any(v is None for v in verdicts) else True
    return None


class Elem:
    """one way a list gets its elements: `at` = node for the program point, `elt` = element expression, `iter`/`target` of the loop or
    comprehension that produces them (None outside a loop)"""

    def __init__(self, at, elt, target, iter_, kind):
        self.at, self.elt, self.target, self.iter, self.kind = at, elt, target, iter_, kind


def list_elements(fi, name):
    """every producer of elements of the local list `name`: L.append(e) / L += [e] / L.extend([e]) in loops, L = [e for v in it]"""
    out = []
    pm = parent_map(fi.node)
    for n in ast.walk(fi.node):
        if isinstance(n, ast.Call) and isinstance(n.func, ast.Attribute) and isinstance(n.func.value, ast.Name) and n.func.value.id == name and len(n.args) == 1:
            loop = enclosing(pm, n, (ast.For,))
            if n.func.attr == "append":
                out.append(Elem(n, n.args[0], loop.target if loop else None, loop.iter if loop else None, "append"))
            elif n.func.attr == "extend" and isinstance(n.args[0], (ast.List, ast.Tuple)) and len(n.args[0].elts) == 1:
                out.append(Elem(n, n.args[0].elts[0], loop.target if loop else None, loop.iter if loop else None, "append"))
        elif isinstance(n, ast.AugAssign) and isinstance(n.target, ast.Name) and n.target.id == name and isinstance(n.op, ast.Add) \
                and isinstance(n.value, (ast.List, ast.Tuple)) and len(n.value.elts) == 1:
            loop = enclosing(pm, n, (ast.For,))
            out.append(Elem(n, n.value.elts[0], loop.target if loop else None, loop.iter if loop else None, "append"))
        elif isinstance(n, ast.Assign) and len(n.targets) == 1:
            t, v = n.targets[0], n.value
            pairs = []
            if isinstance(t, ast.Name) and t.id == name:
                pairs.append(v)
            elif isinstance(t, (ast.Tuple, ast.List)) and isinstance(v, (ast.Tuple, ast.List)) and len(t.elts) == len(v.elts):
                pairs.extend(b for a, b in zip(t.elts, v.elts) if isinstance(a, ast.Name) and a.id == name)
            for v in pairs:
                if isinstance(v, ast.Call) and isinstance(v.func, ast.Name) and v.func.id == "list" and v.args:
                    v = v.args[0]
                if isinstance(v, (ast.ListComp, ast.GeneratorExp)) and len(v.generators) == 1 and not v.generators[0].ifs:
                    out.append(Elem(v.elt, v.elt, v.generators[0].target, v.generators[0].iter, "comp"))
    return out


# ----------------------------------------------------------------------------- loop normalisation
class IndexedFn:
    """a view of a function in which `for a, b in zip(A, B)` / `for i, a in enumerate(A)` loops and comprehensions are rewritten to
    index loops (`for _k in range(len(A))`, a -> A[_k], b -> B[_k]); usable where a FuncInfo is expected.  A loop whose element
    variables are assigned in its body is left alone."""

    def __init__(self, fi):
        self.fi = fi
        self.mod, self.cls, self.qual = fi.mod, fi.cls, fi.qual
        self.is_property = self.is_static = self.is_classmethod = False
        node = copy.deepcopy(fi.node)
        self.count = 0
        node.body = self._block(node.body)
        node = _CompIdx(self).visit(node)
        ast.fix_missing_locations(node)
        self.node = node

    def _plan(self, target, it):
        """-> (index name, {var: replacement expr}, range iter) or None"""
        if not (isinstance(it, ast.Call) and isinstance(it.func, ast.Name) and it.func.id in ("zip", "enumerate") and it.args and not any(isinstance(a, ast.Starred) for a in it.args)):
            return None
        simple = lambda a: isinstance(a, (ast.Name, ast.Attribute)) or (isinstance(a, ast.Subscript) and isinstance(a.value, ast.Name))
        if it.func.id == "zip":
            if not (isinstance(target, ast.Tuple) and len(target.elts) == len(it.args) and all(isinstance(t, ast.Name) for t in target.elts) and all(simple(a) for a in it.args)):
                return None
            self.count += 1
            k = f"_k{self.count}"
            sub = {t.id: ast.Subscript(value=copy.deepcopy(a), slice=ast.Name(id=k, ctx=ast.Load()), ctx=ast.Load()) for t, a in zip(target.elts, it.args)}
            rng = ast.Call(func=ast.Name(id="range", ctx=ast.Load()), args=[ast.Call(func=ast.Name(id="len", ctx=ast.Load()), args=[copy.deepcopy(it.args[0])], keywords=[])], keywords=[])
            return k, sub, rng, None
        start = kwarg(it, "start", 1)
        # for i, (a, b) in enumerate(zip(A, B)): one index for both
        if isinstance(target, ast.Tuple) and len(target.elts) == 2 and isinstance(target.elts[0], ast.Name) and isinstance(target.elts[1], ast.Tuple) and start is None \
                and isinstance(it.args[0], ast.Call) and isinstance(it.args[0].func, ast.Name) and it.args[0].func.id == "zip" and len(it.args[0].args) == len(target.elts[1].elts) \
                and all(isinstance(t, ast.Name) for t in target.elts[1].elts) and all(simple(a) for a in it.args[0].args):
            i = target.elts[0].id
            sub = {t.id: ast.Subscript(value=copy.deepcopy(a), slice=ast.Name(id=i, ctx=ast.Load()), ctx=ast.Load()) for t, a in zip(target.elts[1].elts, it.args[0].args)}
            rng = ast.Call(func=ast.Name(id="range", ctx=ast.Load()), args=[ast.Call(func=ast.Name(id="len", ctx=ast.Load()), args=[copy.deepcopy(it.args[0].args[0])], keywords=[])], keywords=[])
            return i, sub, rng, i
        if not (isinstance(target, ast.Tuple) and len(target.elts) == 2 and all(isinstance(t, ast.Name) for t in target.elts) and simple(it.args[0])):
            return None
        a = it.args[0]
        i, x = target.elts[0].id, target.elts[1].id
        lo = None
        if isinstance(a, ast.Subscript) and isinstance(a.slice, ast.Slice):
            if a.slice.upper is not None or a.slice.step is not None:
                return None
            lo, a = a.slice.lower, a.value
        if lo is not None and start is not None and dump(lo) == dump(start):
            # enumerate(A[s:], start=s): the index is the position in A
            rng = ast.Call(func=ast.Name(id="range", ctx=ast.Load()), args=[copy.deepcopy(lo), ast.Call(func=ast.Name(id="len", ctx=ast.Load()), args=[copy.deepcopy(a)], keywords=[])], keywords=[])
            return i, {x: ast.Subscript(value=copy.deepcopy(a), slice=ast.Name(id=i, ctx=ast.Load()), ctx=ast.Load())}, rng, i
        if lo is not None or start is not None:
            return None
        rng = ast.Call(func=ast.Name(id="range", ctx=ast.Load()), args=[ast.Call(func=ast.Name(id="len", ctx=ast.Load()), args=[copy.deepcopy(a)], keywords=[])], keywords=[])
        return i, {x: ast.Subscript(value=copy.deepcopy(a), slice=ast.Name(id=i, ctx=ast.Load()), ctx=ast.Load())}, rng, i

    def _block(self, body):
        out = []
        for s in body:
            for f in ("body", "orelse", "finalbody"):
                if hasattr(s, f) and isinstance(getattr(s, f), list) and not isinstance(s, ast.For):
                    setattr(s, f, self._block(getattr(s, f)))
            if isinstance(s, ast.For):
                plan = self._plan(s.target, s.iter)
                stored = {n.id for b in s.body for n in ast.walk(b) if isinstance(n, ast.Name) and isinstance(n.ctx, ast.Store)}
                if plan is not None and not (set(plan[1]) & stored):
                    k, sub, rng, keep = plan
                    new_body = [_SubstEnv(sub).visit(b) for b in s.body]
                    s = ast.For(target=ast.Name(id=k, ctx=ast.Store()), iter=rng, body=new_body, orelse=s.orelse, lineno=s.lineno, col_offset=s.col_offset)
                s.body = self._block(s.body)
            out.append(s)
        return out


class _CompIdx(ast.NodeTransformer):
    def __init__(self, owner):
        self.o = owner

    def _comp(self, node):
        self.generic_visit(node)
        if len(node.generators) == 1 and not node.generators[0].is_async:
            g = node.generators[0]
            plan = self.o._plan(g.target, g.iter)
            if plan is not None:
                k, sub, rng, keep = plan
                tr = _SubstEnv(sub)
                if isinstance(node, ast.DictComp):
                    node.key, node.value = tr.visit(node.key), tr.visit(node.value)
                else:
                    node.elt = tr.visit(node.elt)
                g.ifs = [tr.visit(c) for c in g.ifs]
                g.target, g.iter = ast.Name(id=k, ctx=ast.Store()), rng
        return node
    visit_ListComp = visit_GeneratorExp = visit_SetComp = visit_DictComp = _comp


# ----------------------------------------------------------------------------- argument forwarding through helpers
def forwarded_args(prog, fi, target_qual, depth=2, _seen=()):
    """every way `fi` calls the function `target_qual`, directly or through helpers it calls (module-level functions of the same module,
    or methods of the same object called on `self`; up to `depth` levels):
    -> [{"call": call node, "holder": function containing it, "chain": [names], "args": {target param: expression in terms of fi's
    scope at the outermost call site (None if it cannot be expressed)}, "missing": [target params not passed], "complete": bool, "errors": [...],
    "star": names of `**kw` arguments of the call that could not be resolved}]"""
    from .program import FuncInfo
    out = []
    for c, r in prog.calls_in(fi):
        if not isinstance(r, FuncInfo):
            continue
        if r.qual == target_qual or r.qual.endswith("." + target_qual):
            m, errs, complete = bind_call(prog, fi, r.node, c)
            pos, kwonly, _, _ = params_of(r.node)
            args = {}
            for p_ in pos + kwonly:
                if p_ in m and isinstance(m[p_], ast.AST):
                    args[p_] = resolve_item(prog, fi, expr_at(fi, c, m[p_]))
            star = [k.value.id for k in c.keywords if k.arg is None and isinstance(k.value, ast.Name)]
            out.append({"call": c, "holder": fi, "chain": [fi.node.name], "args": args, "missing": [p_ for p_ in pos + kwonly if p_ not in m],
                        "complete": complete, "errors": errs, "outer_call": c, "star": star if not complete else []})
            continue
        on_self = r.cls is not None and isinstance(c.func, ast.Attribute) and isinstance(c.func.value, ast.Name) and c.func.value.id == "self" \
            and not getattr(r, "is_classmethod", False)
        static = on_self and getattr(r, "is_static", False)      # self._helper(...) of a @staticmethod: no implicit first argument
        same_obj = on_self and not static
        if depth > 0 and r.qual not in _seen and r.node is not fi.node and ((r.cls is None and r.mod == fi.mod) or same_obj or static):
            m, errs, complete = bind_call(prog, fi, r.node, c, bound=same_obj)
            # a helper that is steered by a label handed in as a literal (`self._derived("data")`): only the branch of that label counts
            labels = {p_: a_.value for p_, a_ in m.items() if isinstance(a_, ast.Constant) and (a_.value is None or isinstance(a_.value, (str, bool)))}
            r_view = r
            if labels:
                try:
                    r_view = PrunedFn(r, labels, subst=True)
                except Exception:
                    r_view = r
            inner = forwarded_args(prog, r_view, target_qual, depth - 1, _seen + (fi.qual,))
            if not inner:
                continue
            hpos, hkw, _, hkwarg = params_of(r.node)
            hkwarg = getattr(hkwarg, "arg", hkwarg)
            hp = set(hpos + hkw) - ({"self"} if same_obj else set())
            for rec in inner:
                args = {}
                for p_, e in rec["args"].items():
                    # express the helper-scope expression in the caller's scope: substitute the helper's parameters
                    names = {n.id for n in ast.walk(e) if isinstance(n, ast.Name) and n.id in hp}
                    if all(n in m and isinstance(m[n], ast.AST) for n in names):
                        sub = {n: expr_at(fi, c, m[n]) for n in names}
                        args[p_] = fold(_SubstEnv(sub).visit(copy.deepcopy(e)))
                    else:
                        args[p_] = None
                missing = list(rec["missing"])
                comp = rec["complete"] and complete
                # the helper forwards its own **kwargs: the extra keywords of THIS call travel through to the target
                if hkwarg and hkwarg in rec.get("star", []):
                    extra = {k.arg: k.value for k in c.keywords if k.arg is not None and k.arg not in hp}
                    unresolved = False
                    for k in c.keywords:
                        if k.arg is not None:
                            continue
                        # **d at this call: a dict literal / dict(...) with constant keys travels through entry by entry
                        x = expr_at(fi, c, k.value)
                        items = None
                        if isinstance(x, ast.Dict) and all(isinstance(kk, ast.Constant) for kk in x.keys):
                            items = [(kk.value, v) for kk, v in zip(x.keys, x.values)]
                        elif isinstance(x, ast.Call) and isinstance(x.func, ast.Name) and x.func.id == "dict" and not x.args and all(kw.arg for kw in x.keywords):
                            items = [(kw.arg, kw.value) for kw in x.keywords]
                        if items is None:
                            unresolved = True
                            continue
                        for name_, v_ in items:
                            if name_ not in hp:
                                extra.setdefault(name_, v_)
                    for k_, v_ in extra.items():
                        if k_ in missing:
                            args[k_] = v_ if not any(isinstance(n_, ast.Name) for n_ in ast.walk(v_)) else expr_at(fi, c, v_)
                            missing.remove(k_)
                    comp = complete and not unresolved and len(rec.get("star", [])) == 1
                out.append({"call": rec["call"], "holder": rec["holder"], "chain": [fi.node.name] + rec["chain"], "args": args, "missing": missing,
                            "complete": comp, "errors": rec["errors"] + errs, "outer_call": c, "star": []})
    return out


# ----------------------------------------------------------------------------- element-wise canonical forms
class _CanonElem(ast.NodeTransformer):
    """np.real(X) -> X.real, np.imag(X) -> X.imag, np.abs/np.absolute(X) -> abs(X), X.T[k] -> X[:, k], np.conj(X) -> X.conj()"""

    def __init__(self, prog, fi):
        self.prog, self.fi = prog, fi

    def visit_Call(self, node):
        self.generic_visit(node)
        nm = callee_name(self.prog, self.fi, node)
        if nm in ("numpy.real", "numpy.imag") and len(node.args) == 1:
            return ast.Attribute(value=node.args[0], attr=nm.split(".")[-1], ctx=ast.Load())
        if nm in ("numpy.abs", "numpy.absolute") and len(node.args) == 1:
            return ast.Call(func=ast.Name(id="abs", ctx=ast.Load()), args=node.args, keywords=[])
        return node

    def visit_Attribute(self, node):
        self.generic_visit(node)
        if node.attr == "T":
            v = node.value
            # X.T.T -> X ; X.copy().T -> X.T ; where(c, a, b).T -> where(c.T, a.T, b.T) ; masks and scalars transposed in place
            if isinstance(v, ast.Attribute) and v.attr == "T":
                return v.value
            if isinstance(v, ast.Call) and isinstance(v.func, ast.Attribute) and v.func.attr == "copy" and not v.args:
                return self.visit(ast.Attribute(value=v.func.value, attr="T", ctx=ast.Load()))
            if isinstance(v, ast.Call) and callee_name(self.prog, self.fi, v) == "numpy.where" and len(v.args) == 3:
                return ast.Call(func=v.func, args=[self.visit(ast.Attribute(value=a, attr="T", ctx=ast.Load())) for a in v.args], keywords=[])
            if isinstance(v, ast.Call) and isinstance(v.func, ast.Name) and v.func.id in (ROWMASK, COLMASK):
                return ast.Call(func=ast.Name(id=COLMASK if v.func.id == ROWMASK else ROWMASK, ctx=ast.Load()), args=v.args, keywords=[])
            if isinstance(v, ast.Constant) or (isinstance(v, ast.Attribute) and v.attr.lower() == "nan"):
                return v
        return node

    def visit_Subscript(self, node):
        self.generic_visit(node)
        if isinstance(node.value, ast.Attribute) and node.value.attr == "T" and not isinstance(node.slice, (ast.Tuple, ast.Slice)):
            return ast.Subscript(value=node.value.value, slice=ast.Tuple(elts=[ast.Slice(lower=None, upper=None, step=None), node.slice], ctx=ast.Load()), ctx=node.ctx)
        return node


def canon_elem(prog, fi, e):
    return _CanonElem(prog, fi).visit(copy.deepcopy(e))


def strip_index(e, k):
    """generalise an element expression to the whole array: X[k] -> X, X[:, k] -> X (k a loop-variable name); returns
    (expression, [(array dump, axis)] of the stripped accesses)"""
    hits = []

    class T(ast.NodeTransformer):
        def visit_Subscript(self, node):
            self.generic_visit(node)
            if isinstance(node.slice, ast.Name) and node.slice.id == k:
                hits.append((dump(node.value), 0))
                return node.value
            if isinstance(node.slice, ast.Tuple) and len(node.slice.elts) == 2 and is_full_slice(node.slice.elts[0]) and isinstance(node.slice.elts[1], ast.Name) and node.slice.elts[1].id == k:
                hits.append((dump(node.value), 1))
                return node.value
            return node
    return T().visit(copy.deepcopy(e)), hits


def loop_variant_names(loop):
    """names whose value (may) depend on the loop variable: the target, and transitively everything assigned / accumulated /
    appended inside the body from an expression that mentions a variant name"""
    variant = {n.id for n in ast.walk(loop.target) if isinstance(n, ast.Name)}

    def mentions(e):
        return any(isinstance(z, ast.Name) and z.id in variant for z in ast.walk(e))
    changed = True
    while changed:
        changed = False
        for st in ast.walk(loop):
            new = set()
            if isinstance(st, ast.Assign) and mentions(st.value):
                for t in st.targets:
                    base = t
                    while isinstance(base, (ast.Subscript, ast.Attribute)):
                        base = base.value
                    new |= {n.id for n in ast.walk(base) if isinstance(n, ast.Name)} if not isinstance(t, (ast.Tuple, ast.List)) else {n.id for n in ast.walk(t) if isinstance(n, ast.Name)}
            elif isinstance(st, ast.AugAssign) and (mentions(st.value) or mentions(st.target)):
                base = st.target
                while isinstance(base, (ast.Subscript, ast.Attribute)):
                    base = base.value
                new |= {n.id for n in ast.walk(base) if isinstance(n, ast.Name)}
            elif isinstance(st, ast.For) and st is not loop and mentions(st.iter):
                new |= {n.id for n in ast.walk(st.target) if isinstance(n, ast.Name)}
            elif isinstance(st, (ast.ListComp, ast.GeneratorExp, ast.SetComp, ast.DictComp)):
                for g in st.generators:
                    if mentions(g.iter):
                        new |= {n.id for n in ast.walk(g.target) if isinstance(n, ast.Name)}
            elif isinstance(st, ast.Call) and isinstance(st.func, ast.Attribute) and st.func.attr in ("append", "extend", "insert", "update", "add") \
                    and isinstance(st.func.value, ast.Name) and any(mentions(a) for a in st.args):
                new.add(st.func.value.id)
            if new - variant:
                variant |= new
                changed = True
    return variant


# ----------------------------------------------------------------------------- outcomes under constant seeds
def outcomes(body, consts):
    """the set of ways the statement list can end once the branches decidable from `consts` are removed:
    'raise:<Exc>' / 'return' / 'fall' (runs off the end).  Loops and try blocks are treated as falling through unless they
    contain nothing but raises."""
    stmts = prune(body, consts)
    return _outcomes(stmts)


def _exc_name(r):
    if r.exc is None:
        return "re-raise"
    return src(r.exc.func) if isinstance(r.exc, ast.Call) else src(r.exc)


def _outcomes(stmts):
    for i, s in enumerate(stmts):
        if isinstance(s, ast.Raise):
            return {"raise:" + _exc_name(s)}
        if isinstance(s, ast.Return):
            return {"return"}
        if isinstance(s, ast.If):
            a, b = _outcomes(s.body), _outcomes(s.orelse)
            both = a | b
            if "fall" not in both:
                return both
            rest = _outcomes(stmts[i + 1:])
            return (both - {"fall"}) | rest
        if isinstance(s, (ast.With,)):
            a = _outcomes(s.body)
            if "fall" not in a:
                return a
            return (a - {"fall"}) | _outcomes(stmts[i + 1:])
    return {"fall"}


# ----------------------------------------------------------------------------- hand-over of attributes / parameters to a callee
def _read_point(fi, call, attr_src, order, pos):
    """the statement at which the value `attr_src` that reaches `call` through a local name was read (the call itself when the
    attribute is read in the argument list)"""
    here = pos.get(id(call))
    if here is None:
        return call
    assigns = [n for n in order if isinstance(n, ast.Assign) and len(n.targets) == 1 and isinstance(n.targets[0], ast.Name)]
    best = None
    for a in list(call.args) + [k.value for k in call.keywords]:
        a = a.value if isinstance(a, ast.Starred) else a
        cur, at, hops = a, call, 0
        while isinstance(cur, ast.Name) and hops < 8:
            prev = [x for x in assigns if x.targets[0].id == cur.id and pos[id(x)] < pos[id(at)]]
            if not prev:
                break
            d = prev[-1]
            hops += 1
            if isinstance(d.value, ast.Attribute) and (src(d.value) == attr_src or src(expr_at(fi, d, d.value)) == attr_src):
                if best is None or pos[id(d)] < pos[id(best)]:
                    best = d
                break
            cur, at = d.value, d
    return best if best is not None else call


def attr_store_status(fi, at_node, attr_src):
    """for an expression like `self.run_params.DF` read at `at_node`: ("before", value) if the last store into it on the straight-line
    path precedes the read, ("after", value) if the first store comes later in the function, (None, None) if it is never stored"""
    order = [n for s_ in fi.node.body for n in ast.walk(s_)]
    pos = {id(n): i for i, n in enumerate(order)}
    if isinstance(at_node, ast.Call):
        # the attribute may have been read EARLIER than the call, into a local that is handed over (`tol = self.run_params.rtol` ...
        # `f(rtol=tol)`): the point of the read is what counts
        at_node = _read_point(fi, at_node, attr_src, order, pos)
    here = pos.get(id(at_node))
    before, after = None, None
    # the object the field lives in (`self.run_params` of `self.run_params.DF`) may be replaced as a whole by an updated copy:
    # self.run_params = <old>.model_copy(update={"DF": DF}) stores DF for every LATER read through `self.run_params` - but not for a
    # read through a local name that was bound to the object before the replacement
    obj_src, _, fld = attr_src.rpartition(".")
    alias_at = None
    # the read goes through a local name for the object (`rp.DF` with `rp = self.run_params` some statements earlier, possibly through
    # further copies of the name): the object is the one the attribute held when that name was bound
    reads = []
    if isinstance(at_node, ast.Assign):
        reads = [at_node.value]
    elif isinstance(at_node, ast.Call):
        reads = [a.value if isinstance(a, ast.Starred) else a for a in at_node.args] + [k.value for k in at_node.keywords]
    for rd in reads:
        if isinstance(rd, ast.Attribute) and rd.attr == fld and isinstance(rd.value, ast.Name) and rd.value.id != "self" and pos.get(id(at_node)) is not None:
            al, lim, hops = rd.value.id, pos[id(at_node)], 0
            while hops < 8:
                hops += 1
                binds = [x for x in order if isinstance(x, ast.Assign) and len(x.targets) == 1 and isinstance(x.targets[0], ast.Name) and x.targets[0].id == al
                         and pos[id(x)] < lim]
                if not binds:
                    break
                b_ = binds[-1]
                if isinstance(b_.value, ast.Name):
                    al, lim = b_.value.id, pos[id(b_)]
                    continue
                if src(b_.value) == obj_src:
                    alias_at = pos[id(b_)]
                break
            if alias_at is not None:
                break
    for n in order:
        if isinstance(n, ast.Assign) and len(n.targets) == 1 and isinstance(n.targets[0], ast.Attribute) and src(n.targets[0]) == obj_src \
                and isinstance(n.value, ast.Call) and isinstance(n.value.func, ast.Attribute) and n.value.func.attr == "model_copy":
            upd = expr_at(fi, n, kwarg(n.value, "update")) if kwarg(n.value, "update") is not None else None
            if isinstance(upd, ast.Dict):
                for k_, v_ in zip(upd.keys, upd.values):
                    if isinstance(k_, ast.Constant) and k_.value == fld:
                        if here is not None and pos[id(n)] < here and (alias_at is None or alias_at > pos[id(n)]):
                            before = (n, v_)
                        elif after is None and (here is None or pos[id(n)] > here or (alias_at is not None and alias_at < pos[id(n)])):
                            after = (n, v_)
    for n in order:
        if isinstance(n, ast.Assign):
            pairs = []
            for t in n.targets:
                if isinstance(t, (ast.Tuple, ast.List)) and isinstance(n.value, (ast.Tuple, ast.List)) and len(t.elts) == len(n.value.elts):
                    pairs += list(zip(t.elts, n.value.elts))
                else:
                    pairs.append((t, n.value))
            for t, v in pairs:
                if not isinstance(t, ast.Attribute):
                    continue
                hit = src(t) == attr_src
                if not hit and attr_src.endswith("." + t.attr) and isinstance(t.value, ast.Name) and t.value.id != "self":
                    # stored through a local name for the object (prm = self.run_params; prm.rtol = rtol)
                    load_ = copy.deepcopy(t.value)
                    load_.ctx = ast.Load()
                    hit = src(expr_at(fi, n, load_)) + "." + t.attr == attr_src
                if hit:
                    if here is not None and pos[id(n)] < here:
                        before = (n, v)
                    elif after is None:
                        after = (n, v)
    if before is not None:
        return "before", expr_at(fi, before[0], before[1])
    if after is not None:
        return "after", after[1]
    return None, None


def updated_copy_field(a):
    """`<obj>.model_copy(update={"f": v, ..}).f` is v; a field the update does not name is the field of <obj> (pydantic copies; also
    `.copy(update=..)`)"""
    for _ in range(4):
        if isinstance(a, ast.Attribute) and isinstance(a.value, ast.Call) and isinstance(a.value.func, ast.Attribute) and a.value.func.attr in ("model_copy", "copy"):
            upd = kwarg(a.value, "update")
            if isinstance(upd, ast.Dict) and all(isinstance(k_, ast.Constant) for k_ in upd.keys):
                hit = next((v_ for k_, v_ in zip(upd.keys, upd.values) if k_.value == a.attr), None)
                a = hit if hit is not None else ast.copy_location(ast.Attribute(value=a.value.func.value, attr=a.attr, ctx=ast.Load()), a)
                continue
            if upd is None and not a.value.args:
                a = ast.copy_location(ast.Attribute(value=a.value.func.value, attr=a.attr, ctx=ast.Load()), a)
                continue
        break
    return a


def handover(prog, fi, callee_qual, want, depth=1):
    """check how `fi` hands values to the package function `callee_qual`.  want: {callee parameter: acceptable source texts}; a source is
    the text of the argument after flow-sensitive expansion (`self.run_params.nxseg`, a parameter name of fi, `self.result.S_val`, ...).
    -> [(call, param, status, detail)] with status True / False / None.  An attribute that is read before the method stores the
    caller's value into it is STALE (the value of an earlier call) and therefore wrong."""
    out = []
    recs = forwarded_args(prog, fi, callee_qual, depth=depth)
    params = set(params_of(fi.node)[0] + params_of(fi.node)[1])
    for rec in recs:
        c = rec["outer_call"]
        for p_, sources in want.items():
            if p_ in rec["missing"]:
                st_, why_ = (False if rec["complete"] else None), ""
                if st_ is False:
                    # the wanted value may reach the callee inside another argument (the whole option dictionary, a tuple made of it)
                    roots = {re.sub(r"(\[[^\]]*\]|\.get\([^)]*\))$", "", t_) for t_ in sources}
                    for q_, x_ in rec["args"].items():
                        xt = src(x_, 4000) if isinstance(x_, ast.AST) else ""
                        hit = next((r_ for r_ in roots if r_ and r_ in xt), None)
                        if hit is not None:
                            st_, why_ = None, f"; `{hit}` reaches the callee through its parameter `{q_}` - how it is used there was not followed"
                            break
                out.append((c, p_, st_, f"`{p_}` is not passed (the callee's default is used)" + why_))
                continue
            a = rec["args"].get(p_)
            if a is None:
                out.append((c, p_, None, f"argument for `{p_}` could not be expressed in the caller's scope"))
                continue
            a = updated_copy_field(a)
            if isinstance(a, ast.IfExp) and isinstance(a.orelse, ast.Name) and a.orelse.id == CALLEE_DEFAULT and isinstance(a.test, ast.Compare) \
                    and len(a.test.ops) == 1 and isinstance(a.test.ops[0], ast.IsNot) and isinstance(a.test.comparators[0], ast.Constant) and a.test.comparators[0].value is None:
                a = a.body          # left out only when None ("not set"): no setting is lost
            if isinstance(a, ast.IfExp) and isinstance(a.orelse, ast.Name) and a.orelse.id == CALLEE_DEFAULT:
                inner = src(a.body, 120)
                # dropping a falsy value matters where 0 / 0.0 / False is a legitimate setting: parameters whose default is a float or a bool
                # (an overlap of 0.0, zero_phase=False), or an axis; an empty string / a zero length is not a setting anyone loses
                cal = prog.functions.get(callee_qual) or next((f_ for q_, f_ in prog.functions.items() if q_.endswith("." + callee_qual)), None)
                dflt = None
                if cal is not None:
                    a_ = cal.node.args
                    pos_ = [x.arg for x in a_.posonlyargs + a_.args]
                    dmap = dict(zip(pos_[len(pos_) - len(a_.defaults):], a_.defaults))
                    dmap.update({k.arg: d for k, d in zip(a_.kwonlyargs, a_.kw_defaults) if d is not None})
                    dflt = dmap.get(p_)
                legit = isinstance(dflt, ast.Constant) and (isinstance(dflt.value, (float, bool)) or (isinstance(dflt.value, int) and p_ in ("axis",)))
                if legit:
                    out.append((c, p_, False, f"`{p_}` <- `{inner}` only when that value is truthy: a legitimate falsy setting (0, 0.0, False) is dropped and the callee's default ({src(dflt)}) is used instead"))
                    continue
                a = a.body
            txt = src(a, 120)
            if txt in sources:
                # an attribute source must not be stale
                if isinstance(a, ast.Attribute) and txt.startswith("self.run_params."):
                    st, v = attr_store_status(rec["holder"] if rec["holder"] is fi else fi, c, txt)
                    if st == "after":
                        out.append((c, p_, False, f"`{p_}` <- `{txt}` is read BEFORE this call's value is stored into it (`{txt} = {src(v, 30)}` comes later): the value of the previous call is used"))
                        continue
                out.append((c, p_, True, f"`{p_}` <- `{txt}`"))
                continue
            # an attribute holding the caller's own parameter, stored before the call
            if isinstance(a, ast.Attribute):
                st, v = attr_store_status(fi, c, txt)
                if st == "before" and v is not None and src(v, 120) in sources:
                    out.append((c, p_, True, f"`{p_}` <- `{txt}` (= `{src(v, 40)}` stored just before)"))
                    continue
                if st == "after":
                    out.append((c, p_, False, f"`{p_}` <- `{txt}` is read BEFORE `{txt} = {src(v, 30)}` is executed: the value of the previous call is used"))
                    continue
            recognisable = isinstance(a, (ast.Name, ast.Constant, ast.Attribute)) or (isinstance(a, ast.Subscript) and isinstance(a.slice, ast.Constant))
            note = ""
            if isinstance(a, ast.Attribute) and txt.startswith("self.run_params.") and a.attr in sources:
                note = f" - the stored parameter as it was before this request (no store of this call's `{a.attr}` into it precedes the read)"
            out.append((c, p_, False if recognisable else None, f"`{p_}` receives `{txt}`, expected one of {sorted(sources)}{note}"))
    return out


def dropped_options_rule(prog, run, rule, quals):
    """every call `f(.., **opts)` in the given functions whose options can be written out: an option whose value is a falsy CONSTANT that
    is a setting (0, 0.0, False) and that is let through only when it is truthy never arrives - the callee's default is used"""
    from .program import rel
    n = 0
    for q in quals:
        fi = prog.functions[q]
        f = rel(prog.mods[fi.mod].path)
        for c in ast.walk(fi.node):
            if not (isinstance(c, ast.Call) and any(k.arg is None for k in c.keywords)):
                continue
            for k in c.keywords:
                if k.arg is not None:
                    continue
                items = dict_items_of(prog, fi, expr_at(fi, c, k.value))
                if items is None:
                    continue
                n += 1
                lost, unsure = [], []
                # defaults of the callee: its own signature inside the package, the documented ones of the numpy reductions otherwise
                r_ = prog.resolve_call(fi, c)
                dflt = {}
                if getattr(r_, "node", None) is not None and isinstance(r_.node, ast.FunctionDef):
                    a_ = r_.node.args
                    pos_ = [x_.arg for x_ in a_.posonlyargs + a_.args]
                    dflt = {p_: d_.value for p_, d_ in zip(pos_[len(pos_) - len(a_.defaults):], a_.defaults) if isinstance(d_, ast.Constant)}
                    dflt.update({k_.arg: d_.value for k_, d_ in zip(a_.kwonlyargs, a_.kw_defaults) if isinstance(d_, ast.Constant)})
                elif (callee_name(prog, fi, c) or "").startswith("numpy."):
                    dflt = {"axis": None, "keepdims": False, "dtype": None, "out": None}
                for key, v in items:
                    if isinstance(v, ast.IfExp) and isinstance(v.orelse, ast.Name) and v.orelse.id == CALLEE_DEFAULT and dump(v.test) == dump(v.body):
                        b = v.body
                        if isinstance(b, ast.Constant) and b.value is not None and not isinstance(b.value, str) and not b.value:
                            if key in dflt and dflt[key] == b.value and type(dflt[key]) is type(b.value):
                                continue            # what is dropped is the callee's default anyway
                            (lost if key in dflt else unsure).append(f"{key}={b.value!r}")
                run.ob(rule, fi.qual, f"options of `{src(c.func, 40)}`", (not lost) if not (unsure and not lost) else None,
                       f"`{src(c, 70)}`" + ("" if not lost else f": {', '.join(lost)} is a setting, but the filter lets an option through only when it is truthy - it never arrives, the "
                                                               f"default of {src(c.func, 30)} applies"), witness=",".join(lost), file=f, node=c)
    if not n:
        run.ob(rule, quals[0] if quals else "-", "option dictionaries", True, "no call with a spread option dictionary that can be written out")


# ----------------------------------------------------------------------------- shortcut taken under a guard
_SCALAR_OF = {"max", "min", "size", "shape", "amax", "amin", "nanmax", "nanmin", "len", "ptp", "sum", "ndim", "unique", "any", "all"}
_ELEMENTWISE_EQ = {"array_equal", "array_equiv", "allclose"}
_ORDER_BLIND = {"set", "sorted", "frozenset", "difference", "issubset", "issuperset", "symmetric_difference", "isdisjoint", "intersection", "union", "len", "Counter"}


def _first_index(sub):
    el = index_elts(sub)
    return el[0] if el else None


def _slice_bounds(e):
    """(lo, hi) of `slice(lo, hi)` / `slice(hi)` / the leading `lo:hi` of a subscript, with a missing lower bound as 0; None otherwise"""
    if isinstance(e, ast.Call) and isinstance(e.func, ast.Name) and e.func.id == "slice" and 1 <= len(e.args) <= 2 and not e.keywords:
        lo, hi = (ast.Constant(value=0), e.args[0]) if len(e.args) == 1 else (e.args[0], e.args[1])
        if isinstance(lo, ast.Constant) and lo.value is None:
            lo = ast.Constant(value=0)
        return lo, hi
    if isinstance(e, ast.Slice) and e.step is None and e.upper is not None:
        return (e.lower if e.lower is not None else ast.Constant(value=0)), e.upper
    return None


def _ramp_bounds(e):
    """(lo, hi) of np.arange(lo, hi) / np.arange(hi) / range(..) / list(range(..))"""
    while isinstance(e, ast.Call) and isinstance(e.func, ast.Name) and e.func.id in ("list", "tuple") and len(e.args) == 1:
        e = e.args[0]
    if isinstance(e, ast.Call) and src(e.func).split(".")[-1] in ("arange", "range") and 1 <= len(e.args) <= 2 and all(k.arg == "dtype" for k in e.keywords):
        return (ast.Constant(value=0), e.args[0]) if len(e.args) == 1 else (e.args[0], e.args[1])
    return None


def _branch_results(stmts):
    """what a branch hands on: ('ret', [values]) of its final return, else {'name': value} of its plain assignments"""
    if stmts and isinstance(stmts[-1], ast.Return) and stmts[-1].value is not None:
        v = stmts[-1].value
        return "ret", (list(v.elts) if isinstance(v, ast.Tuple) else [v])
    out = {}
    for s in stmts:
        if isinstance(s, ast.Assign) and len(s.targets) == 1 and isinstance(s.targets[0], ast.Name):
            out[s.targets[0].id] = s.value
        elif isinstance(s, ast.Assign) and len(s.targets) == 1 and isinstance(s.targets[0], ast.Tuple) and isinstance(s.value, ast.Tuple) \
                and len(s.value.elts) == len(s.targets[0].elts):
            for t_, v_ in zip(s.targets[0].elts, s.value.elts):
                if isinstance(t_, ast.Name):
                    out[t_.id] = v_
    return "set", out


def shortcut_sites(fi):
    """[(if node, fast expr, slow expr, idx expr, (lo, hi), negated)]: an `if` one of whose branches hands on a contiguous block
    (`slice(lo, hi)` / `X[lo:hi]`) where the other branch (or the code after an early return) hands on the gathered selection
    (`idx` / `X[idx]`) at the same place"""
    out = []
    pm = parent_map(fi.node)
    for ifn in ast.walk(fi.node):
        if not isinstance(ifn, ast.If):
            continue
        other = ifn.orelse
        if not other and _terminates(ifn.body):
            par = pm.get(ifn)
            for fld in ("body", "orelse", "finalbody"):
                blk = getattr(par, fld, None)
                if isinstance(blk, list) and any(x is ifn for x in blk):
                    other = blk[[i for i, x in enumerate(blk) if x is ifn][0] + 1:]
        if not other:
            continue
        k1, r1 = _branch_results(ifn.body)
        k2, r2 = _branch_results(other)
        if k1 != k2:
            continue
        pairs = list(zip(r1, r2)) if k1 == "ret" and len(r1) == len(r2) else [(r1[n_], r2[n_]) for n_ in r1 if n_ in r2] if k1 == "set" else []
        for a, b in pairs:
            for fast, slow, neg in ((a, b, False), (b, a, True)):
                while isinstance(fast, ast.Call) and isinstance(fast.func, ast.Attribute) and fast.func.attr in ("copy", "astype") :
                    fast = fast.func.value
                while isinstance(slow, ast.Call) and (src(slow.func).split(".")[-1] in ("ascontiguousarray", "asarray", "array", "copy")) and slow.args:
                    slow = slow.args[0] if not isinstance(slow.func, ast.Attribute) or src(slow.func).split(".")[0] in ("np", "numpy") else slow.func.value
                sb = _slice_bounds(fast)
                idx = slow if sb is not None and not isinstance(slow, ast.Subscript) else None
                if sb is None and isinstance(fast, ast.Subscript) and isinstance(slow, ast.Subscript) and dump(fast.value) == dump(slow.value):
                    f0, s0 = _first_index(fast), _first_index(slow)
                    sb = _slice_bounds(f0) if f0 is not None else None
                    idx = s0 if s0 is not None and not isinstance(s0, ast.Slice) else None
                    if sb is not None and [dump(x) for x in index_elts(fast)[1:]] != [dump(x) for x in index_elts(slow)[1:]]:
                        sb = None
                if sb is None or idx is None or _slice_bounds(idx) is not None or isinstance(idx, ast.Constant):
                    continue
                out.append((ifn, fast, slow, idx, sb, neg))
    return out


def _complement_of(fi, idx):
    """idx = np.flatnonzero(M) / np.where(M)[0] with M = np.ones(n, dtype=bool); M[L] = False  ->  (name of L, n); None otherwise"""
    e = idx
    if isinstance(e, ast.Subscript) and isinstance(e.slice, ast.Constant) and e.slice.value == 0:
        e = e.value
    if not (isinstance(e, ast.Call) and src(e.func).split(".")[-1] in ("flatnonzero", "where", "nonzero") and len(e.args) == 1 and isinstance(e.args[0], ast.Name)):
        return None
    m = e.args[0].id
    n_, L = None, None
    for s_ in ast.walk(fi.node):
        if isinstance(s_, ast.Assign) and len(s_.targets) == 1:
            t_ = s_.targets[0]
            if isinstance(t_, ast.Name) and t_.id == m:
                v = s_.value
                if isinstance(v, ast.Call) and src(v.func).split(".")[-1] == "ones" and v.args and any(k.arg == "dtype" and src(k.value) in ("bool", "np.bool_") for k in v.keywords):
                    n_ = v.args[0]
                else:
                    return None
            elif isinstance(t_, ast.Subscript) and isinstance(t_.value, ast.Name) and t_.value.id == m:
                if isinstance(t_.slice, ast.Name) and isinstance(s_.value, ast.Constant) and s_.value.value is False and L is None:
                    L = t_.slice.id
                else:
                    return None
    return (L, n_) if L is not None and n_ is not None else None


def shortcut_rule(prog, run, rule, quals):
    """a contiguous block taken instead of a gathered selection is the same selection only when the guard says that the index list IS
    the ramp lo..hi-1, element by element; a guard made of sizes and extreme values alone also lets through the same indices in another
    order.  True: element-wise comparison with the ramp of the slice; False: only scalar facts of the index list; None otherwise."""
    from .program import rel
    n = 0
    for q in quals:
        fi = prog.functions.get(q)
        if fi is None:
            continue
        f = rel(prog.mods[fi.mod].path)
        for ifn, fast, slow, idx, (lo, hi), neg in shortcut_sites(fi):
            n += 1
            g = expr_at(fi, ifn, ifn.test)
            idx_x = expr_at(fi, ifn, idx)
            roots = {src(idx), src(idx_x)} | {x.id for x in ast.walk(idx) if isinstance(x, ast.Name) and x.id not in ("np", "numpy", "scipy", "self")}
            lo_x, hi_x = expr_at(fi, ifn, lo), expr_at(fi, ifn, hi)

            def mentions(e):
                return any((isinstance(x, ast.Name) and x.id in roots) or src(x) in roots for x in ast.walk(e))
            verdict, why = None, "the guard is not of a form this rule reads"
            strong = None
            for c in ast.walk(g):
                if isinstance(c, ast.Call) and src(c.func).split(".")[-1] in _ELEMENTWISE_EQ and len(c.args) >= 2:
                    for a_, b_ in ((c.args[0], c.args[1]), (c.args[1], c.args[0])):
                        if mentions(a_) and _ramp_bounds(b_) is not None:
                            strong = _ramp_bounds(b_)
                elif isinstance(c, ast.Compare) and len(c.ops) == 1 and isinstance(c.ops[0], ast.Eq):
                    for a_, b_ in ((c.left, c.comparators[0]), (c.comparators[0], c.left)):
                        if mentions(a_) and _ramp_bounds(b_) is not None:
                            strong = _ramp_bounds(b_)
            comp = None
            if strong is None:
                comp = _complement_of(fi, idx)
                if comp is not None:
                    # the gathered selection is the complement of a list L in 0..n-1: under `L == ramp 0..k` it is the ramp k..n
                    L, n_ = comp
                    roots2 = {L}
                    for c in ast.walk(g):
                        if isinstance(c, ast.Call) and src(c.func).split(".")[-1] in _ELEMENTWISE_EQ and len(c.args) >= 2:
                            for a_, b_ in ((c.args[0], c.args[1]), (c.args[1], c.args[0])):
                                if any(isinstance(x, ast.Name) and x.id in roots2 for x in ast.walk(a_)) and _ramp_bounds(b_) is not None:
                                    rb = _ramp_bounds(b_)
                                    if isinstance(rb[0], ast.Constant) and rb[0].value == 0:
                                        strong = (rb[1], n_)
            sorted_before = any(isinstance(s_, ast.Assign) and any(isinstance(t_, ast.Name) and t_.id in roots for t_ in s_.targets) and isinstance(s_.value, ast.Call)
                                and src(s_.value.func).split(".")[-1] in ("sort", "unique", "sorted", "arange", "range") for s_ in ast.walk(fi.node))
            if neg:
                verdict, why = None, "the contiguous block is taken on the negative branch of the test"
            elif strong is not None:
                same = dump(fold(copy.deepcopy(strong[0]))) == dump(fold(copy.deepcopy(lo_x))) and dump(strong[1]) == dump(hi_x) or \
                    (src(strong[0]) == src(lo) and src(strong[1]) == src(hi)) or (src(expr_at(fi, ifn, strong[0])) == src(lo_x) and src(expr_at(fi, ifn, strong[1])) == src(hi_x))
                verdict = True if same else None
                why = f"the index list is compared element by element with the ramp {src(strong[0])}..{src(strong[1])}" + ("" if same else f", the block taken is {src(lo)}..{src(hi)}")
            elif sorted_before:
                verdict, why = None, "the index list is sorted / made unique before the test"
            else:
                # every appearance of the index list in the guard sits under a reduction to a scalar (size, extreme values, first / last element)
                uses = []
                pm = parent_map(g)
                for x in ast.walk(g):
                    if (isinstance(x, ast.Name) and x.id in roots) or (not isinstance(x, ast.Name) and src(x) in roots):
                        p_ = pm.get(x)
                        # conversions that keep the elements are looked through: np.asarray(idx).ravel().max() is still a fact about idx
                        while True:
                            if isinstance(p_, ast.Call) and x in p_.args and src(p_.func).split(".")[-1] in ("asarray", "array", "atleast_1d", "asanyarray", "ravel", "squeeze", "int_", "intp"):
                                x, p_ = p_, pm.get(p_)
                            elif isinstance(p_, ast.Attribute) and p_.attr in ("ravel", "flatten", "astype", "copy", "squeeze", "reshape") and isinstance(pm.get(p_), ast.Call) and pm.get(p_).func is p_:
                                x, p_ = pm.get(p_), pm.get(pm.get(p_))
                            else:
                                break
                        scalar = False
                        if isinstance(p_, ast.Attribute) and p_.attr in _SCALAR_OF:
                            scalar = True
                        elif isinstance(p_, ast.Call) and src(p_.func).split(".")[-1] in _SCALAR_OF and x in p_.args:
                            scalar = True
                        elif isinstance(p_, ast.Subscript) and p_.value is x and isinstance(p_.slice, (ast.Constant, ast.UnaryOp)):
                            scalar = True
                        uses.append(scalar)
                if uses and all(uses):
                    verdict = False
                    why = (f"the test `{src(ifn.test, 60)}` looks only at sizes / extreme values of `{src(idx)}`" if uses else f"the test `{src(ifn.test, 60)}` does not look at the elements of `{src(idx)}`") + \
                        f": the same indices in another order also take the block {src(lo)}:{src(hi)}, which is then not the listed selection"
            run.ob(rule, fi.qual, f"block `{src(fast, 40)}` in place of `{src(slow, 40)}`", verdict, why, witness=src(ifn.test, 80), file=f, node=ifn)
    if not n:
        run.ob(rule, quals[0] if quals else "-", "shortcuts", True, "no contiguous block is taken in place of a gathered selection")


def shortcut_obligations(prog, run, roots, rule="R-shortcut"):
    """shortcut_rule over everything reachable from the given functions (plot helpers left out)"""
    run.rule(rule, "where a contiguous block (slice) is taken in place of a gathered selection (index list), the guard compares the index list "
             "element by element with the ramp of that block - sizes / extreme values alone also admit the same indices in another order", 0)
    qs = [prog.func(r_).qual if not r_.startswith("pyoma2.") else r_ for r_ in roots]
    reach = sorted(q for q in prog.reachable(qs) if q in prog.functions and not q.startswith("pyoma2.functions.plot") and not q.startswith("pyoma2.support.geometry"))
    shortcut_rule(prog, run, rule, reach)


# ----------------------------------------------------------------------------- outputs of an eigen-decomposition
def eig_output_role(prog, fi, e):
    """which output of an eigen-decomposition the (expanded) expression e is: 'w' (eigenvalues), 'vl' (left eigenvectors), 'vr' (right
    eigenvectors); None when e is not a positional selection from such a call or the `left=` / `right=` flags are not constants.
    Layout (scipy.linalg.eig): (w, [vl if left], [vr if right]); numpy.linalg.eig: (w, vr)."""
    idxs = []
    x = e
    while True:
        if isinstance(x, ast.Subscript):
            idxs.append(x.slice)
            x = x.value
        elif isinstance(x, ast.Call) and isinstance(x.func, ast.Attribute) and x.func.attr in ("copy", "astype", "conj") and not isinstance(x.func.value, ast.Name):
            x = x.func.value
        else:
            break
    if not (isinstance(x, ast.Call) and (callee_name(prog, fi, x) or "").split(".")[-1] in ("eig", "eigh") and "linalg" in (callee_name(prog, fi, x) or "")):
        return None
    nm = callee_name(prog, fi, x)
    if nm.startswith("numpy.") or nm.endswith("eigh"):
        outs = ["w", "vr"]
    else:
        def flag(k, pos, default):
            v = kwarg(x, k, pos)
            if v is None:
                return default
            return v.value if isinstance(v, ast.Constant) and isinstance(v.value, bool) else None
        left, right = flag("left", 2, False), flag("right", 3, True)
        if left is None or right is None:
            return None
        outs = ["w"] + (["vl"] if left else []) + (["vr"] if right else [])
    # apply the chain of positional selections, innermost first
    for sl in reversed(idxs):
        if isinstance(sl, ast.Slice):
            def cv(b):
                if b is None:
                    return None
                b = fold(copy.deepcopy(b))
                if isinstance(b, ast.Constant) and isinstance(b.value, int):
                    return b.value
                if isinstance(b, ast.UnaryOp) and isinstance(b.op, ast.USub) and isinstance(b.operand, ast.Constant):
                    return -b.operand.value
                raise ValueError
            try:
                outs = outs[cv(sl.lower):cv(sl.upper):cv(sl.step)]
            except ValueError:
                return None
            continue
        k = sl
        if isinstance(k, ast.UnaryOp) and isinstance(k.op, ast.USub) and isinstance(k.operand, ast.Constant):
            k = ast.Constant(value=-k.operand.value)
        if not (isinstance(k, ast.Constant) and isinstance(k.value, int)) or not (-len(outs) <= k.value < len(outs)):
            return None
        if not isinstance(outs, list):
            return None             # element of an array, not of the tuple of outputs
        outs = outs[k.value]
    return outs if isinstance(outs, str) else None


# ----------------------------------------------------------------------------- an option of the caller that a helper repeats
def _mentions_data(val, dep):
    """a name of `dep` occurs in val other than as `x.shape` / `x.size` / `x.ndim` / `x.dtype` / `len(x)` / `x is y` (extents, not values)"""
    skip = set()
    for n in ast.walk(val):
        if isinstance(n, ast.Attribute) and n.attr in ("shape", "size", "ndim", "dtype") and isinstance(n.value, ast.Name):
            skip.add(id(n.value))
        elif isinstance(n, ast.Call) and isinstance(n.func, ast.Name) and n.func.id == "len" and n.args and isinstance(n.args[0], ast.Name):
            skip.add(id(n.args[0]))
        elif isinstance(n, ast.Compare) and all(isinstance(o, (ast.Is, ast.IsNot)) for o in n.ops):
            for x in [n.left] + n.comparators:
                if isinstance(x, ast.Name):
                    skip.add(id(x))
    return any(isinstance(x, ast.Name) and x.id in dep and id(x) not in skip for x in ast.walk(val))


def _depends_on(fn, seeds, data_only=False):
    """names of fn whose value may depend on the names in `seeds` (assignments, augmented assignments, loop targets; flow-insensitive);
    data_only: dependence through the values, not through extents (`x.shape[1]`, `len(x)`) or identity tests"""
    dep = set(seeds)
    changed = True
    while changed:
        changed = False
        for n in ast.walk(fn):
            tg, val = [], None
            if isinstance(n, ast.Assign):
                tg, val = n.targets, n.value
            elif isinstance(n, (ast.AugAssign, ast.AnnAssign)) and getattr(n, "value", None) is not None:
                tg, val = [n.target], n.value
            elif isinstance(n, (ast.For, ast.comprehension)):
                tg, val = [n.target], n.iter
            elif isinstance(n, ast.NamedExpr):
                tg, val = [n.target], n.value
            if data_only and isinstance(val, ast.IfExp) and isinstance(val.test, ast.Compare) and all(isinstance(o, ast.Is) for o in val.test.ops):
                val = val.orelse            # `A if y is x else f(y)`: a shortcut for the case that the two are one object; the general case counts
            if val is None or not (_mentions_data(val, dep) if data_only else any(isinstance(x, ast.Name) and x.id in dep for x in ast.walk(val))):
                continue
            for t in tg:
                for x in ast.walk(t):
                    if isinstance(x, ast.Name) and isinstance(x.ctx, ast.Store) and x.id not in dep:
                        dep.add(x.id)           # (a name that is bound; `self` in `self.x = v` is only read)
                        changed = True
    return dep


def repeated_option_rule(prog, run, rule, quals):
    """a helper that has a parameter of the same name and the same default as an option of its caller is handed that option: called
    without it, the helper works with its own default whatever the user set - unless what the helper returns from it is not used"""
    from .program import rel
    n = 0
    for q in quals:
        fi = prog.functions.get(q)
        if fi is None:
            continue
        f = rel(prog.mods[fi.mod].path)
        fpos, fkwo = params_of(fi.node)[0], params_of(fi.node)[1]
        fpar = set(fpos + fkwo) - {"self", "cls"}
        if not fpar:
            continue
        pm = None
        for c, r in prog.calls_in(fi):
            if not isinstance(r, FuncInfo) or r.node is fi.node or not isinstance(r.node, ast.FunctionDef):
                continue
            hpos, hkwo = params_of(r.node)[0], params_of(r.node)[1]
            shared = [p_ for p_ in hpos + hkwo if p_ in fpar and _param_default(r.node, p_) is not None]
            if not shared:
                continue
            m, errs, complete = bind_call(prog, fi, r.node, c, bound=r.cls is not None and not getattr(r, "is_static", False) and isinstance(c.func, ast.Attribute))
            for p_ in shared:
                dh, df = _param_default(r.node, p_), _param_default(fi.node, p_)
                def _lit(x_):
                    """(True, value) of a literal default, signed numbers included (-1.0 is a unary minus in the syntax tree)"""
                    try:
                        return True, ast.literal_eval(x_)
                    except Exception:
                        return False, None
                (okh, vh), (okf, vf) = _lit(dh), (_lit(df) if df is not None else (False, None))
                same_type = type(vh) is type(vf) or (isinstance(vh, (int, float)) and isinstance(vf, (int, float)) and not isinstance(vh, bool) and not isinstance(vf, bool))
                if df is not None and not (okh and okf and vh == vf and same_type):
                    continue                # another default: another meaning, or deliberately another value
                retyped = {id(t_) for a_ in ast.walk(fi.node) if isinstance(a_, ast.Assign) and len(a_.targets) == 1 and isinstance(a_.targets[0], ast.Name)
                           and isinstance(a_.value, ast.Call) and isinstance(a_.value.func, ast.Name) and a_.value.func.id in ("float", "int") and len(a_.value.args) == 1
                           and isinstance(a_.value.args[0], ast.Name) and a_.value.args[0].id == a_.targets[0].id for t_ in a_.targets}
                if any(isinstance(x, ast.Name) and x.id == p_ and isinstance(x.ctx, ast.Store) and id(x) not in retyped for x in ast.walk(fi.node)):
                    continue
                n += 1
                if p_ in m:
                    a = m[p_]
                    # (what is handed over is the business of the hand-over rules; this rule is about leaving the option out)
                    run.ob(rule, fi.qual, f"{p_} -> {r.node.name}.{p_}", True, f"`{src(c, 60)}`", witness=src(a, 40) if isinstance(a, ast.AST) else "", file=f, node=c)
                    continue
                if not complete:
                    run.ob(rule, fi.qual, f"{p_} -> {r.node.name}.{p_}", None, f"`{src(c, 60)}`: keywords spread from a mapping that is not written out", file=f, node=c)
                    continue
                # which returned values depend on the option, and are those used here?
                dep = _depends_on(r.node, {p_})
                rets = [x for x in ast.walk(r.node) if isinstance(x, ast.Return) and x.value is not None]
                width = {len(x.value.elts) if isinstance(x.value, ast.Tuple) else 1 for x in rets}
                dep_pos = set()
                for x in rets:
                    elts = x.value.elts if isinstance(x.value, ast.Tuple) else [x.value]
                    for i, e in enumerate(elts):
                        if any(isinstance(y, ast.Name) and y.id in dep for y in ast.walk(e)):
                            dep_pos.add(i)
                if pm is None:
                    pm = parent_map(fi.node)
                st = pm.get(c)
                used = None             # positions of the result that are used; None = all
                if isinstance(st, ast.Assign) and st.value is c and len(st.targets) == 1 and isinstance(st.targets[0], ast.Tuple) and len(width) == 1 \
                        and len(st.targets[0].elts) == next(iter(width)):
                    used = set()
                    for i, t in enumerate(st.targets[0].elts):
                        if isinstance(t, ast.Name) and (t.id == "_" or not any(isinstance(y, ast.Name) and y.id == t.id and isinstance(y.ctx, ast.Load) for y in ast.walk(fi.node))):
                            continue
                        used.add(i)
                elif isinstance(st, ast.Expr):
                    used = set()
                hit = dep_pos if used is None else (dep_pos & used)
                effect_only = not rets and dep - {p_}
                if hit or (not rets and effect_only) or (used is None and not dep_pos and dep - {p_}):
                    run.ob(rule, fi.qual, f"{p_} -> {r.node.name}.{p_}", False if hit else None,
                           f"`{src(c, 70)}` leaves out `{p_}`: {r.node.name} then works with its own default ({src(dh)}) instead of the caller's `{p_}`, and what it returns from it "
                           f"(position {sorted(hit)} of its result) is used" if hit else f"`{src(c, 70)}` leaves out `{p_}`", witness=f"{p_} not passed", file=f, node=c)
                else:
                    run.ob(rule, fi.qual, f"{p_} -> {r.node.name}.{p_}", True, f"`{src(c, 60)}` leaves out `{p_}`; nothing that depends on it is used from the result", file=f, node=c)
    if not n:
        run.ob(rule, quals[0] if quals else "-", "repeated options", True, "no helper repeats an option of its caller")


# ----------------------------------------------------------------------------- a table that takes its dtype from what the caller typed
_KEEP_DTYPE = {"asarray", "array", "atleast_1d", "atleast_2d", "asanyarray", "ravel", "flatten", "reshape", "copy", "squeeze", "ascontiguousarray", "T"}


def _user_typed(fi, e, params):
    """e is a parameter of fi turned into an array without naming a dtype (np.asarray(p), np.atleast_1d(p).ravel() ..): its dtype is
    whatever the caller typed - integers for `[2, 5, 8]`.  Returns the parameter name, else None"""
    x = e
    saw_conv = False
    while True:
        if isinstance(x, ast.Call):
            nm = src(x.func).split(".")[-1]
            if nm in ("astype",) or any(k.arg == "dtype" for k in x.keywords) or (nm in ("asarray", "array") and len(x.args) > 1):
                return None
            if nm in _KEEP_DTYPE:
                saw_conv = saw_conv or nm in ("asarray", "array", "atleast_1d", "atleast_2d", "asanyarray")
                is_method = isinstance(x.func, ast.Attribute) and not (isinstance(x.func.value, ast.Name) and x.func.value.id in ("np", "numpy"))
                x = x.func.value if is_method else (x.args[0] if x.args else None)
                if x is None:
                    return None
                continue
            return None
        if isinstance(x, ast.Attribute) and x.attr == "T":
            x = x.value
            continue
        break
    return x.id if isinstance(x, ast.Name) and x.id in params and saw_conv else None


def inherited_dtype_rule(prog, run, rule, quals):
    """a result table allocated `like` an array made from the caller's argument without a dtype has the caller's dtype: with whole
    numbers typed as integers every float stored into it is truncated, silently.  Flagged when values of ANOTHER origin (a frequency
    grid, a computed number) are stored into such a table."""
    from .program import rel
    n = 0
    for q in quals:
        fi = prog.functions.get(q)
        if fi is None:
            continue
        f = rel(prog.mods[fi.mod].path)
        params = set(params_of(fi.node)[0] + params_of(fi.node)[1]) - {"self", "cls"}
        for st in ast.walk(fi.node):
            if not (isinstance(st, ast.Assign) and len(st.targets) == 1 and isinstance(st.targets[0], ast.Name) and isinstance(st.value, ast.Call)):
                continue
            c = st.value
            nm = src(c.func).split(".")[-1]
            like = None
            if nm in ("empty_like", "zeros_like", "ones_like", "full_like") and c.args and not any(k.arg == "dtype" for k in c.keywords):
                like = c.args[0]
            elif nm in ("empty", "zeros", "ones", "full"):
                dt = kwarg(c, "dtype")
                if isinstance(dt, ast.Attribute) and dt.attr == "dtype":
                    like = dt.value
            if like is None:
                continue
            srcp = _user_typed(fi, expr_at(fi, st, like), params)
            if srcp is None:
                continue
            tab = st.targets[0].id
            n += 1
            bad = None
            for s2 in ast.walk(fi.node):
                if isinstance(s2, ast.Assign) and any(isinstance(t, ast.Subscript) and isinstance(t.value, ast.Name) and t.value.id == tab for t in s2.targets):
                    v = expr_at(fi, s2, s2.value)
                    names = {x.id for x in ast.walk(v) if isinstance(x, ast.Name)}
                    if isinstance(v, ast.Constant) and isinstance(v.value, int):
                        continue
                    if srcp in names and len(names & params) <= 1:
                        continue            # a value taken from the same argument: same dtype
                    bad = s2
                    break
            run.ob(rule, fi.qual, f"`{tab}` has the dtype of `{srcp}` as the caller typed it", bad is None,
                   f"`{src(st, 60)}`" + ("" if bad is None else f": `{src(bad, 60)}` stores values of another origin into it - whole numbers handed in as integers "
                                         f"(`[2, 5, 8]`) make it an integer array and every stored value is truncated without a warning"),
                   witness=src(st, 60), file=f, node=bad if bad is not None else st)
    if not n:
        run.ob(rule, quals[0] if quals else "-", "inherited dtypes", True, "no result table takes its dtype from an argument converted without a dtype")


# ----------------------------------------------------------------------------- orientation guessed from one extent
def orientation_guess_rule(prog, run, rule, quals):
    """`if X.shape[1] == n: X = X.T` turns an array given the other way round - and also one that is square and already the right
    way round (both extents equal n).  Sound only with the other extent excluded (`X.shape[0] != n and X.shape[1] == n`)."""
    from .program import rel
    n = 0
    for q in quals:
        fi = prog.functions.get(q)
        if fi is None:
            continue
        f = rel(prog.mods[fi.mod].path)
        for ifn in ast.walk(fi.node):
            if not isinstance(ifn, ast.If):
                continue
            tr = [s_ for s_ in ifn.body if isinstance(s_, ast.Assign) and len(s_.targets) == 1 and isinstance(s_.targets[0], ast.Name) and (
                (isinstance(s_.value, ast.Attribute) and s_.value.attr == "T" and isinstance(s_.value.value, ast.Name) and s_.value.value.id == s_.targets[0].id) or
                (isinstance(s_.value, ast.Call) and isinstance(s_.value.func, ast.Attribute) and s_.value.func.attr == "transpose" and not s_.value.args
                 and isinstance(s_.value.func.value, ast.Name) and s_.value.func.value.id == s_.targets[0].id))]
            if not tr:
                continue
            X = tr[0].targets[0].id
            comps = [c for c in ast.walk(ifn.test) if isinstance(c, ast.Compare) and len(c.ops) == 1]

            def extent(e, k):
                return isinstance(e, ast.Subscript) and isinstance(e.value, ast.Attribute) and e.value.attr == "shape" and isinstance(e.value.value, ast.Name) \
                    and e.value.value.id == X and src(e.slice) in k
            eq_last = [c for c in comps if isinstance(c.ops[0], ast.Eq) and (extent(c.left, ("1", "-1")) or extent(c.comparators[0], ("1", "-1")))]
            if not eq_last:
                continue
            other = eq_last[0].comparators[0] if extent(eq_last[0].left, ("1", "-1")) else eq_last[0].left
            excl = [c for c in comps if isinstance(c.ops[0], ast.NotEq) and (extent(c.left, ("0",)) or extent(c.comparators[0], ("0",)))
                    and dump(c.comparators[0] if extent(c.left, ("0",)) else c.left) == dump(other)]
            n += 1
            run.ob(rule, fi.qual, f"`{X}` is turned only when it is the other way round", bool(excl),
                   f"`if {src(ifn.test, 60)}: {src(tr[0], 30)}`" + ("" if excl else f": for a square `{X}` (both extents equal `{src(other, 30)}`) the test is true as well - an array that "
                                                                    f"is already the right way round is transposed, silently"),
                   witness=src(ifn.test, 60), file=f, node=ifn)
    if not n:
        run.ob(rule, quals[0] if quals else "-", "orientation guesses", True, "no array is transposed on the strength of one of its extents")


def rename_locals(fi, ren):
    """fi with the local names in `ren` (old -> canonical) renamed throughout its body: rules written in terms of a quantity's usual
    name find it by what it IS (its definition), whatever the source calls it.  Nothing is renamed when a canonical name is already in
    use for something else."""
    ren = {a: b for a, b in ren.items() if a != b}
    if not ren:
        return fi
    used = {n.id for n in ast.walk(fi.node) if isinstance(n, ast.Name)} | {a.arg for a in ast.walk(fi.node) if isinstance(a, ast.arg)}
    if (set(ren.values()) & used) - set(ren):
        return fi

    class _R(ast.NodeTransformer):
        def visit_Name(self, x):
            return ast.copy_location(ast.Name(id=ren[x.id], ctx=x.ctx), x) if x.id in ren else x
    fi.node = ast.fix_missing_locations(_R().visit(copy.deepcopy(fi.node)))
    return fi



def empty_selection_rule(prog, run, rule, quals):
    """`if not m.any(): .. x[m] ..` (also `np.any(m)`, `m.sum() == 0`, `not m.max()`): a selection by the mask m that is carried out only
    when m accepts NOTHING selects nothing - and whenever m accepts at least one element the ones it rejects are kept.  The guard of a
    filter that removes what m rejects is `not m.all()`."""
    from .program import rel
    n = 0

    def none_accepted(test):
        """the mask name when the test is true exactly if no element of the mask is set"""
        t = test
        if isinstance(t, ast.UnaryOp) and isinstance(t.op, ast.Not):
            c = t.operand
            if isinstance(c, ast.Call) and isinstance(c.func, ast.Attribute) and c.func.attr in ("any", "max") and isinstance(c.func.value, ast.Name) and not c.args:
                return c.func.value.id
            if isinstance(c, ast.Call) and src(c.func).split(".")[-1] == "any" and len(c.args) == 1 and isinstance(c.args[0], ast.Name):
                return c.args[0].id
        if isinstance(t, ast.Compare) and len(t.ops) == 1 and isinstance(t.ops[0], ast.Eq) and isinstance(t.comparators[0], ast.Constant) and t.comparators[0].value == 0:
            c = t.left
            if isinstance(c, ast.Call) and isinstance(c.func, ast.Attribute) and c.func.attr in ("sum", "count_nonzero") and isinstance(c.func.value, ast.Name) and not c.args:
                return c.func.value.id
            if isinstance(c, ast.Call) and src(c.func).split(".")[-1] in ("sum", "count_nonzero") and len(c.args) == 1 and isinstance(c.args[0], ast.Name):
                return c.args[0].id
        return None
    for q in quals:
        fi = prog.functions.get(q)
        if fi is None:
            continue
        f = rel(prog.mods[fi.mod].path)
        for ifn in ast.walk(fi.node):
            if not isinstance(ifn, ast.If):
                continue
            m = none_accepted(ifn.test)
            if m is None:
                continue
            for st in ifn.body:
                for sub in ast.walk(st):
                    if isinstance(sub, ast.Subscript) and isinstance(sub.ctx, ast.Load) and isinstance(sub.slice, ast.Name) and sub.slice.id == m:
                        n += 1
                        run.ob(rule, fi.qual, f"a filter by `{m}` is applied whenever `{m}` rejects something", False,
                               f"`{src(sub, 40)}` under `{src(ifn.test, 40)}`: the selection is made only when `{m}` accepts nothing (it is then empty); when some elements pass and "
                               f"others do not, the rejected ones are kept", witness=f"{src(ifn.test, 30)}:{src(sub, 30)}", file=f, node=sub)
                        break
                else:
                    continue
                break
    if not n:
        run.ob(rule, quals[0] if quals else "-", "mask selections guarded by the emptiness of their mask", True, "no selection by a mask is guarded by that mask accepting nothing")


def falsy_default_rule(prog, run, rule, roots, attr_names=("hc", "sc")):
    """`d.get(k) or default` / `d[k] or default` on a dictionary of user settings (run_params.hc / .sc handed down from run()): a setting
    of 0, 0.0 or False - switching a criterion off - counts as "not given" and is replaced by the default"""
    from .program import rel
    n = 0
    seen = set()

    def visit(g, names, depth):
        nonlocal n
        key = (g.qual, tuple(sorted(names)))
        if key in seen or depth > 3:
            return
        seen.add(key)
        f = rel(prog.mods[g.mod].path)
        # local aliases of the settings dictionary
        names = set(names)
        for a in ast.walk(g.node):
            if isinstance(a, ast.Assign) and len(a.targets) == 1 and isinstance(a.targets[0], ast.Name):
                v = a.value
                if (isinstance(v, ast.Attribute) and v.attr in attr_names) or (isinstance(v, ast.Name) and v.id in names) or \
                        (isinstance(v, ast.Call) and src(v.func) == "dict" and len(v.args) == 1 and isinstance(v.args[0], ast.Name) and v.args[0].id in names):
                    names.add(a.targets[0].id)

        def is_setting(e):
            while isinstance(e, ast.Call) and isinstance(e.func, ast.Attribute) and e.func.attr == "get":
                e = e.func.value
                return (isinstance(e, ast.Name) and e.id in names) or (isinstance(e, ast.Attribute) and e.attr in attr_names)
            if isinstance(e, ast.Subscript):
                b = e.value
                return (isinstance(b, ast.Name) and b.id in names) or (isinstance(b, ast.Attribute) and b.attr in attr_names)
            return False
        for b in ast.walk(g.node):
            if isinstance(b, ast.BoolOp) and isinstance(b.op, ast.Or) and len(b.values) >= 2 and is_setting(b.values[0]):
                n += 1
                run.ob(rule, g.qual, "a setting of 0 / False is a setting", False,
                       f"`{src(b, 60)}`: a criterion set to 0, 0.0 or False (switched off / neutralised) is replaced by `{src(b.values[-1], 20)}`",
                       witness=src(b, 50), file=f, node=b)
        for c in ast.walk(g.node):
            if not isinstance(c, ast.Call):
                continue
            hand = [a for a in list(c.args) + [k.value for k in c.keywords] if (isinstance(a, ast.Name) and a.id in names) or (isinstance(a, ast.Attribute) and a.attr in attr_names)]
            if not hand:
                continue
            try:
                r = prog.resolve_call(g, c)
            except Exception:
                r = None
            if isinstance(getattr(r, "node", None), ast.FunctionDef) and r.node is not g.node:
                try:
                    m_, errs = bind_args(r.node, c, bound=(r.cls is not None and isinstance(c.func, ast.Attribute)
                                                           and not any(src(d).split(".")[-1] == "staticmethod" for d in r.node.decorator_list)))
                except Exception:
                    continue
                sub = {p_ for p_, a_ in m_.items() if isinstance(a_, ast.AST) and any(a_ is h for h in hand)}
                if sub:
                    visit(r, sub, depth + 1)
    for q in roots:
        g = prog.functions.get(q)
        if g is not None:
            visit(g, set(), 0)
    if not n:
        run.ob(rule, roots[0] if roots else "-", "`setting or default` on the criteria dictionaries", True, "no `<setting> or <default>` on a criteria dictionary")
