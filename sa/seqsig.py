"""Row-order ("sequence signature") rules shared by C02, C03, C04, C19.

The property statements fix one global sensor order: the reference sensors of the first setup in their listed order, then each
setup's roving sensors (ascending channel order) in setup order.  Five functions must produce exactly that order, each with its
own idiom; every fact below is a necessary condition checked on the flow-sensitive expansion of the function's own expressions.
A form that is not recognised is reported as undecided (exit 2), never as a violation."""
import ast

from . import astq, symidx, seqdom
from .program import rel, AnalysisError
from .poly import P

def _verdict(actual, expected):
    """(ok, text): None if the computed order contains an unrecognised part, else equality of the canonical forms"""
    why = seqdom.opaque(seqdom.normalise(actual))
    got, want = seqdom.canon(actual), seqdom.canon(expected)
    if got == want:
        return True, got
    if why:
        return None, f"order not fully recognised ({why[0]}): {got}"
    return False, f"{got}  (required: {want})"


def _names_abstracted(t):
    """string elements replaced by one placeholder: only their number and position matter for the order"""
    return seqdom.tmap(t, lambda leaf: ("ex", "name") if leaf[0] in ("fmt", "ex") else leaf)


def merge(prog, run, rule):
    fi = prog.func("functions.gen.merge_mode_shapes")
    f = rel(prog.mods[fi.mod].path)
    pos, _, _, _ = astq.params_of(fi.node)
    plist, pref = pos[0], pos[1]

    def ob(role, ok, detail, node=None, w=""):
        run.ob(rule, fi.qual, role, ok, detail, witness=w or detail[:90], file=f, node=node)
    it = seqdom.Interp(prog, roles={plist: ("data", 0, 2), pref: ("refs",)})
    rets = it.run(fi)
    out = [astq.src(n.value) for v, n in rets if isinstance(n.value, ast.Name)]
    stores = [st for st in it.stores if st[0] in out]
    role = "merge: rows = [first setup's reference rows in listed order ; every setup's roving rows (own reference list removed, ascending) in setup order]"
    if not stores:
        # the merged array may be assembled functionally and returned directly
        seqs = [(v, n) for v, n in rets if isinstance(v, seqdom.Sq)]
        if not seqs:
            return ob(role, None, "store of the merged mode into the returned array not found")
        stores = [(None, None, v, n, []) for v, n in seqs]
    # an array filled block by block (several stores into row ranges of the result): each store must be one of the blocks the required
    # order is made of - where the blocks are put is not followed here, so the whole is then left open; a store that is none of them
    # (references in ascending order, another setup's list removed) is wrong wherever it is put
    blockwise = len(stores) > 1 and all(st[1] is not None for st in stores)
    P_ = seqdom.P
    parts = set()
    if blockwise:
        parts.add(seqdom.canon(seqdom.listed(0)))
        parts.add(seqdom.canon(seqdom.roving(0)))
        for st in stores:
            for l_ in st[4]:
                parts.add(seqdom.canon(seqdom.roving(P_.s(l_[1]))))
    for name, idx, val, node, loops in stores:
        if not isinstance(val, (seqdom.Sq, seqdom.Vec)):
            ob(role, None, f"stored value `{astq.src(node, 60)}` is not a recognised row sequence", node)
            continue
        ok, txt = _verdict(it.as_seq(val), seqdom.global_order())
        if ok is False and blockwise and seqdom.canon(it.as_seq(val)) in parts:
            ok, txt = None, f"one block of the required order ({seqdom.canon(it.as_seq(val))}), stored into a row range of the result: the placement of the blocks is not followed"
        ob(role, ok, txt, node, w=txt[:120])
    # the scale factor pairs reference sensor k of the first setup with reference sensor k of setup i: both in LISTED order
    msf = [c for c in it.calls if c[0].endswith(".MSF")]
    prole = "merge: scale factor pairs reference sensor k of setup 0 with reference sensor k of setup i"
    if not msf:
        ob(prole, None, "no MSF(...) call found")
    for q, bound, node, loops in msf:
        vals = [bound.get("phi_1"), bound.get("phi_2")]
        if any(not isinstance(v, (seqdom.Sq, seqdom.Vec)) for v in vals) or not loops:
            ob(prole, None, f"MSF arguments of `{astq.src(node, 60)}` are not recognised reference-row selections", node)
            continue
        lv = loops[-1][1]
        terms = [seqdom.normalise(it.as_seq(v)) for v in vals]
        if any(seqdom.opaque(t) for t in terms):
            ob(prole, None, f"MSF arguments not fully recognised: {seqdom.canon(terms[0])} / {seqdom.canon(terms[1])}", node)
            continue
        P_ = seqdom.P
        got = [seqdom.canon(t) for t in terms]
        # the setup index is the variable of one of the enclosing loops (the call may sit in an inner loop / comprehension over the modes)
        for cand_lv in [l_[1] for l_ in reversed(loops)]:
            cands = {"own": seqdom.canon(seqdom.listed(P_.s(cand_lv))), "first": seqdom.canon(seqdom.listed(0))}
            if sorted(got) == sorted(cands.values()):
                lv = cand_lv
                break
        cands = {"own": seqdom.canon(seqdom.listed(P_.s(lv))), "first": seqdom.canon(seqdom.listed(0))}
        okp = sorted(got) == sorted(cands.values())
        ob(prole, okp, f"MSF on `{got[0]}` and `{got[1]}`" + ("" if okp else f" - required: `{cands['own']}` with `{cands['first']}` (same listed order, each setup's own reference list)").replace(lv, "i"), node,
           w=(got[0] + " | " + got[1]).replace(lv, "i")[:120])


def flatten(prog, run, rule):
    fi = prog.func("functions.gen.flatten_sns_names")
    f = rel(prog.mods[fi.mod].path)
    pos, _, _, _ = astq.params_of(fi.node)
    pn, pr = pos[0], pos[1]

    def ob(role, ok, detail, node=None):
        run.ob(rule, fi.qual, role, ok, detail, witness=detail[:120], file=f, node=node)
    it = seqdom.Interp(prog, roles={pn: ("data", 0, 1), pr: ("refs",)}, types={pn: ("list", "list")})
    rets = it.run(fi)
    role = "flatten: names = [one REFk per reference sensor of the first setup ; every setup's non-reference names (ascending) in setup order]"
    seqs = [(v, n) for v, n in rets if isinstance(v, seqdom.Sq)]
    if not seqs:
        return ob(role, None, "returned name list of the multi-setup branch is not a recognised sequence")
    P_ = seqdom.P
    refpart = ("for", "v8", P_.c(0), P_.s("r[0]"), ("ex", "name"))
    for v, n in seqs:
        ok, txt = _verdict(_names_abstracted(v.t), _names_abstracted(seqdom.global_order(first=refpart)))
        ob(role, ok, txt, n)
        # the labels REF1..REFk
        t = seqdom.normalise(v.t)
        first = t[1][0] if t[0] == "cat" and t[1] else t
        if first[0] == "for" and first[4][0] == "fmt":
            lab = seqdom.show(first[4]).replace(first[1], "k")
            ob("flatten: reference names are REF1 .. REFk", lab == "'REF{1 + k}'", f"label {lab} for k = 0 .. {first[3]!r} - 1", n)
        else:
            ob("flatten: reference names are REF1 .. REFk", None, f"label form `{seqdom.show(first)[:60]}` not recognised", n)


def pre(prog, run, rule):
    fi = prog.func("functions.gen.pre_multisetup")
    f = rel(prog.mods[fi.mod].path)
    pos, _, _, _ = astq.params_of(fi.node)
    pd_, pr = pos[0], pos[1]

    def ob(role, ok, detail, node=None):
        run.ob(rule, fi.qual, role, ok, detail, witness=detail[:120], file=f, node=node)
    it = seqdom.Interp(prog, roles={pd_: ("data", 1, 2), pr: ("refs",)})
    rets = it.run(fi)
    P_ = seqdom.P
    i = P_.s("v7")
    for key, want, what in (("ref", seqdom.listed(i), "split: 'ref' = channels at the setup's reference indices, in listed order"),
                            ("mov", seqdom.roving(i), "split: 'mov' = all remaining channels in ascending order (every reference index of THIS setup removed)")):
        seqs = [(v, n) for v, n in rets if isinstance(v, seqdom.Sq)]
        if not seqs:
            ob(what, None, "returned list of per-setup dicts is not a recognised sequence")
            continue
        for v, n in seqs:
            t = seqdom.normalise(v.t)
            if not (t[0] == "for" and t[4][0] == "dct" and key in dict(t[4][1])):
                ob(what, None, f"returned value `{seqdom.canon(t)[:80]}` is not one {{'ref', 'mov'}} dict per dataset", n)
                continue
            sel = ("for", t[1], t[2], t[3], dict(t[4][1])[key])
            ok, txt = _verdict(sel, ("for", "v7", P_.c(0), P_.s("N"), want))
            ob(what, ok, txt, n)
    # whatever the selection looks like: the index list it is made with must still be in the order the user listed the references -
    # a validating helper that returns the sorted / de-duplicated copy it made for its checks loses it
    for sub in ast.walk(fi.node):
        if not (isinstance(sub, ast.Subscript) and isinstance(sub.ctx, ast.Load)):
            continue
        for e in astq.index_elts(sub):
            if isinstance(e, (ast.Slice, ast.Constant)):
                continue
            fl = order_flow(prog, fi, e, {pr})
            if fl == "lost" and any(isinstance(x, ast.Name) for x in ast.walk(e)):
                # used as a complement (everything but these) the order does not matter: only a direct selection is judged
                ctx_names = astq.src(sub, 200)
                if "setdiff" in ctx_names or "delete" in ctx_names or "~" in astq.src(e, 80) or "isin" in astq.src(e, 80):
                    continue
                ob("split: the reference channels are selected with the list in its listed order", False,
                   f"`{astq.src(sub, 60)}`: the index `{astq.src(e, 40)}` comes out of a sort / unique / set made from `{pr}` - the references of a setup are taken in "
                   f"ascending channel order, not in the order listed", sub)
    # layout of the two arrays: one channel per ROW (the consumers stack and index them by rows)
    for key, axis in sorted(it.sh.get("dict_layout", {}).items()):
        ob(f"split: '{key}' holds one channel per row", True if axis == 0 else (False if axis == 1 else None),
           f"channel axis of '{key}' = {axis}" + ("" if axis == 0 else " (channels along the columns / unknown)"))
    # the split is re-applied with the SAME reference lists after every preprocessing step: it must not modify its arguments
    from .props.C15 import alias_effects
    eff, alias = alias_effects(prog, fi)
    listm = [(n, f"in-place method `{astq.src(n, 40)}` on a value that aliases an argument") for n in ast.walk(fi.node)
             if isinstance(n, ast.Call) and isinstance(n.func, ast.Attribute) and n.func.attr in ("sort", "reverse", "remove", "pop", "append", "insert", "clear", "extend")
             and isinstance(n.func.value, ast.Name) and n.func.value.id in alias]
    eff = eff + listm
    ob("split: the data list and the reference index lists are not modified (they are re-used for every later split)", not eff,
       "no in-place effect on the arguments" if not eff else "; ".join(w for n, w in eff), eff[0][0] if eff else fi.node)


def ssi_ms(prog, run, rule):
    fi = prog.func("functions.ssi.SSI_multi_setup")
    f = rel(prog.mods[fi.mod].path)
    _stack_ref_mov(prog, run, rule, fi, f)


def _stack_ref_mov(prog, run, rule, fi, f):
    """Y_all = vstack((Y[k]['ref'], Y[k]['mov'])): reference channels first"""
    found = 0
    for n in ast.walk(fi.node):
        if isinstance(n, ast.Call) and astq.callee_name(prog, fi, n) == "numpy.vstack" and n.args and isinstance(n.args[0], (ast.Tuple, ast.List)) and len(n.args[0].elts) == 2:
            a, b = [astq.expr_at(fi, n, e) for e in n.args[0].elts]
            sa_, sb = astq.src(a), astq.src(b)
            if "'ref'" in sa_ + sb and "'mov'" in sa_ + sb:
                found += 1
                ok = "'ref'" in sa_ and "'mov'" in sb and "'mov'" not in sa_ and "'ref'" not in sb
                run.ob(rule, fi.qual, "per-setup record stack = [reference channels ; roving channels]", ok, f"vstack(({sa_[-22:]}, {sb[-22:]}))", witness=f"{sa_[-12:]},{sb[-12:]}", file=f, node=n)
    if not found:
        run.ob(rule, fi.qual, "per-setup record stack", None, "vstack((ref, mov)) not found", file=f)


ORDER_LOSING_CALLS = ("sorted", "set", "sort", "unique", "argsort", "frozenset", "reversed", "union1d", "intersect1d", "setdiff1d")
ORDER_KEEPING_CALLS = ("list", "tuple", "asarray", "array", "atleast_1d", "asanyarray", "tolist", "astype", "copy", "deepcopy", "int", "ravel", "flatten", "where", "zip",
                       "enumerate", "squeeze", "item", "intp", "int64")


def order_flow(prog, fi, e, sources, depth=3, _seen=()):
    """does the value of `e` in fi keep the listed order of the parameters in `sources` it is made of?  'kept': only order-preserving
    conversions (asarray, tolist, wrapping of negative numbers ..) lie between them; 'lost': it passes through a sort / unique / set;
    None: not followed.  Flow-insensitive over the assignments, appends and loops of fi; helpers of the package are followed."""
    def comb(vs):
        vs = list(vs)
        if any(v == "complement" for v in vs):
            return "complement"     # everything BUT the listed ones: their order plays no part
        if any(v == "lost" for v in vs):
            return "lost"
        if vs and all(v == "kept" for v in vs):
            return "kept"
        return None

    fparams = set(astq.params_of(fi.node)[0] + astq.params_of(fi.node)[1])

    def name_flow(nm, seen):
        if nm in sources:
            return "kept"
        if nm in fparams and not any(isinstance(n_, ast.Name) and n_.id == nm and isinstance(n_.ctx, ast.Store) for n_ in ast.walk(fi.node)):
            return "const"          # another argument: nothing of the lists in question
        if nm in seen:
            return "kept"           # (a cycle through a loop adds nothing of its own)
        seen = seen | {nm}
        vals = []
        for n in ast.walk(fi.node):
            if isinstance(n, ast.Assign):
                for t in n.targets:
                    if isinstance(t, ast.Name) and t.id == nm:
                        vals.append(flow(n.value, seen))
                    elif isinstance(t, (ast.Tuple, ast.List)) and any(isinstance(x, ast.Name) and x.id == nm for x in t.elts):
                        vals.append(flow(n.value, seen))
            elif isinstance(n, (ast.For, ast.comprehension)) and any(isinstance(x, ast.Name) and x.id == nm for x in ast.walk(n.target)):
                vals.append(flow(n.iter, seen))
            elif isinstance(n, ast.Call) and isinstance(n.func, ast.Attribute) and n.func.attr in ("append", "extend", "insert") and isinstance(n.func.value, ast.Name) \
                    and n.func.value.id == nm and n.args:
                vals.append(flow(n.args[-1], seen))
        vals = [v for v in vals if v != "const"]
        return comb(vals) if vals else None

    def flow(x, seen):
        if isinstance(x, ast.Constant) or (isinstance(x, (ast.List, ast.Tuple, ast.Dict)) and not getattr(x, "elts", getattr(x, "keys", None))):
            return "const"
        if isinstance(x, ast.Name):
            return name_flow(x.id, seen)
        if isinstance(x, (ast.Subscript, ast.Starred)):
            return flow(x.value, seen)
        if isinstance(x, ast.Attribute):
            return flow(x.value, seen)
        if isinstance(x, (ast.List, ast.Tuple)):
            return comb(v for v in (flow(y, seen) for y in x.elts) if v != "const")
        if isinstance(x, ast.IfExp):
            return comb(v for v in (flow(x.body, seen), flow(x.orelse, seen)) if v != "const")
        if isinstance(x, ast.BinOp):
            return comb(v for v in (flow(x.left, seen), flow(x.right, seen)) if v not in ("const", None)) or None
        if isinstance(x, (ast.ListComp, ast.GeneratorExp)):
            return flow(x.elt, seen)
        if isinstance(x, ast.Call):
            last = astq.src(x.func).split(".")[-1]
            args = list(x.args) + [k.value for k in x.keywords if k.arg not in ("dtype", "axis", "copy")]
            if isinstance(x.func, ast.Attribute) and not (isinstance(x.func.value, ast.Name) and x.func.value.id in ("np", "numpy", "copy")):
                args = [x.func.value] + args
            inner = [v for v in (flow(a, seen) for a in args) if v != "const"]
            if last in ("setdiff1d", "delete") and len(x.args) >= 2 and flow(x.args[1], seen) in ("kept", "lost", "complement"):
                return "complement"
            if last in ORDER_LOSING_CALLS:
                if any(v == "complement" for v in inner):
                    return "complement"
                return "lost" if any(v in ("kept", "lost") for v in inner) else None
            if last in ORDER_KEEPING_CALLS:
                inner = [v for v in inner if v is not None] if last == "where" else inner
                return comb(inner)
            try:
                r = prog.resolve_call(fi, x)
            except Exception:
                r = None
            if getattr(r, "node", None) is not None and isinstance(r.node, ast.FunctionDef) and depth > 0 and r.qual not in _seen:
                m_, errs = astq.bind_args(r.node, x)
                src_params = {p_ for p_, a_ in m_.items() if isinstance(a_, ast.AST) and flow(a_, seen) in ("kept", "lost")}
                if any(isinstance(a_, ast.AST) and flow(a_, seen) == "lost" for a_ in m_.values()):
                    return "lost"
                if not src_params:
                    return None
                rets = [n_ for n_ in ast.walk(r.node) if isinstance(n_, ast.Return) and n_.value is not None]
                return comb(order_flow(prog, r, n_.value, src_params, depth - 1, _seen + (fi.qual,)) for n_ in rets) if rets else None
            return None
        return None
    r_ = flow(e, frozenset())
    return None if r_ == "const" else r_


def reflists(prog, run, rule):
    """the reference lists handed to every later split / merge are the lists AS GIVEN by the user (listed order is the only thing that
    pairs reference k of one setup with reference k of another): every store into `self.ref_ind` is the constructor argument or an
    order-preserving copy of it, and every split is called with that attribute (or the argument itself)"""
    ORDER_LOSING = ("sorted", "set", "numpy.sort", "numpy.unique", "numpy.argsort", "frozenset", "reversed")
    COPIES = ("list", "tuple", "copy.deepcopy", "copy.copy", "numpy.array", "numpy.asarray")
    n = 0
    for cq in ("setup.multi.MultiSetup_PreGER", "setup.multi.MultiSetup_PoSER"):
        try:
            ci = prog.cls(cq)
        except Exception:
            continue
        f = rel(prog.mods[ci.mod].path)
        for m in ci.methods.values():
            params = set(astq.params_of(m.node)[0])
            for st in ast.walk(m.node):
                if isinstance(st, ast.Assign) and any(isinstance(t, ast.Attribute) and astq.src(t) == "self.ref_ind" for t in st.targets):
                    n += 1
                    x = astq.expr_at(m, st, st.value)
                    calls = [astq.callee_name(prog, m, c) for c in ast.walk(x) if isinstance(c, ast.Call)]
                    meths = [c.func.attr for c in ast.walk(x) if isinstance(c, ast.Call) and isinstance(c.func, ast.Attribute)]
                    losing = [c for c in calls if c in ORDER_LOSING] + [a for a in meths if a in ("sort",)]
                    base_ok = any(isinstance(z, ast.Name) and z.id in params for z in ast.walk(x)) or "_initial_ref_ind" in astq.src(x)
                    plain = isinstance(x, (ast.Name, ast.Attribute)) or all(c in COPIES or c.startswith(".") for c in calls)
                    ok = False if losing else (True if (base_ok and plain) else None)
                    if ok is None:
                        # through a validating / normalising helper: does what it returns keep the listed order of what it is given?
                        fl = order_flow(prog, m, st.value, params - {"self"})
                        if fl is not None:
                            ok = fl == "kept"
                            if not ok:
                                losing = ["a sort / unique / set inside the helper it is passed through"]
                    run.ob(rule, m.qual, "reference lists are stored as given (listed order kept)", ok,
                           f"`self.ref_ind = {astq.src(x, 70)}`" + (f" passes the lists through {losing}: the listed order (the pairing of references across setups) is lost for every later split" if losing else ""),
                           witness=astq.src(x, 70), file=f, node=st)
            for c, r in prog.calls_in(m):
                if getattr(r, "node", None) is not None and r.node.name == "pre_multisetup":
                    n += 1
                    b, errs = astq.bind_args(r.node, c)
                    second = astq.params_of(r.node)[0][1]
                    a = b.get(second)
                    x = astq.expr_at(m, c, a) if a is not None else None
                    txt = astq.src(x, 70) if x is not None else None
                    ok = None
                    if x is not None:
                        # a local that is given its value on several paths (a default filled in when the argument is None): every value counts
                        cands = [x]
                        if isinstance(x, ast.Name) and x.id not in params:
                            vals_ = astq.reaching_values(m, c, x.id)
                            if vals_:
                                cands = vals_
                        verdicts = []
                        for x_ in cands:
                            t_ = astq.src(x_, 70)
                            calls = [astq.callee_name(prog, m, z) for z in ast.walk(x_) if isinstance(z, ast.Call)]
                            if any(z in ORDER_LOSING for z in calls):
                                verdicts.append(False)
                            elif t_ in ("self.ref_ind", "self._initial_ref_ind") or (isinstance(x_, ast.Name) and x_.id in params) or "copy.deepcopy(" in t_:
                                verdicts.append(True)
                            else:
                                verdicts.append(None)
                        ok = False if any(v is False for v in verdicts) else (True if all(v is True for v in verdicts) else None)
                        if len(cands) > 1:
                            txt = " | ".join(astq.src(x_, 40) for x_ in cands)
                    run.ob(rule, m.qual, "the split is called with the reference lists as given", ok, f"`pre_multisetup(.., {txt})`", witness=str(txt), file=f, node=c)
    if not n:
        run.ob(rule, "pyoma2.setup.multi", "reference lists", None, "no store of self.ref_ind / call of pre_multisetup found")


def split_current(prog, run, rule):
    """every method of the PreGER setup class that re-applies the reference / roving split hands the split the dataset list that is
    CURRENT when the method returns: the list it stores into `self.datasets` (the same local, or the attribute read AFTER the store) -
    a split of the list of the previous step leaves `data` one preprocessing step behind `datasets`, `fs` and the sample counts"""
    n = 0
    for cq in ("setup.multi.MultiSetup_PreGER",):
        try:
            ci = prog.cls(cq)
        except Exception:
            continue
        f = rel(prog.mods[ci.mod].path)
        pre = prog.func("functions.gen.pre_multisetup")
        first = astq.params_of(pre.node)[0][0]
        for m in ci.methods.values():
            recs = astq.forwarded_args(prog, m, pre.qual, depth=2)
            if not recs or m.node.name.startswith("_split"):
                continue
            # the value this method stores into self.datasets (if it stores one)
            stores = astq.attr_stores(m.node, "self.datasets")
            for rec in recs:
                n += 1
                c = rec["outer_call"]
                a = rec["args"].get(first)
                role = "the split is applied to the dataset list this method leaves in `self.datasets`"
                if a is None:
                    run.ob(rule, m.qual, role, None, "dataset argument of the split could not be expressed in the method's scope", file=f, node=c)
                    continue
                txt = astq.src(a, 80)
                if txt == "self.datasets":
                    st_, v = astq.attr_store_status(m, c, "self.datasets")
                    ok = st_ != "after"
                    why = f"`pre_multisetup(self.datasets, ..)`" + (" is evaluated BEFORE `self.datasets` receives the new list: the data handed to the algorithms is one step behind" if not ok else
                                                                   (" after the store" if st_ == "before" else " (this method does not replace the list)"))
                    run.ob(rule, m.qual, role, ok, why, witness=f"self.datasets:{st_}", file=f, node=c)
                    continue
                hold = rec["holder"]
                if hold is not m and getattr(hold, "node", None) is not None:
                    # split and store sit together in a helper: judged there, on the helper's own names
                    hstores = astq.attr_stores(hold.node, "self.datasets")
                    raw = (rec["call"].args[:1] or [kw.value for kw in rec["call"].keywords if kw.arg == first] or [None])[0]
                    if hstores and isinstance(raw, ast.Name) and isinstance(hstores[-1][1], ast.Name):
                        same = raw.id == hstores[-1][1].id
                        run.ob(rule, m.qual, role, same, f"helper {hold.node.name}: split of `{raw.id}`, stored list `{hstores[-1][1].id}`", witness=f"{raw.id}|{hstores[-1][1].id}", file=f, node=c)
                        continue
                if not stores:
                    # a method that splits a list without storing one (initialisation from its argument, rollback from the initial copy)
                    run.ob(rule, m.qual, role, True if isinstance(a, (ast.Name, ast.Attribute, ast.Call)) else None, f"`pre_multisetup({txt}, ..)`; the method stores no new dataset list", witness=txt, file=f, node=c)
                    continue
                st_stmt, st_val = stores[-1]
                sv = astq.expr_at(m, st_stmt, st_val)
                same = astq.dump(sv) == astq.dump(a) or (isinstance(st_val, ast.Name) and isinstance(a, ast.Name) and st_val.id == a.id)
                # the raw (unexpanded) spelling decides when both are the same local name
                raw = None
                for k_ in (rec["call"].args[:1] or [kw.value for kw in rec["call"].keywords if kw.arg == first]):
                    raw = k_
                if not same and isinstance(raw, ast.Name) and isinstance(st_val, ast.Name) and raw.id == st_val.id and rec["holder"] is m:
                    same = True
                run.ob(rule, m.qual, role, same if same else (False if isinstance(a, ast.Name) or txt.startswith("self.") else None),
                       f"split of `{txt}`, stored list `{astq.src(st_val, 60)}`", witness=f"{txt}|{astq.src(st_val, 40)}", file=f, node=c)
    if not n:
        run.ob(rule, "pyoma2.setup.multi", "split after preprocessing", None, "no call of pre_multisetup found in MultiSetup_PreGER")


WHICH = {"merge": merge, "flatten": flatten, "pre": pre, "ssi_ms": ssi_ms, "reflists": reflists, "split_current": split_current}


def order_obligations(prog, run, rule, which):
    for w in which:
        WHICH[w](prog, run, rule)
