"""Row-order ("sequence signature") rules shared by C02, C03, C04, C19.

The property statements fix one global sensor order: the reference sensors of the first setup in their listed order, then each
setup's roving sensors (ascending channel order) in setup order.  Five functions must produce exactly that order, each with its
own idiom; every fact below is a necessary condition checked on the flow-sensitive expansion of the function's own expressions.
A form that is not recognised is reported as undecided (exit 2), never as a violation."""
import ast

from . import astq, symidx
from .program import rel, AnalysisError
from .poly import P

CONCAT = {"numpy.concatenate", "numpy.hstack", "numpy.vstack", "numpy.append", "numpy.row_stack"}


def _cat_parts(prog, fi, e):
    """np.concatenate((a, b)) / hstack / vstack([a, b]) / np.append(a, b) -> [a, b]"""
    if isinstance(e, ast.Call) and astq.callee_name(prog, fi, e) in CONCAT and e.args:
        if astq.callee_name(prog, fi, e) == "numpy.append" and len(e.args) >= 2:
            return [e.args[0], e.args[1]]
        a = e.args[0]
        if isinstance(a, (ast.Tuple, ast.List)):
            return list(a.elts)
    return None


def _strip_scalar(e):
    """alpha * X -> X"""
    if isinstance(e, ast.BinOp) and isinstance(e.op, ast.Mult):
        for a, b in ((e.left, e.right), (e.right, e.left)):
            if isinstance(b, (ast.Call, ast.Subscript, ast.Name)) and not isinstance(a, ast.Call):
                return b
        return e.right
    return e


def _setup_vec(e, plist):
    """MSarr_list[s][:, k] or MSarr_list[s] -> s expr"""
    cur = e
    if isinstance(cur, ast.Subscript) and isinstance(cur.value, ast.Subscript):
        cur = cur.value
    if isinstance(cur, ast.Subscript) and isinstance(cur.value, ast.Name) and cur.value.id == plist and not isinstance(cur.slice, (ast.Slice, ast.Tuple)):
        return cur.slice
    return None


def _is_ref_of(e, pref):
    """reflist[s] -> s expr"""
    if isinstance(e, ast.Subscript) and isinstance(e.value, ast.Name) and e.value.id == pref and not isinstance(e.slice, (ast.Slice, ast.Tuple)):
        return e.slice
    return None


def _mask_of(prog, fi, m, pref):
    """np.isin(np.arange(n), reflist[r]) -> (r, False);  ~that / logical_not(that) -> (r, True)"""
    neg = False
    if isinstance(m, ast.UnaryOp) and isinstance(m.op, ast.Invert):
        neg, m = True, m.operand
    elif isinstance(m, ast.Call) and astq.callee_name(prog, fi, m) == "numpy.logical_not" and m.args:
        neg, m = True, m.args[0]
    if isinstance(m, ast.Call) and astq.callee_name(prog, fi, m) in ("numpy.isin", "numpy.in1d") and len(m.args) >= 2:
        r = _is_ref_of(m.args[1], pref)
        inv = astq.kwarg(m, "invert")
        if isinstance(inv, ast.Constant) and inv.value is True:
            neg = not neg
        if r is not None and isinstance(m.args[0], ast.Call) and astq.callee_name(prog, fi, m.args[0]) == "numpy.arange":
            return r, neg
    return None


KIND = {}


def _ref_rows(prog, fi, e, plist, pref):
    """V_s[reflist[s']] / MSarr_list[s][reflist[s'], k] -> (s, s'); the order kind ('listed' / 'ascending') is recorded in KIND[id(e)]"""
    if not isinstance(e, ast.Subscript):
        return None
    el = astq.index_elts(e)
    r = _is_ref_of(el[0], pref)
    kind = "listed"
    if r is None:
        mk = _mask_of(prog, fi, el[0], pref)
        if mk is None or mk[1]:
            return None
        r, kind = mk[0], "ascending"
    KIND[id(e)] = kind
    base = e.value
    s = _setup_vec(base, plist)
    if s is None and isinstance(base, ast.Subscript) and isinstance(base.value, ast.Name) and base.value.id == plist:
        s = base.slice
    return (s, r) if s is not None else None


def _rov_rows(prog, fi, e, plist, pref):
    """np.delete(V_s, reflist[s'] [, axis=0]) -> (s, s')"""
    if isinstance(e, ast.Call) and astq.callee_name(prog, fi, e) == "numpy.delete" and len(e.args) >= 2:
        s = _setup_vec(e.args[0], plist)
        r = _is_ref_of(e.args[1], pref)
        ax = astq.kwarg(e, "axis", 2)
        if ax is not None and not (isinstance(ax, ast.Constant) and ax.value == 0):
            return None
        if s is not None and r is not None:
            return (s, r)
    if isinstance(e, ast.Subscript):
        el = astq.index_elts(e)
        mk = _mask_of(prog, fi, el[0], pref)
        if mk is not None and mk[1]:
            s = _setup_vec(e.value, plist)
            if s is None and isinstance(e.value, ast.Subscript) and isinstance(e.value.value, ast.Name) and e.value.value.id == plist:
                s = e.value.slice
            if s is not None:
                return (s, mk[0])
    return None


def same(a, b):
    return a is not None and b is not None and astq.dump(a) == astq.dump(b)


def is_const(e, v):
    return isinstance(e, ast.Constant) and e.value == v


def merge(prog, run, rule):
    fi = prog.func("functions.gen.merge_mode_shapes")
    f = rel(prog.mods[fi.mod].path)
    pos, _, _, _ = astq.params_of(fi.node)
    plist, pref = pos[0], pos[1]

    def ob(role, ok, detail, node=None, w=""):
        run.ob(rule, fi.qual, role, ok, detail, witness=w or detail[:90], file=f, node=node)
    # the store into the returned array
    rets = [n for n in ast.walk(fi.node) if isinstance(n, ast.Return) and isinstance(n.value, ast.Name)]
    if not rets:
        return ob("merge: return", None, "returned array not found")
    out = rets[-1].value.id
    stores = [n for n in ast.walk(fi.node) if isinstance(n, ast.Assign) and isinstance(n.targets[0], ast.Subscript) and isinstance(n.targets[0].value, ast.Name) and n.targets[0].value.id == out]
    if not stores:
        return ob("merge: store", None, "store of the merged mode into the returned array not found")
    st = stores[-1]
    if not isinstance(st.value, ast.Name):
        return ob("merge: accumulator", None, "merged mode is not held in a variable")
    acc = st.value.id
    # assignments to the accumulator: initial one (outside the setup loop) and the loop update
    pm = astq.parent_map(fi.node)
    assigns = [n for n in ast.walk(fi.node) if isinstance(n, ast.Assign) and len(n.targets) == 1 and isinstance(n.targets[0], ast.Name) and n.targets[0].id == acc]
    init = [n for n in assigns if not any(isinstance(x, ast.Name) and x.id == acc for x in ast.walk(n.value))]
    upd = [n for n in assigns if any(isinstance(x, ast.Name) and x.id == acc for x in ast.walk(n.value))]
    if len(init) != 1 or len(upd) != 1:
        return ob("merge: accumulator", None, f"{len(init)} initialisations / {len(upd)} updates of the merged vector")
    x0 = astq.expr_at(fi, init[0], init[0].value)
    parts = _cat_parts(prog, fi, x0)
    ok0 = None
    why = astq.src(x0, 100)
    if parts and len(parts) == 2:
        a = _ref_rows(prog, fi, parts[0], plist, pref)
        b = _rov_rows(prog, fi, parts[1], plist, pref)
        if a is not None and b is not None:
            ok0 = all(is_const(z, 0) for z in (a[0], a[1], b[0], b[1])) and KIND.get(id(parts[0])) == "listed"
            if KIND.get(id(parts[0])) != "listed":
                why += " (reference rows taken in ascending channel order, not in the listed order)"
        elif a is None and _rov_rows(prog, fi, parts[0], plist, pref) is not None and _ref_rows(prog, fi, parts[1], plist, pref) is not None:
            ok0 = False
            why += " (roving rows placed before the reference rows)"
        elif a is not None and b is None and _setup_vec(parts[1], plist) is not None:
            ok0 = False
            why += " (the WHOLE vector is appended: the reference rows appear twice)"
    ob("merge: first setup = [its reference rows in listed order ; its roving rows]", ok0, f"`{why}`", init[0])
    loop = astq.enclosing(pm, upd[0], (ast.For,))
    x1 = upd[0].value
    parts = _cat_parts(prog, fi, x1)
    ok1 = None
    why = astq.src(x1, 100)
    if parts and len(parts) == 2 and loop is not None and isinstance(loop.target, ast.Name):
        first_is_acc = isinstance(parts[0], ast.Name) and parts[0].id == acc
        second_is_acc = isinstance(parts[1], ast.Name) and parts[1].id == acc
        add = astq.expr_at(fi, upd[0], _strip_scalar(parts[1] if first_is_acc else parts[0]))
        add = _strip_scalar(add)
        b = _rov_rows(prog, fi, add, plist, pref)
        i = loop.target.id
        if b is not None and (first_is_acc or second_is_acc):
            ok1 = first_is_acc and all(isinstance(z, ast.Name) and z.id == i for z in b)
            if not first_is_acc:
                why += " (new rows are PREPENDED)"
            elif not ok1:
                why += f" (vector of setup `{astq.src(b[0])}` with the reference list of setup `{astq.src(b[1])}`)"
    ob("merge: later setups append their own roving rows (own reference list removed)", ok1, f"`{why}`", upd[0])
    # the scale factor pairs reference sensor k of the first setup with reference sensor k of setup i: both in LISTED order
    msf = [c for c in ast.walk(fi.node) if isinstance(c, ast.Call) and astq.callee_name(prog, fi, c).endswith(".MSF") and len(c.args) == 2]
    if not msf:
        ob("merge: scale factor computed on the reference rows", None, "no MSF(...) call found")
    for c in msf:
        args = [astq.expr_at(fi, c, a) for a in c.args]
        rr = [_ref_rows(prog, fi, a, plist, pref) for a in args]
        if any(r is None for r in rr):
            ob("merge: scale factor pairs reference sensor k of setup 0 with reference sensor k of setup i", None,
               f"MSF arguments `{astq.src(args[0], 50)}`, `{astq.src(args[1], 50)}` are not recognised reference-row selections", c)
            continue
        kinds = [KIND.get(id(a)) for a in args]
        setups = [astq.src(r[0]) + "/" + astq.src(r[1]) for r in rr]
        own = all(astq.dump(r[0]) == astq.dump(r[1]) for r in rr)
        has0 = any(is_const(r[0], 0) for r in rr)
        okp = kinds == ["listed", "listed"] and own and has0
        ob("merge: scale factor pairs reference sensor k of setup 0 with reference sensor k of setup i", okp,
           f"MSF on reference rows of setups {setups}, order kinds {kinds}" + ("" if okp else " - sensors are paired in different orders (or with another setup's reference list)"), c)
    if loop is not None:
        se = symidx.SymEval(prog, fi)
        ra = symidx.range_args(se, symidx.is_range(prog, fi, loop.iter)) if symidx.is_range(prog, fi, loop.iter) is not None else None
        okl = ra is not None and ra[0] == P.c(1) and ra[2] == P.c(1) and "len(" in repr(ra[1])
        ob("merge: setups 1..N-1 in ascending order", okl, f"range({', '.join(map(repr, ra)) if ra else astq.src(loop.iter)})", loop)


def flatten(prog, run, rule):
    fi = prog.func("functions.gen.flatten_sns_names")
    f = rel(prog.mods[fi.mod].path)
    pos, _, _, _ = astq.params_of(fi.node)
    pn, pr = pos[0], pos[1]

    def ob(role, ok, detail, node=None):
        run.ob(rule, fi.qual, role, ok, detail, witness=detail[:90], file=f, node=node)
    apps = [n for n in ast.walk(fi.node) if isinstance(n, ast.Call) and isinstance(n.func, ast.Attribute) and n.func.attr == "append" and len(n.args) == 1]
    pm = astq.parent_map(fi.node)
    refapp = [a for a in apps if isinstance(a.args[0], ast.JoinedStr) and "REF" in astq.src(a.args[0])]
    rovapp = [a for a in apps if isinstance(a.args[0], ast.Subscript)]
    if len(refapp) != 1 or len(rovapp) != 1:
        return ob("flatten: appends", None, f"{len(refapp)} REF-name appends / {len(rovapp)} roving-name appends")
    ra, rv = refapp[0], rovapp[0]
    # REF loop: range(len(ref_ind[0]))
    l0 = astq.enclosing(pm, ra, (ast.For,))
    se = symidx.SymEval(prog, fi)
    rg = symidx.range_args(se, symidx.is_range(prog, fi, l0.iter)) if l0 is not None and symidx.is_range(prog, fi, l0.iter) is not None else None
    okk = rg is not None and rg[0] == P.c(0) and repr(rg[1]).replace(" ", "") == f"len({pr}[0])"
    ob("flatten: one REFn name per reference sensor of the FIRST setup", okk, f"range({', '.join(map(repr, rg)) if rg else '?'})", l0)
    # nested loops
    lj = astq.enclosing(pm, rv, (ast.For,))
    li = astq.enclosing(pm, lj, (ast.For,)) if lj is not None else None
    if lj is None or li is None or not isinstance(lj.target, ast.Name) or not isinstance(li.target, ast.Name):
        return ob("flatten: nested loops", None, "setup / name loops not found")
    i, j = li.target.id, lj.target.id
    ri = symidx.range_args(se, symidx.is_range(prog, fi, li.iter)) if symidx.is_range(prog, fi, li.iter) is not None else None
    rj = symidx.range_args(se, symidx.is_range(prog, fi, lj.iter)) if symidx.is_range(prog, fi, lj.iter) is not None else None
    oki = ri is not None and ri[0] == P.c(0) and ri[2] == P.c(1) and "len(" in repr(ri[1])
    okj = rj is not None and rj[0] == P.c(0) and rj[2] == P.c(1) and repr(rj[1]).replace(" ", "") == f"len({pn}[{i}])"
    ob("flatten: setups in ascending order, names of a setup in ascending order", oki and okj, f"outer range({', '.join(map(repr, ri)) if ri else '?'}), inner range({', '.join(map(repr, rj)) if rj else '?'})", li)
    v = rv.args[0]
    okv = astq.src(v).replace(" ", "") == f"{pn}[{i}][{j}]"
    ob("flatten: appended name is name j of setup i", okv, f"`{astq.src(v)}`", rv)
    g = astq.enclosing(pm, rv, (ast.If,))
    okg = g is not None and isinstance(g.test, ast.Compare) and isinstance(g.test.ops[0], ast.NotIn) and astq.src(g.test.left) == j \
        and astq.src(g.test.comparators[0]).replace(" ", "") == f"{pr}[{i}]" and astq.branch_of(pm, rv, g) == "body"
    ob("flatten: names at the setup's OWN reference indices are skipped", bool(okg), f"guard `{astq.src(g.test) if g is not None else None}`", g or rv)
    # REF names come first
    top_ref = l0
    while pm.get(top_ref) is not None and not isinstance(pm.get(top_ref), (ast.If, ast.FunctionDef)):
        top_ref = pm[top_ref]
    blk = pm.get(l0)
    body = getattr(blk, "body", [])
    okorder = l0 in body and li in body and body.index(l0) < body.index(li)
    ob("flatten: reference names precede the roving names", okorder, "REF loop before the setup loop" if okorder else "order of the two loops changed", l0)


def pre(prog, run, rule):
    fi = prog.func("functions.gen.pre_multisetup")
    f = rel(prog.mods[fi.mod].path)
    pos, _, _, _ = astq.params_of(fi.node)
    pd_, pr = pos[0], pos[1]

    def ob(role, ok, detail, node=None):
        run.ob(rule, fi.qual, role, ok, detail, witness=detail[:90], file=f, node=node)
    dicts = [n for n in ast.walk(fi.node) if isinstance(n, ast.Dict) and {k.value for k in n.keys if isinstance(k, ast.Constant)} == {"ref", "mov"}]
    if not dicts:
        return ob("split: dict", None, "{'ref':..., 'mov':...} construction not found")
    d = dicts[0]
    pm = astq.parent_map(fi.node)
    loop = astq.enclosing(pm, d, (ast.For,))
    if loop is None or not isinstance(loop.target, ast.Name):
        return ob("split: loop", None, "loop over the datasets not found")
    i = loop.target.id
    se = symidx.SymEval(prog, fi)
    rg = symidx.range_args(se, symidx.is_range(prog, fi, loop.iter)) if symidx.is_range(prog, fi, loop.iter) is not None else None
    ob("split: datasets in ascending order", rg is not None and rg[0] == P.c(0) and rg[2] == P.c(1), f"range({', '.join(map(repr, rg)) if rg else '?'})", loop)
    vals = {k.value: v for k, v in zip(d.keys, d.values)}
    # mov_id: list(range(n_sens)) with the reference indices removed
    env = astq.env_at(fi.node.body, d)
    for key in ("ref", "mov"):
        x = astq.expr_at(fi, d, vals[key])
        subs = [s for s in ast.walk(x) if isinstance(s, ast.Subscript) and len(astq.index_elts(s)) == 2 and astq.is_full_slice(astq.index_elts(s)[0])
                and astq.src(s.value).replace(" ", "") == f"{pd_}[{i}]"]
        dels = [c for c in ast.walk(x) if isinstance(c, ast.Call) and astq.callee_name(prog, fi, c) == "numpy.delete" and len(c.args) >= 2
                and astq.src(c.args[0]).replace(" ", "") == f"{pd_}[{i}]"]
        if key == "mov" and dels and not subs:
            c = dels[0]
            ax = astq.kwarg(c, "axis", 2)
            okd = astq.src(c.args[1]).replace(" ", "") == f"{pr}[{i}]" and isinstance(ax, ast.Constant) and ax.value == 1
            ob("split: 'mov' = all remaining columns in ascending order (every reference index of THIS setup removed)", okd, f"`{astq.src(c, 60)}`", d)
            continue
        if not subs:
            ob(f"split: '{key}' columns", None, f"`{astq.src(x, 80)}`: column selection from dataset i not found", d)
            continue
        col = astq.index_elts(subs[0])[1]
        if key == "ref":
            ok = astq.src(col).replace(" ", "") == f"{pr}[{i}]"
            ob("split: 'ref' = columns at the setup's reference indices, in listed order", ok, f"columns `{astq.src(col)}`", d)
        else:
            # the column index variable must be list(range(n)) minus remove(ref_id[..]) for every reference
            nm = col.id if isinstance(col, ast.Name) else None
            rm = [c for c in ast.walk(loop) if isinstance(c, ast.Call) and isinstance(c.func, ast.Attribute) and c.func.attr == "remove"
                  and isinstance(c.func.value, ast.Name) and c.func.value.id == nm]
            init = [n for n in ast.walk(loop) if isinstance(n, ast.Assign) and isinstance(n.targets[0], ast.Name) and n.targets[0].id == nm]
            ok_init = bool(init) and astq.src(init[0].value).replace(" ", "").startswith("list(range(")
            ok_rm = False
            if rm:
                a = astq.expr_at(fi, rm[0], rm[0].args[0])
                rl = astq.enclosing(pm, rm[0], (ast.For,))
                ok_rm = astq.src(a).replace(" ", "").startswith(f"{pr}[{i}][") and rl is not None and rl is not loop
                if ok_rm:
                    rr = symidx.range_args(se, symidx.is_range(prog, fi, rl.iter)) if symidx.is_range(prog, fi, rl.iter) is not None else None
                    ok_rm = rr is not None and rr[0] == P.c(0) and repr(rr[1]).replace(" ", "") in (f"len({pr}[{i}])",)
            # alternative idiom: [j for j in range(n) if j not in reflist[i]]
            if not (ok_init and ok_rm) and nm is not None and init:
                v = init[0].value
                if isinstance(v, ast.ListComp) and v.generators[0].ifs and "not in" in astq.src(v.generators[0].ifs[0]) and f"{pr}[{i}]" in astq.src(v.generators[0].ifs[0]).replace(" ", ""):
                    ok_init = ok_rm = True
            ob("split: 'mov' = all remaining columns in ascending order (every reference index of THIS setup removed)", ok_init and ok_rm,
               f"index list `{nm}` = {astq.src(init[0].value, 40) if init else '?'}, removals: {astq.src(rm[0], 50) if rm else 'none'}", d)
    apps = [c for c in ast.walk(loop) if isinstance(c, ast.Call) and isinstance(c.func, ast.Attribute) and c.func.attr == "append" and any(x is d for x in ast.walk(c))]
    ob("split: one dict per dataset appended in loop order", bool(apps), "append of the dict inside the loop" if apps else "dict not appended", d)
    # the split is re-applied with the SAME reference lists after every preprocessing step: it must not modify its arguments
    from .props.C15 import alias_effects
    eff, alias = alias_effects(prog, fi)
    listm = [(n, f"in-place method `{astq.src(n, 40)}` on a value that aliases an argument") for n in ast.walk(fi.node)
             if isinstance(n, ast.Call) and isinstance(n.func, ast.Attribute) and n.func.attr in ("sort", "reverse", "remove", "pop", "append", "insert", "clear", "extend")
             and isinstance(n.func.value, ast.Name) and n.func.value.id in alias]
    eff = eff + listm
    ob("split: the data list and the reference index lists are not modified (they are re-used for every later split)", not eff,
       "no in-place effect on the arguments" if not eff else "; ".join(w for n, w in eff), eff[0][0] if eff else fi.node)


def ssi_ms(prog, run, rule):
    fi = prog.func("functions.ssi.SSI_multi_setup")
    f = rel(prog.mods[fi.mod].path)
    _stack_ref_mov(prog, run, rule, fi, f)


def _stack_ref_mov(prog, run, rule, fi, f):
    """Y_all = vstack((Y[k]['ref'], Y[k]['mov'])): reference channels first"""
    found = 0
    for n in ast.walk(fi.node):
        if isinstance(n, ast.Call) and astq.callee_name(prog, fi, n) == "numpy.vstack" and n.args and isinstance(n.args[0], (ast.Tuple, ast.List)) and len(n.args[0].elts) == 2:
            a, b = [astq.expr_at(fi, n, e) for e in n.args[0].elts]
            sa_, sb = astq.src(a), astq.src(b)
            if "'ref'" in sa_ + sb and "'mov'" in sa_ + sb:
                found += 1
                ok = "'ref'" in sa_ and "'mov'" in sb and "'mov'" not in sa_ and "'ref'" not in sb
                run.ob(rule, fi.qual, "per-setup record stack = [reference channels ; roving channels]", ok, f"vstack(({sa_[-22:]}, {sb[-22:]}))", witness=f"{sa_[-12:]},{sb[-12:]}", file=f, node=n)
    if not found:
        run.ob(rule, fi.qual, "per-setup record stack", None, "vstack((ref, mov)) not found", file=f)


def sd_preger(prog, run, rule):
    fi = prog.func("functions.fdd.SD_PreGER")
    f = rel(prog.mods[fi.mod].path)

    def ob(role, ok, detail, node=None):
        run.ob(rule, fi.qual, role, ok, detail, witness=detail[:90], file=f, node=node)
    _stack_ref_mov(prog, run, rule, fi, f)
    # Gyy[ii] = hstack((Sy_allref, Sy_allmov)) : columns [ref | mov]
    hs = [n for n in ast.walk(fi.node) if isinstance(n, ast.Call) and astq.callee_name(prog, fi, n) == "numpy.hstack" and n.args and isinstance(n.args[0], (ast.Tuple, ast.List)) and len(n.args[0].elts) == 2]
    for h in hs:
        a, b = [astq.expr_at(fi, h, e) for e in h.args[0].elts]
        def second_operand(x):
            cs = [c for c in ast.walk(x) if isinstance(c, ast.Call) and astq.callee_name(prog, fi, c).endswith(".SD_est") and len(c.args) >= 2]
            return astq.src(astq.expr_at(fi, h, cs[0].args[1])) if cs else ""
        sa_, sb = second_operand(a), second_operand(b)
        ok = "'ref'" in sa_ and "'mov'" in sb
        ob("column blocks of a setup's spectrum = [against references | against roving]", ok, f"hstack((.. vs {sa_[-12:]}, .. vs {sb[-12:]}))", h)
    # the merged line: vstack([mean reference block, vstack(per-setup roving blocks)])
    rets = [n for n in ast.walk(fi.node) if isinstance(n, ast.Return) and isinstance(n.value, ast.Tuple)]
    vs = [n for n in ast.walk(fi.node) if isinstance(n, ast.Call) and astq.callee_name(prog, fi, n) == "numpy.vstack" and n.args and isinstance(n.args[0], (ast.List, ast.Tuple)) and len(n.args[0].elts) == 2
          and "'ref'" not in astq.src(n)]
    if not vs:
        return ob("merged rows", None, "vstack([reference block, roving blocks]) not found")
    v = vs[-1]
    a, b = [astq.expr_at(fi, v, e) for e in v.args[0].elts]
    sa_, sb = astq.src(a, 400), astq.src(b, 2000)
    is_mean = "np.sum" in sa_ or "np.mean" in sa_
    has_inv = "linalg.inv" in sb or "linalg.solve" in sb or "linalg.pinv" in sb
    ok = is_mean and has_inv and not ("linalg.inv" in sa_)
    ob("merged rows = [mean reference block ; roving blocks]", ok, "reference block first" if ok else "roving blocks placed before the reference block / blocks not recognised", v)
    # roving blocks: list comprehension over range(n_setup) ascending, rows [n_ref:, :n_ref], inverse of [:n_ref, :n_ref]
    comps = [c for c in ast.walk(b) if isinstance(c, ast.ListComp)]
    if not comps:
        return ob("roving blocks in setup order", None, "per-setup list comprehension not found")
    c = comps[0]
    se = symidx.SymEval(prog, fi)
    rg = symidx.range_args(se, symidx.is_range(prog, fi, c.generators[0].iter)) if symidx.is_range(prog, fi, c.generators[0].iter) is not None else None
    ob("roving blocks in ascending setup order", rg is not None and rg[0] == P.c(0) and rg[2] == P.c(1), f"range({', '.join(map(repr, rg)) if rg else '?'})", v)
    ok_mov = ok_ref = False
    seen_w = []
    for sub in ast.walk(c.elt):
        if isinstance(sub, ast.Subscript):
            el = astq.index_elts(sub)
            if len(el) == 2 and all(isinstance(x, ast.Slice) and x.step is None for x in el):
                r, cc = el
                if r.lower is not None and r.upper is None and cc.lower is None and cc.upper is not None and astq.dump(r.lower) == astq.dump(cc.upper):
                    ok_mov = True
                    seen_w.append("[n:, :n]")
                elif r.lower is None and r.upper is not None and cc.lower is None and cc.upper is not None and astq.dump(r.upper) == astq.dump(cc.upper):
                    ok_ref = True
                    seen_w.append("[:n, :n]")
                elif not (astq.is_full_slice(r) and astq.is_full_slice(cc)):
                    seen_w.append(astq.src(sub.slice, 30))
    m_mov, m_ref = seen_w, ""
    ob("transfer block = rows of the roving channels x columns of the references; inverse of the reference-reference block", ok_mov and ok_ref,
       f"row/column windows {m_mov} and {m_ref}", v)
    # matrix normal form of a roving block: MOV . REF^-1 . MEAN  (right multiplication by the un-transposed inverse)
    nf = astq.matnf(prog, fi, c.elt)

    def role(x):
        for sub in ast.walk(x):
            if isinstance(sub, ast.Subscript):
                el = astq.index_elts(sub)
                if len(el) == 2 and all(isinstance(z, ast.Slice) for z in el):
                    r, cc = el
                    if r.lower is not None and r.upper is None and cc.lower is None and cc.upper is not None:
                        return "MOV"
                    if r.lower is None and r.upper is not None and cc.lower is None and cc.upper is not None:
                        return "REF"
        t = astq.src(x, 400)
        if "np.sum" in t or "np.mean" in t or ".mean(" in t:
            return "MEAN"
        return "?"
    if nf is None:
        ob("roving block = G_mov,ref . inv(G_ref,ref) . mean(G_ref,ref)", None, f"matrix expression `{astq.src(c.elt, 80)}` not in product/inverse/transpose form", v)
    else:
        sig = [(role(x) if role(x) != "REF" or True else "REF", i, t) for x, i, t in nf]
        # a MEAN atom contains REF windows too: classify by the outermost content
        sig2 = []
        for (x, i, t) in nf:
            txt = astq.src(x, 400)
            r = "MEAN" if ("np.sum" in txt or "np.mean" in txt) else role(x)
            sig2.append((r, i, t))
        want = [("MOV", False, False), ("REF", True, False), ("MEAN", False, False)]
        okn = sig2 == want
        pretty = " . ".join(f"{r}{'^-1' if i else ''}{'^T' if t else ''}" for r, i, t in sig2)
        ob("roving block = G_mov,ref . inv(G_ref,ref) . mean(G_ref,ref)", okn, f"normal form: {pretty}" + ("" if okn else " (the spectral blocks are Hermitian, not symmetric: a transposed inverse is a different matrix)"), v)


WHICH = {"merge": merge, "flatten": flatten, "pre": pre, "ssi_ms": ssi_ms, "sd_preger": sd_preger}


def order_obligations(prog, run, rule, which):
    for w in which:
        WHICH[w](prog, run, rule)
