"""Row-order ("sequence signature") rules shared by C02, C03, C04, C19.

The property statements fix one global sensor order: the reference sensors of the first setup in their listed order, then each
setup's roving sensors (ascending channel order) in setup order.  Five functions must produce exactly that order, each with its
own idiom; every fact below is a necessary condition checked on the flow-sensitive expansion of the function's own expressions.
A form that is not recognised is reported as undecided (exit 2), never as a violation."""
import ast

from . import astq, symidx, seqdom
from .program import rel, AnalysisError
from .poly import P

CONCAT = {"numpy.concatenate", "numpy.hstack", "numpy.vstack", "numpy.append", "numpy.row_stack"}


def _cat_parts(prog, fi, e):
    """np.concatenate((a, b)) / hstack / vstack([a, b]) / np.append(a, b) -> [a, b]"""
    if isinstance(e, ast.Call) and astq.callee_name(prog, fi, e) in CONCAT and e.args:
        if astq.callee_name(prog, fi, e) == "numpy.append" and len(e.args) >= 2:
            return [e.args[0], e.args[1]]
        a = e.args[0]
        if isinstance(a, (ast.Tuple, ast.List)):
            return list(a.elts)
    return None


def _strip_scalar(e):
    """alpha * X -> X"""
    if isinstance(e, ast.BinOp) and isinstance(e.op, ast.Mult):
        for a, b in ((e.left, e.right), (e.right, e.left)):
            if isinstance(b, (ast.Call, ast.Subscript, ast.Name)) and not isinstance(a, ast.Call):
                return b
        return e.right
    return e


def _setup_vec(e, plist):
    """MSarr_list[s][:, k] or MSarr_list[s] -> s expr"""
    cur = e
    if isinstance(cur, ast.Subscript) and isinstance(cur.value, ast.Subscript):
        cur = cur.value
    if isinstance(cur, ast.Subscript) and isinstance(cur.value, ast.Name) and cur.value.id == plist and not isinstance(cur.slice, (ast.Slice, ast.Tuple)):
        return cur.slice
    return None


def _is_ref_of(e, pref):
    """reflist[s] -> s expr"""
    if isinstance(e, ast.Subscript) and isinstance(e.value, ast.Name) and e.value.id == pref and not isinstance(e.slice, (ast.Slice, ast.Tuple)):
        return e.slice
    return None


def _mask_of(prog, fi, m, pref):
    """np.isin(np.arange(n), reflist[r]) -> (r, False);  ~that / logical_not(that) -> (r, True)"""
    neg = False
    if isinstance(m, ast.UnaryOp) and isinstance(m.op, ast.Invert):
        neg, m = True, m.operand
    elif isinstance(m, ast.Call) and astq.callee_name(prog, fi, m) == "numpy.logical_not" and m.args:
        neg, m = True, m.args[0]
    if isinstance(m, ast.Call) and astq.callee_name(prog, fi, m) in ("numpy.isin", "numpy.in1d") and len(m.args) >= 2:
        r = _is_ref_of(m.args[1], pref)
        inv = astq.kwarg(m, "invert")
        if isinstance(inv, ast.Constant) and inv.value is True:
            neg = not neg
        if r is not None and isinstance(m.args[0], ast.Call) and astq.callee_name(prog, fi, m.args[0]) == "numpy.arange":
            return r, neg
    return None


KIND = {}


def _ref_rows(prog, fi, e, plist, pref):
    """V_s[reflist[s']] / MSarr_list[s][reflist[s'], k] -> (s, s'); the order kind ('listed' / 'ascending') is recorded in KIND[id(e)]"""
    if not isinstance(e, ast.Subscript):
        return None
    el = astq.index_elts(e)
    r = _is_ref_of(el[0], pref)
    kind = "listed"
    if r is None:
        mk = _mask_of(prog, fi, el[0], pref)
        if mk is None or mk[1]:
            return None
        r, kind = mk[0], "ascending"
    KIND[id(e)] = kind
    base = e.value
    s = _setup_vec(base, plist)
    if s is None and isinstance(base, ast.Subscript) and isinstance(base.value, ast.Name) and base.value.id == plist:
        s = base.slice
    return (s, r) if s is not None else None


def _rov_rows(prog, fi, e, plist, pref):
    """np.delete(V_s, reflist[s'] [, axis=0]) -> (s, s')"""
    if isinstance(e, ast.Call) and astq.callee_name(prog, fi, e) == "numpy.delete" and len(e.args) >= 2:
        s = _setup_vec(e.args[0], plist)
        r = _is_ref_of(e.args[1], pref)
        ax = astq.kwarg(e, "axis", 2)
        if ax is not None and not (isinstance(ax, ast.Constant) and ax.value == 0):
            return None
        if s is not None and r is not None:
            return (s, r)
    if isinstance(e, ast.Subscript):
        el = astq.index_elts(e)
        mk = _mask_of(prog, fi, el[0], pref)
        if mk is not None and mk[1]:
            s = _setup_vec(e.value, plist)
            if s is None and isinstance(e.value, ast.Subscript) and isinstance(e.value.value, ast.Name) and e.value.value.id == plist:
                s = e.value.slice
            if s is not None:
                return (s, mk[0])
    return None


def same(a, b):
    return a is not None and b is not None and astq.dump(a) == astq.dump(b)


def is_const(e, v):
    return isinstance(e, ast.Constant) and e.value == v


def _verdict(actual, expected):
    """(ok, text): None if the computed order contains an unrecognised part, else equality of the canonical forms"""
    why = seqdom.opaque(seqdom.normalise(actual))
    got, want = seqdom.canon(actual), seqdom.canon(expected)
    if got == want:
        return True, got
    if why:
        return None, f"order not fully recognised ({why[0]}): {got}"
    return False, f"{got}  (required: {want})"


def _names_abstracted(t):
    """string elements replaced by one placeholder: only their number and position matter for the order"""
    return seqdom.tmap(t, lambda leaf: ("ex", "name") if leaf[0] in ("fmt", "ex") else leaf)


def merge(prog, run, rule):
    fi = prog.func("functions.gen.merge_mode_shapes")
    f = rel(prog.mods[fi.mod].path)
    pos, _, _, _ = astq.params_of(fi.node)
    plist, pref = pos[0], pos[1]

    def ob(role, ok, detail, node=None, w=""):
        run.ob(rule, fi.qual, role, ok, detail, witness=w or detail[:90], file=f, node=node)
    it = seqdom.Interp(prog, roles={plist: ("data", 0, 2), pref: ("refs",)})
    rets = it.run(fi)
    out = [astq.src(n.value) for v, n in rets if isinstance(n.value, ast.Name)]
    stores = [st for st in it.stores if st[0] in out]
    role = "merge: rows = [first setup's reference rows in listed order ; every setup's roving rows (own reference list removed, ascending) in setup order]"
    if not stores:
        # the merged array may be assembled functionally and returned directly
        seqs = [(v, n) for v, n in rets if isinstance(v, seqdom.Sq)]
        if not seqs:
            return ob(role, None, "store of the merged mode into the returned array not found")
        stores = [(None, None, v, n, []) for v, n in seqs]
    for name, idx, val, node, loops in stores:
        if not isinstance(val, (seqdom.Sq, seqdom.Vec)):
            ob(role, None, f"stored value `{astq.src(node, 60)}` is not a recognised row sequence", node)
            continue
        ok, txt = _verdict(it.as_seq(val), seqdom.global_order())
        ob(role, ok, txt, node, w=txt[:120])
    # the scale factor pairs reference sensor k of the first setup with reference sensor k of setup i: both in LISTED order
    msf = [c for c in it.calls if c[0].endswith(".MSF")]
    prole = "merge: scale factor pairs reference sensor k of setup 0 with reference sensor k of setup i"
    if not msf:
        ob(prole, None, "no MSF(...) call found")
    for q, bound, node, loops in msf:
        vals = [bound.get("phi_1"), bound.get("phi_2")]
        if any(not isinstance(v, (seqdom.Sq, seqdom.Vec)) for v in vals) or not loops:
            ob(prole, None, f"MSF arguments of `{astq.src(node, 60)}` are not recognised reference-row selections", node)
            continue
        lv = loops[-1][1]
        terms = [seqdom.normalise(it.as_seq(v)) for v in vals]
        if any(seqdom.opaque(t) for t in terms):
            ob(prole, None, f"MSF arguments not fully recognised: {seqdom.canon(terms[0])} / {seqdom.canon(terms[1])}", node)
            continue
        P_ = seqdom.P
        cands = {"own": seqdom.canon(seqdom.listed(P_.s(lv))), "first": seqdom.canon(seqdom.listed(0))}
        got = [seqdom.canon(t) for t in terms]
        okp = sorted(got) == sorted(cands.values())
        ob(prole, okp, f"MSF on `{got[0]}` and `{got[1]}`" + ("" if okp else f" - required: `{cands['own']}` with `{cands['first']}` (same listed order, each setup's own reference list)").replace(lv, "i"), node,
           w=(got[0] + " | " + got[1]).replace(lv, "i")[:120])


def flatten(prog, run, rule):
    fi = prog.func("functions.gen.flatten_sns_names")
    f = rel(prog.mods[fi.mod].path)
    pos, _, _, _ = astq.params_of(fi.node)
    pn, pr = pos[0], pos[1]

    def ob(role, ok, detail, node=None):
        run.ob(rule, fi.qual, role, ok, detail, witness=detail[:120], file=f, node=node)
    it = seqdom.Interp(prog, roles={pn: ("data", 0, 1), pr: ("refs",)}, types={pn: ("list", "list")})
    rets = it.run(fi)
    role = "flatten: names = [one REFk per reference sensor of the first setup ; every setup's non-reference names (ascending) in setup order]"
    seqs = [(v, n) for v, n in rets if isinstance(v, seqdom.Sq)]
    if not seqs:
        return ob(role, None, "returned name list of the multi-setup branch is not a recognised sequence")
    P_ = seqdom.P
    refpart = ("for", "v8", P_.c(0), P_.s("r[0]"), ("ex", "name"))
    for v, n in seqs:
        ok, txt = _verdict(_names_abstracted(v.t), _names_abstracted(seqdom.global_order(first=refpart)))
        ob(role, ok, txt, n)
        # the labels REF1..REFk
        t = seqdom.normalise(v.t)
        first = t[1][0] if t[0] == "cat" and t[1] else t
        if first[0] == "for" and first[4][0] == "fmt":
            lab = seqdom.show(first[4]).replace(first[1], "k")
            ob("flatten: reference names are REF1 .. REFk", lab == "'REF{1 + k}'", f"label {lab} for k = 0 .. {first[3]!r} - 1", n)
        else:
            ob("flatten: reference names are REF1 .. REFk", None, f"label form `{seqdom.show(first)[:60]}` not recognised", n)


def pre(prog, run, rule):
    fi = prog.func("functions.gen.pre_multisetup")
    f = rel(prog.mods[fi.mod].path)
    pos, _, _, _ = astq.params_of(fi.node)
    pd_, pr = pos[0], pos[1]

    def ob(role, ok, detail, node=None):
        run.ob(rule, fi.qual, role, ok, detail, witness=detail[:120], file=f, node=node)
    it = seqdom.Interp(prog, roles={pd_: ("data", 1, 2), pr: ("refs",)})
    rets = it.run(fi)
    P_ = seqdom.P
    i = P_.s("v7")
    for key, want, what in (("ref", seqdom.listed(i), "split: 'ref' = channels at the setup's reference indices, in listed order"),
                            ("mov", seqdom.roving(i), "split: 'mov' = all remaining channels in ascending order (every reference index of THIS setup removed)")):
        seqs = [(v, n) for v, n in rets if isinstance(v, seqdom.Sq)]
        if not seqs:
            ob(what, None, "returned list of per-setup dicts is not a recognised sequence")
            continue
        for v, n in seqs:
            t = seqdom.normalise(v.t)
            if not (t[0] == "for" and t[4][0] == "dct" and key in dict(t[4][1])):
                ob(what, None, f"returned value `{seqdom.canon(t)[:80]}` is not one {{'ref', 'mov'}} dict per dataset", n)
                continue
            sel = ("for", t[1], t[2], t[3], dict(t[4][1])[key])
            ok, txt = _verdict(sel, ("for", "v7", P_.c(0), P_.s("N"), want))
            ob(what, ok, txt, n)
    # the split is re-applied with the SAME reference lists after every preprocessing step: it must not modify its arguments
    from .props.C15 import alias_effects
    eff, alias = alias_effects(prog, fi)
    listm = [(n, f"in-place method `{astq.src(n, 40)}` on a value that aliases an argument") for n in ast.walk(fi.node)
             if isinstance(n, ast.Call) and isinstance(n.func, ast.Attribute) and n.func.attr in ("sort", "reverse", "remove", "pop", "append", "insert", "clear", "extend")
             and isinstance(n.func.value, ast.Name) and n.func.value.id in alias]
    eff = eff + listm
    ob("split: the data list and the reference index lists are not modified (they are re-used for every later split)", not eff,
       "no in-place effect on the arguments" if not eff else "; ".join(w for n, w in eff), eff[0][0] if eff else fi.node)


def ssi_ms(prog, run, rule):
    fi = prog.func("functions.ssi.SSI_multi_setup")
    f = rel(prog.mods[fi.mod].path)
    _stack_ref_mov(prog, run, rule, fi, f)


def _stack_ref_mov(prog, run, rule, fi, f):
    """Y_all = vstack((Y[k]['ref'], Y[k]['mov'])): reference channels first"""
    found = 0
    for n in ast.walk(fi.node):
        if isinstance(n, ast.Call) and astq.callee_name(prog, fi, n) == "numpy.vstack" and n.args and isinstance(n.args[0], (ast.Tuple, ast.List)) and len(n.args[0].elts) == 2:
            a, b = [astq.expr_at(fi, n, e) for e in n.args[0].elts]
            sa_, sb = astq.src(a), astq.src(b)
            if "'ref'" in sa_ + sb and "'mov'" in sa_ + sb:
                found += 1
                ok = "'ref'" in sa_ and "'mov'" in sb and "'mov'" not in sa_ and "'ref'" not in sb
                run.ob(rule, fi.qual, "per-setup record stack = [reference channels ; roving channels]", ok, f"vstack(({sa_[-22:]}, {sb[-22:]}))", witness=f"{sa_[-12:]},{sb[-12:]}", file=f, node=n)
    if not found:
        run.ob(rule, fi.qual, "per-setup record stack", None, "vstack((ref, mov)) not found", file=f)


def sd_preger(prog, run, rule):
    fi = prog.func("functions.fdd.SD_PreGER")
    f = rel(prog.mods[fi.mod].path)

    def ob(role, ok, detail, node=None):
        run.ob(rule, fi.qual, role, ok, detail, witness=detail[:90], file=f, node=node)
    _stack_ref_mov(prog, run, rule, fi, f)
    # Gyy[ii] = hstack((Sy_allref, Sy_allmov)) : columns [ref | mov]
    hs = [n for n in ast.walk(fi.node) if isinstance(n, ast.Call) and astq.callee_name(prog, fi, n) == "numpy.hstack" and n.args and isinstance(n.args[0], (ast.Tuple, ast.List)) and len(n.args[0].elts) == 2]
    for h in hs:
        a, b = [astq.expr_at(fi, h, e) for e in h.args[0].elts]
        def second_operand(x):
            cs = [c for c in ast.walk(x) if isinstance(c, ast.Call) and astq.callee_name(prog, fi, c).endswith(".SD_est") and len(c.args) >= 2]
            return astq.src(astq.expr_at(fi, h, cs[0].args[1])) if cs else ""
        sa_, sb = second_operand(a), second_operand(b)
        ok = "'ref'" in sa_ and "'mov'" in sb
        ob("column blocks of a setup's spectrum = [against references | against roving]", ok, f"hstack((.. vs {sa_[-12:]}, .. vs {sb[-12:]}))", h)
    # the merged line: vstack([mean reference block, vstack(per-setup roving blocks)])
    rets = [n for n in ast.walk(fi.node) if isinstance(n, ast.Return) and isinstance(n.value, ast.Tuple)]
    vs = [n for n in ast.walk(fi.node) if isinstance(n, ast.Call) and astq.callee_name(prog, fi, n) == "numpy.vstack" and n.args and isinstance(n.args[0], (ast.List, ast.Tuple)) and len(n.args[0].elts) == 2
          and "'ref'" not in astq.src(n)]
    if not vs:
        return ob("merged rows", None, "vstack([reference block, roving blocks]) not found")
    v = vs[-1]
    a, b = [astq.expr_at(fi, v, e) for e in v.args[0].elts]
    sa_, sb = astq.src(a, 400), astq.src(b, 2000)
    is_mean = "np.sum" in sa_ or "np.mean" in sa_
    has_inv = "linalg.inv" in sb or "linalg.solve" in sb or "linalg.pinv" in sb
    ok = is_mean and has_inv and not ("linalg.inv" in sa_)
    ob("merged rows = [mean reference block ; roving blocks]", ok, "reference block first" if ok else "roving blocks placed before the reference block / blocks not recognised", v)
    # roving blocks: list comprehension over range(n_setup) ascending, rows [n_ref:, :n_ref], inverse of [:n_ref, :n_ref]
    comps = [c for c in ast.walk(b) if isinstance(c, ast.ListComp)]
    if not comps:
        return ob("roving blocks in setup order", None, "per-setup list comprehension not found")
    c = comps[0]
    se = symidx.SymEval(prog, fi)
    rg = symidx.range_args(se, symidx.is_range(prog, fi, c.generators[0].iter)) if symidx.is_range(prog, fi, c.generators[0].iter) is not None else None
    ob("roving blocks in ascending setup order", rg is not None and rg[0] == P.c(0) and rg[2] == P.c(1), f"range({', '.join(map(repr, rg)) if rg else '?'})", v)
    ok_mov = ok_ref = False
    seen_w = []
    for sub in ast.walk(c.elt):
        if isinstance(sub, ast.Subscript):
            el = astq.index_elts(sub)
            if len(el) == 2 and all(isinstance(x, ast.Slice) and x.step is None for x in el):
                r, cc = el
                if r.lower is not None and r.upper is None and cc.lower is None and cc.upper is not None and astq.dump(r.lower) == astq.dump(cc.upper):
                    ok_mov = True
                    seen_w.append("[n:, :n]")
                elif r.lower is None and r.upper is not None and cc.lower is None and cc.upper is not None and astq.dump(r.upper) == astq.dump(cc.upper):
                    ok_ref = True
                    seen_w.append("[:n, :n]")
                elif not (astq.is_full_slice(r) and astq.is_full_slice(cc)):
                    seen_w.append(astq.src(sub.slice, 30))
    m_mov, m_ref = seen_w, ""
    ob("transfer block = rows of the roving channels x columns of the references; inverse of the reference-reference block", ok_mov and ok_ref,
       f"row/column windows {m_mov} and {m_ref}", v)
    # matrix normal form of a roving block: MOV . REF^-1 . MEAN  (right multiplication by the un-transposed inverse)
    nf = astq.matnf(prog, fi, c.elt)

    def role(x):
        for sub in ast.walk(x):
            if isinstance(sub, ast.Subscript):
                el = astq.index_elts(sub)
                if len(el) == 2 and all(isinstance(z, ast.Slice) for z in el):
                    r, cc = el
                    if r.lower is not None and r.upper is None and cc.lower is None and cc.upper is not None:
                        return "MOV"
                    if r.lower is None and r.upper is not None and cc.lower is None and cc.upper is not None:
                        return "REF"
        t = astq.src(x, 400)
        if "np.sum" in t or "np.mean" in t or ".mean(" in t:
            return "MEAN"
        return "?"
    if nf is None:
        ob("roving block = G_mov,ref . inv(G_ref,ref) . mean(G_ref,ref)", None, f"matrix expression `{astq.src(c.elt, 80)}` not in product/inverse/transpose form", v)
    else:
        sig = [(role(x) if role(x) != "REF" or True else "REF", i, t) for x, i, t in nf]
        # a MEAN atom contains REF windows too: classify by the outermost content
        sig2 = []
        for (x, i, t) in nf:
            txt = astq.src(x, 400)
            r = "MEAN" if ("np.sum" in txt or "np.mean" in txt) else role(x)
            sig2.append((r, i, t))
        want = [("MOV", False, False), ("REF", True, False), ("MEAN", False, False)]
        okn = sig2 == want
        pretty = " . ".join(f"{r}{'^-1' if i else ''}{'^T' if t else ''}" for r, i, t in sig2)
        ob("roving block = G_mov,ref . inv(G_ref,ref) . mean(G_ref,ref)", okn, f"normal form: {pretty}" + ("" if okn else " (the spectral blocks are Hermitian, not symmetric: a transposed inverse is a different matrix)"), v)


WHICH = {"merge": merge, "flatten": flatten, "pre": pre, "ssi_ms": ssi_ms, "sd_preger": sd_preger}


def order_obligations(prog, run, rule, which):
    for w in which:
        WHICH[w](prog, run, rule)
