"""Axis-role domain: which array axis carries what.

A value is an array whose axes are named: the spectral matrix SD is ("row", "col", "line"); a singular value decomposition of a
(stack of) matrices whose LAST two axes are ("row", "col") gives U = lead + ("comp", "vec") (component i of left singular vector k at
[..., i, k]), s = lead + ("k",), Vh = lead + ("rvec", "rcomp").  Transpositions, axis moves, conjugation, scalar indexing, stores into
slices of a pre-allocated array, stacking of per-line results and element-wise functions are followed; everything else is unknown
(None) - an unknown value makes the rule that asks for it undecided, never violated.

The interpreter walks a function body once (loops once, `if` branches joined: a name assigned differently in two branches becomes
unknown).  It decides layout questions ("are the vectors stored in rows?", "which index selects the vector?") for loop-based and
batched spellings alike."""
import ast

from . import astq

SAME = {"numpy.array", "numpy.asarray", "numpy.ascontiguousarray", "numpy.asfortranarray", "numpy.copy", "numpy.sqrt", "numpy.abs", "numpy.absolute",
        "numpy.real", "numpy.real_if_close", "numpy.nan_to_num", "numpy.asanyarray", "numpy.complex128", "numpy.float64"}
SAME_METH = {"copy", "astype"}
ALLOC = {"numpy.zeros", "numpy.empty", "numpy.ones", "numpy.full"}


class AV:
    """roles: tuple of axis names; conj: conjugated an odd number of times; origin: dump of the svd call it comes from; part: 0/1/2;
    mono: only monotone element-wise maps applied since the decomposition; swapped: the decomposed matrices were transposed"""

    def __init__(self, roles, conj=False, origin=None, part=None, mono=True, swapped=False, alloc=False):
        self.roles, self.conj, self.origin, self.part, self.mono, self.swapped, self.alloc = tuple(roles), conj, origin, part, mono, swapped, alloc

    def with_roles(self, roles):
        return AV(roles, self.conj, self.origin, self.part, self.mono, self.swapped, self.alloc)

    def __repr__(self):
        return f"AV{self.roles}{'*' if self.conj else ''}" + (f"<svd part {self.part}>" if self.part is not None else "")


def _const_int(e):
    try:
        v = ast.literal_eval(e)
    except Exception:
        return None
    return v if isinstance(v, int) and not isinstance(v, bool) else None


def _int_tuple(e):
    try:
        v = ast.literal_eval(e)
    except Exception:
        return None
    if isinstance(v, (tuple, list)) and all(isinstance(x, int) and not isinstance(x, bool) for x in v):
        return list(v)
    return None


def permute(v, order):
    """new axis i carries old axis order[i]"""
    n = len(v.roles)
    order = [a % n for a in order]
    if sorted(order) != list(range(n)):
        return None
    return v.with_roles(tuple(v.roles[a] for a in order))


def moveaxis(v, src, dst):
    n = len(v.roles)
    order = list(range(n))
    order.remove(src % n)
    order.insert(dst % n, src % n)
    return permute(v, order)


def broadcast(vals):
    """roles of an element-wise combination (right aligned); 'new' / 'diag' axes take the other operand's name"""
    vals = [v for v in vals if v is not None]
    if not vals:
        return None
    n = max(len(v.roles) for v in vals)
    out = []
    for k in range(1, n + 1):
        names = {v.roles[-k] for v in vals if len(v.roles) >= k} - {"new"}
        real = names - {"diag"}
        if len(real) > 1:
            return None
        out.append(next(iter(real)) if real else (next(iter(names)) if names else "new"))
    return tuple(reversed(out))


class Interp:
    def __init__(self, prog, fi, seeds):
        """seeds: {parameter name: roles tuple}"""
        self.prog, self.fi = prog, fi
        self.env = {k: AV(v) for k, v in seeds.items()}
        self.scalar_role = {}       # loop variable -> role of the axis it indexes
        self.returns = []
        self.notes = []

    # ------------------------------------------------------------------ expressions
    def ev(self, e):
        if isinstance(e, ast.Name):
            return self.env.get(e.id)
        if isinstance(e, ast.Attribute):
            v = self.ev(e.value)
            if v is None:
                return None
            if e.attr in ("T", "mT"):
                n = len(v.roles)
                if e.attr == "mT" and n >= 2:
                    return permute(v, list(range(n - 2)) + [n - 1, n - 2])
                return permute(v, list(range(n))[::-1])
            if e.attr == "H":
                r = permute(v, list(range(len(v.roles)))[::-1])
                return AV(r.roles, not v.conj, v.origin, v.part, v.mono, v.swapped) if r else None
            if e.attr == "real":
                return v
            return None
        if isinstance(e, ast.Subscript):
            return self.subscript(e)
        if isinstance(e, ast.Call):
            return self.call(e)
        if isinstance(e, ast.UnaryOp) and isinstance(e.op, (ast.USub, ast.UAdd)):
            v = self.ev(e.operand)
            return AV(v.roles, v.conj, v.origin, v.part, False, v.swapped) if v is not None else None
        if isinstance(e, ast.BinOp) and isinstance(e.op, (ast.Mult, ast.Div, ast.Add, ast.Sub, ast.Pow)):
            a, b = self.ev(e.left), self.ev(e.right)
            arr = [x for x in (a, b) if x is not None]
            if len(arr) == 1:
                # array (op) scalar expression: layout unchanged, no longer a monotone image unless the scalar is a positive constant
                other = e.right if a is not None else e.left
                pos = isinstance(other, ast.Constant) and isinstance(other.value, (int, float)) and other.value > 0 and isinstance(e.op, (ast.Mult, ast.Div, ast.Pow))
                v = arr[0]
                return AV(v.roles, v.conj, v.origin, v.part, v.mono and pos, v.swapped)
            if len(arr) == 2:
                r = broadcast(arr)
                return AV(r, False, None, None, False) if r else None
            return None
        if isinstance(e, (ast.ListComp, ast.GeneratorExp)) and len(e.generators) == 1 and isinstance(e.generators[0].target, ast.Name):
            g = e.generators[0]
            role = self.loop_role(g.target.id, e.elt, g.iter)
            old = self.scalar_role.get(g.target.id)
            self.scalar_role[g.target.id] = role
            try:
                v = self.ev(e.elt)
            finally:
                if old is None:
                    self.scalar_role.pop(g.target.id, None)
                else:
                    self.scalar_role[g.target.id] = old
            if v is None or role is None:
                return None
            return v.with_roles((role,) + v.roles)
        return None

    def subscript(self, e):
        base = e.value
        # element i of a decomposition
        if isinstance(base, ast.Call) and astq.callee_name(self.prog, self.fi, base) in ("numpy.linalg.svd", "scipy.linalg.svd") and _const_int(e.slice) is not None:
            parts = self.svd(base)
            i = _const_int(e.slice)
            return parts[i] if parts is not None and 0 <= i < 3 else None
        v = self.ev(base)
        if v is None:
            return None
        idx = astq.index_elts(e)
        if any(isinstance(x, ast.Constant) and x.value is Ellipsis for x in idx):
            return None
        roles = []
        pos = 0
        for x in idx:
            if (isinstance(x, ast.Constant) and x.value is None) or astq.src(x).endswith("newaxis"):
                roles.append("new")
                continue
            if pos >= len(v.roles):
                return None
            if isinstance(x, ast.Slice):
                roles.append(v.roles[pos])
            else:
                xv = self.ev(x)
                if xv is not None and len(xv.roles) >= 1:
                    return None     # fancy indexing: not followed
            pos += 1
        roles += list(v.roles[pos:])
        return v.with_roles(roles)

    def svd(self, call):
        if not call.args:
            return None
        x = self.ev(call.args[0])
        if x is None or len(x.roles) < 2:
            return None
        lead, last = x.roles[:-2], x.roles[-2:]
        if set(lead) & {"row", "col"}:
            return None
        swapped = last == ("col", "row")
        if last not in (("row", "col"), ("col", "row")):
            return None
        origin = astq.dump(call)
        return [AV(lead + ("comp", "vec"), x.conj, origin, 0, True, swapped), AV(lead + ("k",), False, origin, 1, True, swapped),
                AV(lead + ("rvec", "rcomp"), x.conj, origin, 2, True, swapped)]

    def call(self, e):
        nm = astq.callee_name(self.prog, self.fi, e)
        f = e.func
        if nm in ("numpy.linalg.svd", "scipy.linalg.svd"):
            return None         # the triple itself: handled at unpacking / subscripting
        if nm in (".conj", ".conjugate") and isinstance(f, ast.Attribute):
            v = self.ev(f.value)
            return AV(v.roles, not v.conj, v.origin, v.part, v.mono, v.swapped) if v is not None else None
        if nm in ("numpy.conj", "numpy.conjugate") and e.args:
            v = self.ev(e.args[0])
            return AV(v.roles, not v.conj, v.origin, v.part, v.mono, v.swapped) if v is not None else None
        if isinstance(f, ast.Attribute) and f.attr in SAME_METH and nm.startswith("."):
            return self.ev(f.value)
        if nm in SAME and e.args:
            a0 = e.args[0]
            if isinstance(a0, (ast.ListComp, ast.GeneratorExp, ast.Name)) or not isinstance(a0, (ast.List, ast.Tuple)):
                v = self.ev(a0)
                if v is not None and nm in ("numpy.real",):
                    return AV(v.roles, False, v.origin, v.part, v.mono, v.swapped)
                return v
            return None
        if nm == "numpy.diag" and e.args:
            v = self.ev(e.args[0])
            if v is not None and len(v.roles) == 1:
                return v.with_roles((v.roles[0], v.roles[0]))
            return None
        if nm in ("numpy.eye", "numpy.identity"):
            return AV(("diag", "diag"))
        if nm == "numpy.where" and len(e.args) == 3:
            vals = [self.ev(a) for a in e.args]
            src_ = [v for v in vals[1:] if v is not None and v.origin is not None]
            r = broadcast([v for v in vals if v is not None])
            if r is None:
                return None
            if len(src_) == 1:
                v = src_[0]
                return AV(r, v.conj, v.origin, v.part, v.mono, v.swapped)
            return AV(r, False, None, None, False)
        if nm == "numpy.moveaxis" and len(e.args) + len(e.keywords) >= 3:
            v = self.ev(e.args[0])
            s_, d_ = _const_int(astq.kwarg(e, "source", 1)), _const_int(astq.kwarg(e, "destination", 2))
            return moveaxis(v, s_, d_) if v is not None and s_ is not None and d_ is not None else None
        if nm == "numpy.swapaxes" and len(e.args) == 3:
            v = self.ev(e.args[0])
            a, b = _const_int(e.args[1]), _const_int(e.args[2])
            if v is None or a is None or b is None:
                return None
            order = list(range(len(v.roles)))
            order[a], order[b] = order[b], order[a]
            return permute(v, order)
        if nm == "numpy.transpose" and e.args:
            v = self.ev(e.args[0])
            ax = astq.kwarg(e, "axes", 1)
            if v is None:
                return None
            if ax is None:
                return permute(v, list(range(len(v.roles)))[::-1])
            order = _int_tuple(ax)
            return permute(v, order) if order is not None and len(order) == len(v.roles) else None
        if nm == ".transpose" and isinstance(f, ast.Attribute):
            v = self.ev(f.value)
            if v is None:
                return None
            if not e.args:
                return permute(v, list(range(len(v.roles)))[::-1])
            order = _int_tuple(e.args[0]) if len(e.args) == 1 and isinstance(e.args[0], (ast.Tuple, ast.List)) else [_const_int(a) for a in e.args]
            return permute(v, order) if order is not None and None not in order and len(order) == len(v.roles) else None
        if nm in ALLOC and e.args:
            shp = e.args[0]
            n = len(shp.elts) if isinstance(shp, (ast.Tuple, ast.List)) else 1
            return AV(("unset",) * n, alloc=True)
        if nm in ("numpy.stack",) and e.args:
            v = self.ev(e.args[0])
            ax = _const_int(astq.kwarg(e, "axis", 1)) if astq.kwarg(e, "axis", 1) is not None else 0
            if v is None or ax is None:
                return None
            return moveaxis(v, 0, ax)
        # a small package helper: interpret its returned expression with the arguments bound
        r = self.prog.resolve_call(self.fi, e)
        from .program import FuncInfo
        if isinstance(r, FuncInfo) and r.node is not self.fi.node:
            body = astq._simple_body(r.node)
            if body is not None:
                m, errs = astq.bind_args(r.node, e)
                if not errs:
                    sub = Interp(self.prog, r, {})
                    for p_, a_ in m.items():
                        if isinstance(a_, ast.AST):
                            v = self.ev(a_)
                            if v is not None:
                                sub.env[p_] = v
                    sub.block(body)
                    if sub.returns and sub.returns[-1][0] is not None:
                        return sub.returns[-1][0]
        return None

    # ------------------------------------------------------------------ statements
    def loop_role(self, var, body, it=None):
        """role of the axis the scalar loop variable indexes in a role-known array (None if it indexes axes of different roles / none)"""
        roles = set()
        nodes = body if isinstance(body, list) else [body]
        for st in nodes:
            for n in ast.walk(st):
                if isinstance(n, ast.Subscript):
                    v = self.ev(n.value) if not isinstance(n.value, ast.Call) else None
                    if v is None or v.alloc:
                        continue
                    pos = 0
                    for x in astq.index_elts(n):
                        if (isinstance(x, ast.Constant) and x.value is None):
                            continue
                        if isinstance(x, ast.Name) and x.id == var and pos < len(v.roles):
                            roles.add(v.roles[pos])
                        pos += 1
        return next(iter(roles)) if len(roles) == 1 else None

    def bind_loop(self, target, it, body):
        """for x in A: x = A without its first axis; for k, x in enumerate(A): k numbers that axis; zip(A, B) element-wise"""
        nm = astq.callee_name(self.prog, self.fi, it) if isinstance(it, ast.Call) else None
        if nm in ("tqdm.tqdm",) and it.args:
            return self.bind_loop(target, it.args[0], body)
        if nm == "enumerate" and it.args and isinstance(target, ast.Tuple) and len(target.elts) == 2 and isinstance(target.elts[0], ast.Name):
            a = self.ev(it.args[0])
            if a is not None and a.roles:
                self.scalar_role[target.elts[0].id] = a.roles[0]
            else:
                self.scalar_role[target.elts[0].id] = self.loop_role(target.elts[0].id, body)
            return self.bind_loop(target.elts[1], it.args[0], body)
        if nm == "zip" and isinstance(target, ast.Tuple) and len(target.elts) == len(it.args):
            for t_, a_ in zip(target.elts, it.args):
                self.bind_loop(t_, a_, body)
            return
        if isinstance(target, ast.Name):
            a = self.ev(it)
            if a is not None and a.roles and not a.alloc:
                self.assign_name(target.id, a.with_roles(a.roles[1:]))
                return
            self.env.pop(target.id, None)
            self.scalar_role[target.id] = self.loop_role(target.id, body, it)

    def assign_name(self, name, v):
        self.env[name] = v
        if v is None:
            self.env.pop(name, None)

    def store(self, tgt, value):
        """A[idx] = value for a pre-allocated (or known) array A: the roles of the value land on the sliced axes, the scalar-indexed
        axes take the role of their index variable"""
        if not isinstance(tgt.value, ast.Name):
            return
        name = tgt.value.id
        cur = self.env.get(name)
        if cur is None:
            return
        idx = astq.index_elts(tgt)
        if len(idx) == 1 and (astq.is_full_slice(idx[0]) or (isinstance(idx[0], ast.Constant) and idx[0].value is Ellipsis)):
            v = self.ev(value)
            self.assign_name(name, v if v is None else AV(v.roles, v.conj, v.origin, v.part, v.mono, v.swapped))
            return
        v = self.ev(value)
        if v is None:
            self.assign_name(name, None)
            return
        roles = []
        vi = 0
        ramp_role = {}
        for x in idx:
            if isinstance(x, ast.Slice):
                if vi >= len(v.roles):
                    self.assign_name(name, None)
                    return
                roles.append(v.roles[vi])
                vi += 1
            elif isinstance(x, ast.Name) and x.id in getattr(self, "ramps", ()):
                # A[:, k, k] = rows with k = arange(n): the (line, k) values go on the diagonal of every line's matrix
                if x.id in ramp_role:
                    roles.append(ramp_role[x.id])
                else:
                    if vi >= len(v.roles):
                        self.assign_name(name, None)
                        return
                    ramp_role[x.id] = v.roles[vi]
                    roles.append(v.roles[vi])
                    vi += 1
            elif isinstance(x, ast.Name) and x.id in self.scalar_role and self.scalar_role[x.id] is not None:
                roles.append(self.scalar_role[x.id])
            else:
                self.assign_name(name, None)
                return
        roles += list(v.roles[vi:])         # indices not written out are full slices
        if len(roles) != len(cur.roles):
            self.assign_name(name, None)
            return
        self.env[name] = AV(roles, v.conj, v.origin, v.part, v.mono, v.swapped)

    def block(self, stmts):
        for s in stmts:
            if isinstance(s, ast.Assign) and len(s.targets) == 1:
                t = s.targets[0]
                if isinstance(t, ast.Name):
                    if isinstance(s.value, ast.Call) and astq.callee_name(self.prog, self.fi, s.value) == "numpy.arange":
                        self.ramps = getattr(self, "ramps", set()) | {t.id}
                    else:
                        self.ramps = getattr(self, "ramps", set()) - {t.id}
                    self.assign_name(t.id, self.ev(s.value))
                elif isinstance(t, (ast.Tuple, ast.List)):
                    parts = None
                    if isinstance(s.value, ast.Call) and astq.callee_name(self.prog, self.fi, s.value) in ("numpy.linalg.svd", "scipy.linalg.svd"):
                        parts = self.svd(s.value)
                    elif isinstance(s.value, (ast.Tuple, ast.List)) and len(s.value.elts) == len(t.elts):
                        parts = [self.ev(x) for x in s.value.elts]
                    elif isinstance(s.value, ast.Attribute) and s.value.attr == "shape":
                        parts = [None] * len(t.elts)
                    for k, el in enumerate(t.elts):
                        if isinstance(el, ast.Name):
                            self.assign_name(el.id, parts[k] if parts is not None and k < len(parts) else None)
                elif isinstance(t, ast.Subscript):
                    self.store(t, s.value)
            elif isinstance(s, ast.AugAssign) and isinstance(s.target, ast.Name):
                self.assign_name(s.target.id, None)
            elif isinstance(s, ast.For):
                self.bind_loop(s.target, s.iter, s.body)
                self.block(s.body)
            elif isinstance(s, ast.If):
                before = dict(self.env)
                self.block(s.body)
                a = self.env
                self.env = dict(before)
                self.block(s.orelse)
                b = self.env
                self.env = {k: a[k] for k in a if k in b and repr(a[k]) == repr(b[k]) and a[k].conj == b[k].conj and a[k].origin == b[k].origin}
            elif isinstance(s, (ast.With, ast.Try)):
                self.block(s.body)
            elif isinstance(s, ast.Return):
                if isinstance(s.value, ast.Tuple):
                    self.returns.append(([self.ev(x) for x in s.value.elts], s))
                else:
                    self.returns.append((self.ev(s.value), s))

    def run(self):
        self.block(self.fi.node.body)
        return self.returns
