"""E5 - dependence/taint interpreter: which labelled sources does a value depend on (data dependence through
assignments, containers, package calls inlined from their bodies, plus control dependence on labelled conditions).
Constants and None are tracked so that configuration branches (`if calc_unc is True`, `if Fn_cov is not None`) are selected
rather than joined.  External (numpy/scipy) calls return the union of their arguments' labels."""
import ast

from .program import FuncInfo, ClassInfo, ModRef, Ext as PExt, AnalysisError

EMPTY = frozenset()


class TV:
    pass


class T(TV):
    """an array/scalar value depending on the labelled sources in .l"""
    __slots__ = ("l",)

    def __init__(self, l=EMPTY):
        self.l = frozenset(l)

    def __repr__(self):
        return "T" + repr(sorted(self.l))


class TC(TV):
    """a known constant"""
    __slots__ = ("v", "l")

    def __init__(self, v, l=EMPTY):
        self.v = v
        self.l = frozenset(l)

    def __repr__(self):
        return f"TC({self.v!r})"


class TTup(TV):
    def __init__(self, items):
        self.items = list(items)

    def __repr__(self):
        return "TTup" + repr(self.items)


class TLst(TV):
    def __init__(self, items=None, extra=None):
        self.items = list(items or [])
        self.extra = extra  # summary of appended-in-loop elements

    def __repr__(self):
        return f"TLst{self.items!r}+{self.extra!r}"


class TDct(TV):
    open = False          # some entries are not known (a store under an unknown key, an update that is not followed)
    unordered = False     # the insertion order differs between the paths that were joined

    def __init__(self, d, src=None):
        self.d = dict(d)
        self.src = src  # label prefix: unknown constant keys produce label f"{src}:{key}"


class TObj(TV):
    def __init__(self, attrs=None, cls=None):
        self.attrs = dict(attrs or {})
        self.cls = cls


class TFn(TV):
    def __init__(self, fi, bound=None):
        self.fi = fi
        self.bound = bound


class TExt(TV):
    def __init__(self, name):
        self.name = name


class TMod(TV):
    def __init__(self, name):
        self.name = name


class TCls(TV):
    def __init__(self, ci):
        self.ci = ci


class TClo(TV):
    """a function defined inside another one: its body runs in the environment it was defined in"""

    def __init__(self, node, fr):
        self.node, self.fr = node, fr

    def __repr__(self):
        return f"<closure {self.node.name}>"


class TLam(TV):
    """a lambda closure: evaluated in a copy of the defining environment when called"""

    def __init__(self, node, fr):
        self.node, self.fr = node, fr


def labels(v):
    if v is None:
        return EMPTY
    if isinstance(v, (T, TC)):
        return v.l
    if isinstance(v, TTup):
        r = EMPTY
        for i in v.items:
            r |= labels(i)
        return r
    if isinstance(v, TLst):
        r = labels(v.extra)
        for i in v.items:
            r |= labels(i)
        return r
    if isinstance(v, TDct):
        r = EMPTY
        for i in v.d.values():
            r |= labels(i)
        return r
    if isinstance(v, TLam):
        # everything the closure reads from its defining scope
        r = EMPTY
        bound = {a.arg for a in v.node.args.args}
        for n in ast.walk(v.node.body):
            if isinstance(n, ast.Name) and n.id not in bound and n.id in v.fr.env:
                r |= labels(v.fr.env[n.id])
        return r
    return EMPTY


def noval(ls):
    """labels of a PREDICATE / POSITION computed from a value: the value-provenance labels ('val:...': "this array holds the numbers of
    that table") do not pass - a mask built from the damping table is not the damping table"""
    return frozenset(x for x in ls if not x.startswith("val:"))


PREDICATES = {"numpy.isnan", "numpy.isinf", "numpy.isfinite", "numpy.isclose", "numpy.allclose", "numpy.logical_and", "numpy.logical_or", "numpy.logical_not", "numpy.any",
              "numpy.all", "numpy.argmin", "numpy.argmax", "numpy.nanargmin", "numpy.nanargmax", "numpy.argsort", "numpy.nonzero", "numpy.flatnonzero", "numpy.isin",
              "numpy.greater", "numpy.less", "numpy.equal", "numpy.not_equal", "numpy.greater_equal", "numpy.less_equal", "numpy.count_nonzero", "len", "isinstance", "bool"}
PREDICATE_METH = {"any", "all", "argmin", "argmax", "argsort", "nonzero"}


def add_labels(v, l):
    if not l:
        return v
    if isinstance(v, T):
        return T(v.l | l)
    if isinstance(v, TC):
        if v.v is None:
            return v  # None stays None (absent table)
        return TC(v.v, v.l | l)
    if isinstance(v, TTup):
        return TTup([add_labels(i, l) for i in v.items])
    if isinstance(v, TLst):
        return TLst([add_labels(i, l) for i in v.items], add_labels(v.extra, l) if v.extra is not None else None)
    return v


def join(a, b):
    if a is None:
        return b
    if b is None:
        return a
    if a is b:
        return a
    if isinstance(a, TC) and isinstance(b, TC) and type(a.v) == type(b.v) and a.v == b.v:
        return TC(a.v, a.l | b.l)
    if isinstance(a, TTup) and isinstance(b, TTup) and len(a.items) == len(b.items):
        return TTup([join(x, y) for x, y in zip(a.items, b.items)])
    if isinstance(a, TLst) and isinstance(b, TLst):
        n = min(len(a.items), len(b.items))
        items = [join(x, y) for x, y in zip(a.items[:n], b.items[:n])]
        # optimistic step (DESIGN 5): an if/elif chain in which only some branches append keeps the longer prefix
        items += (a.items[n:] or b.items[n:])
        return TLst(items, join(a.extra, b.extra))
    if isinstance(a, TDct) and isinstance(b, TDct):
        keys = list(a.d) + [k for k in b.d if k not in a.d]
        r = TDct({k: join(a.d.get(k), b.d.get(k)) for k in keys}, a.src or b.src)
        r.open = getattr(a, "open", False) or getattr(b, "open", False)
        # different insertion orders on the two paths: positional reads (.values(), iteration) are not decided any more
        r.unordered = getattr(a, "unordered", False) or getattr(b, "unordered", False) or [k for k in a.d if k in b.d] != [k for k in b.d if k in a.d]
        return r
    if isinstance(a, TObj) and isinstance(b, TObj):
        return TObj({k: join(a.attrs.get(k), b.attrs.get(k)) for k in set(a.attrs) | set(b.attrs)}, a.cls)
    if isinstance(a, (TFn, TExt, TMod, TCls)):
        return a
    return T(labels(a) | labels(b))


class Frame:
    def __init__(self, mod, env, qual, cls=None):
        self.mod = mod
        self.env = env
        self.qual = qual
        self.cls = cls
        self.ret = None
        self.returned = False
        self.skip = None  # 'continue' / 'break' met on a decided path: the rest of the loop body is not executed in this iteration
        self.ctl = EMPTY  # labels of the conditions controlling the current statement


class TaintInterp:
    def __init__(self, prog, max_depth=10):
        self.prog = prog
        self.depth = 0
        self.max_depth = max_depth
        self.call_log = []    # (callee qual, {param: value}) for every inlined package call
        self.ctor_log = []    # (class qual, kwargs) for constructed package objects
        self.unknown = []           # what was not followed and may matter anywhere (keywords / positions spread from something unknown)
        self.scoped = []            # what was not followed inside ONE object (a dictionary updated with unknown entries ..): everything
                                    # derived from that object carries the label unk:<n> of the event
        self.steps = 0
        self.generic = 0
        self.ret_tags = {}    # callee qual -> prefix: element k of its returned tuple gets the value-provenance label 'val:<prefix>:<k>'

    # -------------------------------------------------------------- entry
    def scoped_unknown(self, node, msg):
        """record an event whose effect stays inside one object; returns the label to put on everything in that object"""
        self.scoped.append((node, msg))
        return f"unk:{len(self.scoped) - 1}"

    def blind_for(self, *values):
        """'' when what the interpreter did not follow cannot have changed these values; else a description of what was not followed"""
        if self.unknown:
            return self.unknown[0][1] + (f" (and {len(self.unknown) - 1} more)" if len(self.unknown) > 1 else "")
        for v in values:
            for l in labels(v):
                if l.startswith("unk:"):
                    return self.scoped[int(l[4:])][1]
        return ""

    def call_function(self, fi, args=(), kw=None, bound=None):
        return self._call(TFn(fi, bound), list(args), dict(kw or {}), None, Frame(fi.mod, {}, "<entry>"))

    # -------------------------------------------------------------- statements
    def block(self, stmts, fr):
        for s in stmts:
            if fr.returned or fr.skip:
                return
            self.steps += 1
            if self.steps > 200000:
                raise AnalysisError("taint interpreter step budget exhausted")
            self.stmt(s, fr)

    def assign(self, t, v, fr):
        if isinstance(t, ast.Name):
            fr.env[t.id] = v
        elif isinstance(t, (ast.Tuple, ast.List)):
            stars = [i for i, x in enumerate(t.elts) if isinstance(x, ast.Starred)]
            if len(stars) == 1 and isinstance(v, (TTup, TLst)) and getattr(v, "extra", None) is None and len(v.items) >= len(t.elts) - 1:
                # a, *rest, z = (x0, ..., xn): the starred name takes the items in between, as a list
                k = stars[0]
                after = len(t.elts) - k - 1
                for tt, vv in zip(t.elts[:k], v.items[:k]):
                    self.assign(tt, vv, fr)
                self.assign(t.elts[k].value, TLst(list(v.items[k:len(v.items) - after])), fr)
                for tt, vv in zip(t.elts[k + 1:], v.items[len(v.items) - after:] if after else []):
                    self.assign(tt, vv, fr)
            elif isinstance(v, (TTup, TLst)) and len(v.items) == len(t.elts) and getattr(v, "extra", None) is None:
                for tt, vv in zip(t.elts, v.items):
                    self.assign(tt, vv, fr)
            else:
                e = T(labels(v))
                for tt in t.elts:
                    self.assign(tt, e, fr)
        elif isinstance(t, ast.Attribute):
            o = self.ev(t.value, fr)
            if isinstance(o, TObj):
                o.attrs[t.attr] = v
        elif isinstance(t, ast.Subscript):
            base = self.ev(t.value, fr)
            idx = self.ev(t.slice, fr) if not isinstance(t.slice, (ast.Slice, ast.Tuple)) else None
            if isinstance(base, TDct) and isinstance(idx, TC):
                base.d[idx.v] = v
            elif isinstance(base, TDct):
                lab_ = self.scoped_unknown(t, f"store under a key that is not known: `{ast.unparse(t)[:40]}`")
                for k_ in list(base.d):
                    base.d[k_] = T(labels(base.d[k_]) | labels(v) | {lab_})
                base.d.setdefault("?", T(labels(v) | {lab_}))
                base.open = True
            elif isinstance(base, TLst):
                if isinstance(idx, TC) and isinstance(idx.v, int) and 0 <= idx.v < len(base.items):
                    base.items[idx.v] = v
                else:
                    base.extra = join(base.extra, T(labels(v)))
            else:
                extra = labels(v) | labels_of_index(self, t.slice, fr)
                if isinstance(base, T):
                    # a store INTO an array: every name that refers to this array (the caller's variable when the array was passed to a
                    # helper, the tuple it was packed in, the loop variable that runs over that tuple) sees the new content
                    base.l = base.l | extra
                else:
                    nb = T(labels(base) | extra)
                    if isinstance(t.value, (ast.Name, ast.Attribute)):
                        self.assign(t.value, nb, fr)
        elif isinstance(t, ast.Starred):
            self.assign(t.value, v, fr)

    def stmt(self, s, fr):
        if isinstance(s, ast.Assign):
            v = add_labels(self.ev(s.value, fr), fr.ctl)
            for t in s.targets:
                self.assign(t, v, fr)
        elif isinstance(s, ast.AnnAssign):
            if s.value is not None:
                self.assign(s.target, add_labels(self.ev(s.value, fr), fr.ctl), fr)
        elif isinstance(s, ast.AugAssign):
            cur = self.ev(s.target, fr)
            v = self.ev(s.value, fr)
            self.assign(s.target, T(labels(cur) | labels(v) | fr.ctl), fr)
        elif isinstance(s, ast.Expr):
            self.ev(s.value, fr)
        elif isinstance(s, ast.Return):
            v = self.ev(s.value, fr) if s.value is not None else TC(None)
            v = add_labels(v, fr.ctl)
            fr.ret = join(fr.ret, v) if fr.ret is not None else v
            fr.returned = True
        elif isinstance(s, ast.If):
            c = self.ev(s.test, fr)
            tv = truth(c)
            if tv is not None:
                saved_ctl = fr.ctl
                fr.ctl = fr.ctl | labels(c)
                self.block(s.body if tv else s.orelse, fr)
                fr.ctl = saved_ctl
            else:
                saved_ctl = fr.ctl
                fr.ctl = fr.ctl | labels(c)
                e0 = copy_env(fr.env)
                r0 = fr.ret
                self.block(s.body, fr)
                e1, ret1, rd1 = fr.env, fr.ret, fr.returned
                sk1, fr.skip = fr.skip, None
                fr.env = e0
                fr.returned = False
                fr.ret = r0
                self.block(s.orelse, fr)
                e2, ret2, rd2 = fr.env, fr.ret, fr.returned
                sk2 = fr.skip
                fr.skip = sk1 if (sk1 and sk1 == sk2) else None
                fr.ctl = saved_ctl
                fr.ret = ret1 if ret2 is None else (ret2 if ret1 is None else (ret1 if ret1 is ret2 else join(ret1, ret2)))
                if rd1 and rd2:
                    fr.returned = True
                elif rd1:
                    fr.env, fr.returned = e2, False
                elif rd2:
                    fr.env, fr.returned = e1, False
                else:
                    fr.env, fr.returned = join_env(e1, e2), False
        elif isinstance(s, (ast.For, ast.While)):
            self.loop(s, fr)
        elif isinstance(s, (ast.Continue, ast.Break)):
            fr.skip = "continue" if isinstance(s, ast.Continue) else "break"
        elif isinstance(s, (ast.FunctionDef, ast.AsyncFunctionDef)):
            fr.env[s.name] = TClo(s, fr)
        elif isinstance(s, ast.Try):
            e0 = copy_env(fr.env)
            self.block(s.body, fr)
            for h in s.handlers:
                e_after = fr.env
                fr.env = join_env(e0, copy_env(e_after))
                sr = fr.returned
                fr.returned = False
                self.block(h.body, fr)
                hr = fr.returned
                fr.returned = sr and hr
                fr.env = e_after if hr else join_env(e_after, fr.env)
            if not fr.returned:
                self.block(s.orelse, fr)
            self.block(s.finalbody, fr)
        elif isinstance(s, ast.With):
            self.block(s.body, fr)
        elif isinstance(s, ast.Raise):
            fr.returned = True
        elif isinstance(s, ast.Delete):
            pass

    def loop(self, s, fr):
        if isinstance(s, ast.For):
            it = self.ev(s.iter, fr)
            seq = None
            if isinstance(it, TTup) or (isinstance(it, TLst) and it.extra is None):
                seq = list(it.items)
            if isinstance(it, TDct):
                seq = [TC(k) for k in it.d]
            if seq is not None and len(seq) <= 16:
                for v in seq:
                    if fr.returned:
                        break
                    self.assign(s.target, v, fr)
                    self.block(s.body, fr)
                    sk, fr.skip = fr.skip, None
                    if sk == "break":
                        break
                return
            ev_ = T(labels(it))
            for _ in range(3):
                before = copy_env(fr.env)
                self.assign(s.target, ev_, fr)
                self.generic += 1
                try:
                    self.block(s.body, fr)
                finally:
                    self.generic -= 1
                    fr.skip = None
                if fr.returned:
                    fr.returned = False
                    fr.env = join_env(before, fr.env)
                    break
                new = join_env(before, fr.env)
                same = sig(new) == sig(before)
                fr.env = new
                if same:
                    break
        else:
            for _ in range(3):
                before = copy_env(fr.env)
                c = self.ev(s.test, fr)
                if truth(c) is False:
                    break
                self.generic += 1
                try:
                    self.block(s.body, fr)
                finally:
                    self.generic -= 1
                    fr.skip = None
                if fr.returned:
                    fr.returned = False
                    fr.env = join_env(before, fr.env)
                    break
                new = join_env(before, fr.env)
                same = sig(new) == sig(before)
                fr.env = new
                if same:
                    break

    # -------------------------------------------------------------- expressions
    def ev(self, e, fr):
        if isinstance(e, ast.Constant):
            return TC(e.value)
        if isinstance(e, ast.Name):
            if e.id in fr.env:
                return fr.env[e.id]
            r = self.prog.lookup(fr.mod, e.id)
            w = self.wrap(r)
            if w is not None:
                return w
            return TExt(e.id)
        if isinstance(e, ast.Attribute):
            o = self.ev(e.value, fr)
            return self.attr(o, e.attr, fr)
        if isinstance(e, ast.Subscript):
            base = self.ev(e.value, fr)
            if isinstance(e.slice, ast.Slice):
                return base if isinstance(base, (TLst, TTup)) else T(labels(base))
            if isinstance(e.slice, ast.Tuple):
                return T(labels(base))
            idx = self.ev(e.slice, fr)
            if isinstance(base, TDct):
                if isinstance(idx, TC):
                    if idx.v in base.d:
                        return base.d[idx.v]
                    if base.src:
                        return T({f"{base.src}:{idx.v}"})
                return T(labels(base))
            if isinstance(base, (TTup, TLst)):
                if isinstance(idx, TC) and isinstance(idx.v, int):
                    try:
                        return base.items[idx.v]
                    except IndexError:
                        pass
                return T(labels(base))
            return T(labels(base))
        if isinstance(e, (ast.Tuple,)):
            return TTup([self.ev(x, fr) for x in e.elts])
        if isinstance(e, ast.List):
            return TLst([self.ev(x, fr) for x in e.elts])
        if isinstance(e, ast.Dict):
            d = {}
            open_ = False
            for k, v in zip(e.keys, e.values):
                kk = self.ev(k, fr) if k is not None else None
                if k is None:
                    sub = self.ev(v, fr)
                    if isinstance(sub, TDct):
                        d.update(sub.d)
                        open_ = open_ or getattr(sub, "open", False)
                    else:
                        d["?"] = join(d.get("?"), T(labels(sub)))
                        open_ = True
                    continue
                if not isinstance(kk, TC):
                    open_ = True
                d[kk.v if isinstance(kk, TC) else "?"] = self.ev(v, fr)
            r_ = TDct(d)
            r_.open = open_
            return r_
        if isinstance(e, ast.BinOp):
            a, b = self.ev(e.left, fr), self.ev(e.right, fr)
            if isinstance(a, TC) and isinstance(b, TC) and isinstance(a.v, (int, float)) and isinstance(b.v, (int, float)):
                try:
                    import operator as o
                    f = {ast.Add: o.add, ast.Sub: o.sub, ast.Mult: o.mul, ast.Div: o.truediv, ast.FloorDiv: o.floordiv, ast.Mod: o.mod, ast.Pow: o.pow}.get(type(e.op))
                    if f:
                        return TC(f(a.v, b.v), a.l | b.l)
                except Exception:
                    pass
            if isinstance(e.op, ast.Add) and isinstance(a, TLst) and isinstance(b, TLst):
                return TLst(a.items + b.items, join(a.extra, b.extra))
            return T(labels(a) | labels(b))
        if isinstance(e, ast.UnaryOp):
            v = self.ev(e.operand, fr)
            if isinstance(e.op, ast.Not):
                t = truth(v)
                return TC(not t, noval(labels(v))) if t is not None else T(noval(labels(v)))
            if isinstance(v, TC) and isinstance(v.v, (int, float)) and isinstance(e.op, ast.USub):
                return TC(-v.v, v.l)
            if isinstance(v, TC) and isinstance(v.v, (int, float)) and isinstance(e.op, ast.UAdd):
                return v
            return T(labels(v))
        if isinstance(e, ast.BoolOp):
            vals = [self.ev(v, fr) for v in e.values]
            if isinstance(e.op, ast.Or):
                # `<container> or {}` / `or []`: the container itself unless it is empty - its entries keep their provenance (this is about a
                # missing dictionary, not about a falsy setting inside it)
                if len(vals) == 2 and isinstance(vals[0], (TDct, TLst, TTup)) and isinstance(e.values[1], (ast.Dict, ast.List, ast.Tuple)) and not getattr(e.values[1], "keys", getattr(e.values[1], "elts", None)):
                    return vals[0]
                # `setting or fallback`: a falsy setting (0, 0.0, False, "") is replaced - recorded as 'alt:<label of the setting>'
                alts = frozenset("alt:" + l for v in vals[:-1] for l in labels(v) if l.startswith(("hc:", "sc:")))
                for v in vals:
                    t = truth(v)
                    if t is True:
                        return add_labels(v, alts)
                    if t is None:
                        break
                else:
                    return add_labels(vals[-1], alts)
                r = alts
                for v in vals:
                    r |= labels(v)
                return T(noval(r))
            else:
                for v in vals:
                    t = truth(v)
                    if t is False:
                        return v
                    if t is None:
                        break
                else:
                    return vals[-1]
            r = EMPTY
            for v in vals:
                r |= labels(v)
            return T(noval(r))
        if isinstance(e, ast.Compare):
            l = self.ev(e.left, fr)
            r = self.ev(e.comparators[0], fr)
            op = e.ops[0]
            if len(e.ops) == 1:
                if isinstance(l, TC) and isinstance(r, TC):
                    try:
                        res = {ast.Eq: lambda: l.v == r.v, ast.NotEq: lambda: l.v != r.v, ast.Is: lambda: l.v is r.v,
                               ast.IsNot: lambda: l.v is not r.v, ast.Lt: lambda: l.v < r.v, ast.Gt: lambda: l.v > r.v,
                               ast.LtE: lambda: l.v <= r.v, ast.GtE: lambda: l.v >= r.v}.get(type(op))
                        if res:
                            return TC(res(), l.l | r.l)
                    except Exception:
                        pass
                if isinstance(op, (ast.Is, ast.IsNot)) and isinstance(r, TC) and r.v is None and not isinstance(l, TC):
                    return TC(isinstance(op, ast.IsNot), labels(l) & EMPTY)
                if isinstance(op, (ast.Is, ast.IsNot, ast.Eq, ast.NotEq)) and isinstance(r, TC) and isinstance(r.v, (bool, str)) and isinstance(l, (TLst, TTup, TDct, TObj)):
                    return TC(isinstance(op, (ast.IsNot, ast.NotEq)))
            rr = labels(l)
            for c in e.comparators:
                rr |= labels(self.ev(c, fr))
            return T(noval(rr))
        if isinstance(e, ast.Call):
            return self.call(e, fr)
        if isinstance(e, ast.IfExp):
            c = self.ev(e.test, fr)
            t = truth(c)
            if t is True:
                return self.ev(e.body, fr)
            if t is False:
                return self.ev(e.orelse, fr)
            r_ = add_labels(join(self.ev(e.body, fr), self.ev(e.orelse, fr)), labels(c))
            if ast.dump(e.test) == ast.dump(e.body):
                # `x if x else fallback`: the same replacement of a falsy setting
                r_ = add_labels(r_, frozenset("alt:" + l for l in labels(c) if l.startswith(("hc:", "sc:"))))
            return r_
        if isinstance(e, (ast.ListComp, ast.GeneratorExp, ast.SetComp)) and len(e.generators) == 1:
            it0 = self.ev(e.generators[0].iter, fr)
            seq0 = None
            if isinstance(it0, TTup) or (isinstance(it0, TLst) and it0.extra is None):
                seq0 = list(it0.items)
            if seq0 is not None and len(seq0) <= 16:
                saved = copy_env(fr.env)
                out = []
                for v in seq0:
                    self.assign(e.generators[0].target, v, fr)
                    # a filter that is not decided keeps the item (as the unrolled loop with an undecided `if` around its append does):
                    # the positions of the items stay aligned with those of the iterated sequence
                    cl, drop = EMPTY, False
                    for c in e.generators[0].ifs:
                        cv = self.ev(c, fr)
                        if truth(cv) is False:
                            drop = True
                            break
                        cl |= noval(labels(cv))
                    if drop:
                        continue
                    item = self.ev(e.elt, fr)
                    out.append(add_labels(item, cl) if cl else item)
                fr.env = saved
                return TLst(out) if not isinstance(e, ast.GeneratorExp) else TTup(out)
        if isinstance(e, (ast.ListComp, ast.GeneratorExp, ast.SetComp)):
            saved = copy_env(fr.env)
            l = EMPTY
            for g in e.generators:
                it = self.ev(g.iter, fr)
                self.assign(g.target, T(labels(it)), fr)
                for c in g.ifs:
                    l |= labels(self.ev(c, fr))
            v = self.ev(e.elt, fr)
            fr.env = saved
            return TLst([], add_labels(v if isinstance(v, (T, TC)) else T(labels(v)), l))
        if isinstance(e, ast.DictComp) and len(e.generators) == 1:
            return self.dictcomp(e, fr)
        if isinstance(e, ast.DictComp):
            r_ = TDct({"?": T({self.scoped_unknown(e, "a dictionary built by nested comprehensions")})})
            r_.open = True
            return r_
        if isinstance(e, ast.JoinedStr):
            return T()
        if isinstance(e, ast.Starred):
            return self.ev(e.value, fr)
        if isinstance(e, ast.Lambda):
            return TLam(e, fr)
        return T()

    def dictcomp(self, e, fr):
        g = e.generators[0]
        saved = copy_env(fr.env)
        try:
            # {k: v for k, v in SETTINGS.items() if k in NAMES}: the user's dictionary, whose keys are not known, filtered by a list of
            # names - one entry per name, IN THE ORDER OF THE USER'S DICTIONARY (not that of the list)
            if isinstance(g.iter, ast.Call) and isinstance(g.iter.func, ast.Attribute) and g.iter.func.attr == "items" and not g.iter.args \
                    and isinstance(g.target, ast.Tuple) and len(g.target.elts) == 2 and all(isinstance(x, ast.Name) for x in g.target.elts):
                base = self.ev(g.iter.func.value, fr)
                kname = g.target.elts[0].id
                if isinstance(base, TDct) and base.src and isinstance(e.key, ast.Name) and e.key.id == kname:
                    names = None
                    for c in g.ifs:
                        if isinstance(c, ast.Compare) and len(c.ops) == 1 and isinstance(c.ops[0], ast.In) and isinstance(c.left, ast.Name) and c.left.id == kname:
                            seq = self.ev(c.comparators[0], fr)
                            if isinstance(seq, (TTup, TLst)) and getattr(seq, "extra", None) is None and all(isinstance(x, TC) and isinstance(x.v, str) for x in seq.items):
                                names = [x.v for x in seq.items]
                    if names is not None and len(g.ifs) == 1:
                        d = {}
                        for kk in names:
                            self.assign(g.target, TTup([TC(kk), base.d.get(kk, T({f"{base.src}:{kk}"}))]), fr)
                            d[kk] = self.ev(e.value, fr)
                        r_ = TDct(d)
                        r_.unordered = True
                        return r_
            it = self.ev(g.iter, fr)
            if isinstance(it, TDct) and not it.open:
                it = TLst([TC(k) for k in it.d])
            if isinstance(it, TTup) or (isinstance(it, TLst) and it.extra is None):
                d, open_ = {}, False
                for v in it.items:
                    self.assign(g.target, v, fr)
                    cl, drop = EMPTY, False
                    for c in g.ifs:
                        cv = self.ev(c, fr)
                        if truth(cv) is False:
                            drop = True
                            break
                        cl |= noval(labels(cv))
                    if drop:
                        continue
                    k = self.ev(e.key, fr)
                    val = self.ev(e.value, fr)
                    if isinstance(k, TC):
                        d[k.v] = add_labels(val, cl) if cl else val
                    else:
                        d["?"] = join(d.get("?"), T(labels(val) | cl))
                        open_ = True
                if open_:
                    lab_ = self.scoped_unknown(e, "a dictionary comprehension with keys that are not known")
                    d = {k_: T(labels(v_) | {lab_}) for k_, v_ in d.items()}
                r_ = TDct(d)
                r_.open = open_
                return r_
            lab_ = self.scoped_unknown(e, f"a dictionary built from `{ast.unparse(g.iter)[:40]}`, whose items are not known")
            self.assign(g.target, T(labels(it)), fr)
            r_ = TDct({"?": T(labels(self.ev(e.value, fr)) | {lab_})})
            r_.open = True
            return r_
        finally:
            fr.env = saved

    def wrap(self, r):
        if r is None:
            return None
        if isinstance(r, FuncInfo):
            return TFn(r)
        if isinstance(r, ClassInfo):
            return TCls(r)
        if isinstance(r, ModRef):
            return TMod(r.name)
        if isinstance(r, PExt):
            return TExt(r.name)
        if isinstance(r, tuple) and r[0] == "global":
            if isinstance(r[1], ast.Constant):
                return TC(r[1].value)
            if isinstance(r[1], (ast.Dict, ast.Tuple, ast.List, ast.Lambda, ast.UnaryOp)) and len(r) > 2 and getattr(self, "_gdepth", 0) < 4:
                self._gdepth = getattr(self, "_gdepth", 0) + 1
                try:
                    return self.ev(r[1], Frame(r[2], {}, r[2] + ".<module>"))
                finally:
                    self._gdepth -= 1
            return TExt("global")
        return None

    def attr(self, o, name, fr):
        if isinstance(o, TMod):
            r = self.prog.lookup(o.name, name)
            w = self.wrap(r)
            if w is None and (o.name + "." + name) in self.prog.mods:
                return TMod(o.name + "." + name)
            return w if w is not None else TExt(o.name + "." + name)
        if isinstance(o, TExt):
            return TExt(o.name + "." + name)
        if isinstance(o, TObj):
            if name in o.attrs:
                return o.attrs[name]
            if o.cls is not None:
                f = self.prog.find_method(o.cls, name)
                if f is not None:
                    if f.is_property:
                        return self._call(TFn(f, o), [], {}, None, fr)
                    return TFn(f, None if f.is_static else o)
                c, ca = self.prog.find_classattr(o.cls, name)
                if ca is not None:
                    return self.ev(ca, Frame(c.mod, {}, c.qual))
            return T()
        if isinstance(o, TCls):
            f = self.prog.find_method(o.ci, name)
            if f is not None:
                return TFn(f)
            return T()
        if isinstance(o, (TLst, TDct)):
            return ("method", o, name)
        if isinstance(o, tuple) and o and o[0] == "super":
            cls = o[1].cls
            if cls is not None:
                f = self.prog.find_method(cls, name, after=cls)
                if f is not None:
                    return TFn(f, o[1].env.get("self"))
            return T()
        if name == "shape" or name == "ndim":
            return T()
        return ("valmethod", o, name)

    def call(self, e, fr):
        f = self.ev(e.func, fr)
        args = []
        for a in e.args:
            v = self.ev(a, fr)
            if isinstance(a, ast.Starred) and isinstance(v, (TTup, TLst)) and getattr(v, "extra", None) is None:
                if getattr(v, "shuffled", False):
                    # the order of the items is the order of the user's dictionary: any of them may arrive at any of the positions
                    mix = T(labels(v) | frozenset({"mix:order"}))
                    args.extend([mix for _ in v.items])
                else:
                    args.extend(v.items)
            elif isinstance(a, ast.Starred):
                self.unknown.append((e, f"`*{ast.unparse(a.value)[:40]}`: the positional arguments handed over are not known"))
                args.append(v)
            else:
                args.append(v)
        kw = {}
        for k in e.keywords:
            v = self.ev(k.value, fr)
            if k.arg is None:
                if isinstance(v, TDct):
                    kw.update(v.d)
                    if v.src:
                        kw["**"] = v          # the settings dictionary spread into keywords: a parameter named k receives its entry k
                    if getattr(v, "open", False):
                        self.unknown.append((e, f"`**{ast.unparse(k.value)[:40]}`: a dictionary some of whose entries are not known"))
                else:
                    self.unknown.append((e, f"`**{ast.unparse(k.value)[:40]}`: the keywords handed over are not known"))
            else:
                kw[k.arg] = v
        return self._call(f, args, kw, e, fr)

    def _call(self, f, args, kw, node, fr):
        if isinstance(f, TFn):
            return self.inline(f, args, kw, node)
        if "**" in kw and not (isinstance(f, TCls) and self.prog.find_method(f.ci, "__init__") is not None):
            kw = {k_: v_ for k_, v_ in kw.items() if k_ != "**"}
        if isinstance(f, TClo) and self.depth < self.max_depth:
            # the captured variables are shared with the defining function (in-place effects on them are seen there)
            a_ = f.node.args
            env = dict(f.fr.env)
            names_ = [x.arg for x in a_.posonlyargs + a_.args]
            for p_, d_ in zip(names_[len(names_) - len(a_.defaults):], a_.defaults):
                env[p_] = self.ev(d_, f.fr)
            for x_, d_ in zip(a_.kwonlyargs, a_.kw_defaults):
                if d_ is not None:
                    env[x_.arg] = self.ev(d_, f.fr)
            for p_, v_ in zip(names_, args):
                env[p_] = v_
            if a_.vararg:
                env[a_.vararg.arg] = TTup(list(args[len(names_):]))
            extra_ = {}
            for k_, v_ in kw.items():
                if k_ in names_ or k_ in [x.arg for x in a_.kwonlyargs]:
                    env[k_] = v_
                else:
                    extra_[k_] = v_
            if a_.kwarg:
                env[a_.kwarg.arg] = TDct(extra_)
            fr2 = Frame(f.fr.mod, env, f.fr.qual, f.fr.cls)
            fr2.ctl = f.fr.ctl
            self.depth += 1
            try:
                self.block(f.node.body, fr2)
            finally:
                self.depth -= 1
            return fr2.ret if fr2.ret is not None else TC(None)
        if isinstance(f, TLam):
            env = copy_env(f.fr.env)
            for p_, v_ in zip([a.arg for a in f.node.args.args], args):
                env[p_] = v_
            for k_, v_ in kw.items():
                env[k_] = v_
            fr2 = Frame(f.fr.mod, env, f.fr.qual, f.fr.cls)
            return self.ev(f.node.body, fr2)
        if isinstance(f, (T, TC)) and not isinstance(f, TC):
            # an unknown callable value: its result depends on the callee and on every argument
            r = labels(f)
            for a_ in list(args) + list(kw.values()):
                r |= labels(a_)
            return T(r)
        if isinstance(f, TCls):
            o = TObj({}, f.ci)
            init = self.prog.find_method(f.ci, "__init__")
            self.ctor_log.append((f.ci.qual, {k_: v_ for k_, v_ in kw.items() if k_ != "**"}, node))
            if init is None:
                for k, v in kw.items():
                    o.attrs[k] = v
            else:
                self.inline(TFn(init, o), args, kw, node)
            return o
        if isinstance(f, tuple):
            kind, o, name = f
            if kind == "method":
                if isinstance(o, TLst):
                    if name == "append":
                        if o.extra is None and not self.generic and len(o.items) < 64:
                            o.items.append(args[0])
                            return TC(None)
                        o.extra = join(o.extra, args[0] if isinstance(args[0], (T, TC)) else T(labels(args[0])))
                        if isinstance(o.extra, TC):
                            o.extra = T(o.extra.l)
                        return TC(None)
                    if name == "copy":
                        return TLst(list(o.items), o.extra)
                    if name in ("extend", "insert", "remove", "pop", "sort", "reverse", "clear"):
                        # the positions in the list are no longer known
                        if name == "extend" and args and isinstance(args[0], (TLst, TTup)) and getattr(args[0], "extra", None) is None and o.extra is None and not self.generic:
                            o.items.extend(args[0].items)
                            return TC(None)
                        allv = labels(o) | {self.scoped_unknown(node, f"`.{name}()` on a list whose positions matter")}
                        for a_ in args:
                            allv = allv | labels(a_)
                        o.extra = T(allv)
                        return T(allv)
                    return T(labels(o))
                if isinstance(o, TDct):
                    if name in ("get", "pop", "setdefault") and args and isinstance(args[0], TC):
                        if args[0].v in o.d:
                            r_ = o.d[args[0].v]
                            if name == "pop" and not self.generic:
                                del o.d[args[0].v]          # a later re-insertion goes to the end: the order of .values() changes
                            return r_
                        if o.src:
                            return T({f"{o.src}:{args[0].v}"})
                        if name == "setdefault" and len(args) > 1:
                            o.d[args[0].v] = args[1]
                        return args[1] if len(args) > 1 else TC(None)
                    if name == "update":
                        pairs = None
                        if not args:
                            pairs = []
                        elif isinstance(args[0], TDct) and not getattr(args[0], "open", False):
                            pairs = list(args[0].d.items())
                        elif isinstance(args[0], (TLst, TTup)) and getattr(args[0], "extra", None) is None \
                                and all(isinstance(x, TTup) and len(x.items) == 2 and isinstance(x.items[0], TC) for x in args[0].items):
                            pairs = [(x.items[0].v, x.items[1]) for x in args[0].items]
                        if pairs is not None:
                            for k_, v_ in pairs + list(kw.items()):
                                o.d[k_] = v_
                            return TC(None)
                    if name in ("update", "clear", "popitem", "pop", "setdefault", "__setitem__", "__delitem__"):
                        # an effect on the dictionary that is not followed: every entry may have been replaced
                        allv = labels(o) | {self.scoped_unknown(node, f"`.{name}(...)` on a dictionary with arguments that are not known")}
                        for a_ in list(args) + list(kw.values()):
                            allv = allv | labels(a_)
                        for k_ in list(o.d):
                            o.d[k_] = T(labels(o.d[k_]) | allv)
                        o.open = True
                        return T(allv)
                    if name in ("values", "items", "keys") and (getattr(o, "open", False) or (getattr(o, "unordered", False) and name != "values")):
                        self.unknown.append((node, f"`.{name}()` of a dictionary whose entries / order are not known"))
                    if name == "values":
                        r_ = TLst(list(o.d.values()))
                        r_.shuffled = getattr(o, "unordered", False) and not getattr(o, "open", False)
                        return r_
                    if name == "items":
                        return TLst([TTup([TC(k), v]) for k, v in o.d.items()])
                    if name == "keys":
                        return TLst([TC(k) for k in o.d])
                    return T(labels(o))
            if kind == "valmethod":
                r = labels(o)
                for a in args:
                    r |= labels(a)
                for a in kw.values():
                    r |= labels(a)
                return T(noval(r) if name in PREDICATE_METH else r)
        if isinstance(f, TExt):
            n = f.name
            if n == "super":
                return ("super", fr)
            if n == "numpy.copyto" and len(node.args) >= 2 and isinstance(node.args[0], ast.Name):
                # in-place: dst <- src where mask
                extra = labels(args[1]) | labels(kw.get("where"))
                cur = fr.env.get(node.args[0].id)
                fr.env[node.args[0].id] = add_labels(cur if isinstance(cur, (T, TC)) else T(labels(cur)), extra)
                return TC(None)
            if n == "isinstance" and len(args) == 2:
                v = args[0]
                tn = args[1].name if isinstance(args[1], TExt) else None
                if isinstance(v, TC):
                    py = {"int": int, "str": str, "float": float, "list": list, "bool": bool}.get(tn)
                    if py is not None:
                        return TC(isinstance(v.v, py) and not (py is int and isinstance(v.v, bool)))
                if isinstance(v, TLst):
                    return TC(tn == "list")
                return T()
            if n == "dict":
                # dict(a=.., b=..) / dict(other, a=..) / dict(zip(("a", "b"), values)) with literal keys: a dictionary value
                d_ = {}
                ok_ = True
                if args:
                    a0 = args[0]
                    if isinstance(a0, TDct):
                        d_.update(a0.d)
                    elif isinstance(a0, (TLst, TTup)) and getattr(a0, "extra", None) is None and all(isinstance(x, TTup) and len(x.items) == 2 and isinstance(x.items[0], TC) for x in a0.items):
                        d_.update({x.items[0].v: x.items[1] for x in a0.items})
                    else:
                        ok_ = False
                if ok_:
                    d_.update(kw)
                    return TDct(d_)
            if n == "zip" and args and all(isinstance(a, (TLst, TTup)) and getattr(a, "extra", None) is None for a in args) and len({len(a.items) for a in args}) == 1:
                return TLst([TTup([a.items[i] for a in args]) for i in range(len(args[0].items))])
            if n == "enumerate" and len(args) == 1 and isinstance(args[0], (TLst, TTup)) and getattr(args[0], "extra", None) is None:
                return TLst([TTup([TC(i), x]) for i, x in enumerate(args[0].items)])
            if n in ("len", "range", "tqdm.trange", "print", "int", "str", "type", "enumerate", "zip", "tqdm.tqdm", "list", "tuple", "float", "abs", "max", "min", "sum", "set", "sorted") or True:
                if n in ("tqdm.tqdm", "list", "tuple") and len(args) == 1 and isinstance(args[0], (TLst, TTup)):
                    return args[0]
                if n in ("list", "tuple", "sorted", "iter") and len(args) == 1 and isinstance(args[0], TDct):
                    if getattr(args[0], "open", False) or getattr(args[0], "unordered", False) or n == "sorted":
                        self.unknown.append((node, f"`{n}()` of a dictionary whose keys / order are not known"))
                    return TLst([TC(k) for k in args[0].d])
                if n.startswith("logging") or n.endswith((".debug", ".info", ".warning", ".error")):
                    return TC(None)
                if n == "numpy.where" and len(args) == 3:
                    return T(noval(labels(args[0])) | labels(args[1]) | labels(args[2]))
                r = EMPTY
                for a in args:
                    r |= labels(a)
                for a in kw.values():
                    r |= labels(a)
                if n in ("min", "max", "numpy.clip", "numpy.minimum", "numpy.maximum", "numpy.fmin", "numpy.fmax") and len(args) + len(kw) >= 2:
                    # a setting that is CLAMPED on the way is no longer the user's setting for every value: recorded as 'clamp:<label>'
                    r |= frozenset("clamp:" + l for l in r if l.startswith(("hc:", "sc:")))
                return T(noval(r) if n in PREDICATES else r)
        r = EMPTY
        for a in args:
            r |= labels(a)
        return T(r)

    def inline(self, f, args, kw, node):
        if self.depth >= self.max_depth:
            r = EMPTY
            for a in args:
                r |= labels(a)
            return T(r)
        fi = f.fi
        a = fi.node.args
        params = [x.arg for x in a.posonlyargs + a.args]
        kwonly = [x.arg for x in a.kwonlyargs]
        env = {}
        fr0 = Frame(fi.mod, {}, fi.qual, fi.cls)
        dvals = {}
        for p, d in zip(params[len(params) - len(a.defaults):], a.defaults):
            dvals[p] = self.ev(d, fr0)
        for p, d in zip(kwonly, a.kw_defaults):
            if d is not None:
                dvals[p] = self.ev(d, fr0)
        allargs = list(args)
        if f.bound is not None:
            allargs = [f.bound] + allargs
        for p, v in zip(params, allargs):
            env[p] = v
        if a.vararg:
            env[a.vararg.arg] = TTup(allargs[len(params):])
        extra = {}
        spread = kw.pop("**", None) if isinstance(kw.get("**"), TDct) else None
        for k, v in kw.items():
            if k in params or k in kwonly:
                env[k] = v
            else:
                extra[k] = v
        if a.kwarg:
            env[a.kwarg.arg] = TDct(extra, spread.src if spread is not None else None)
        for p in params + kwonly:
            if p not in env:
                if spread is not None and p not in dvals:
                    env[p] = T({f"{spread.src}:{p}"})          # **settings: the entry of that name
                else:
                    env[p] = dvals.get(p, T())
        self.call_log.append((fi.qual, dict(env), node))
        fr = Frame(fi.mod, env, fi.qual, fi.cls)
        self.depth += 1
        try:
            self.block(fi.node.body, fr)
        finally:
            self.depth -= 1
        ret = fr.ret if fr.ret is not None else TC(None)
        tag = self.ret_tags.get(fi.qual)
        if tag and isinstance(ret, TTup):
            ret = TTup([add_labels(x, frozenset({f"val:{tag}:{k}"})) for k, x in enumerate(ret.items)])
        return ret


def labels_of_index(interp, sl, fr):
    if isinstance(sl, ast.Slice):
        return EMPTY
    if isinstance(sl, ast.Tuple):
        r = EMPTY
        for e in sl.elts:
            r |= labels_of_index(interp, e, fr)
        return r
    v = interp.ev(sl, fr)
    # boolean-mask stores (X[mask] = nan) make X depend on the mask (not on the numbers of the table the mask was computed from)
    return noval(labels(v))


def truth(c):
    if isinstance(c, TC):
        try:
            return bool(c.v)
        except Exception:
            return None
    if isinstance(c, TLst) and c.extra is None:
        return len(c.items) > 0
    if isinstance(c, (TObj, TFn, TCls)):
        return True
    return None


def copy_env(env):
    out = {}
    for k, v in env.items():
        out[k] = TLst(list(v.items), v.extra) if isinstance(v, TLst) else v
    return out


def join_env(a, b):
    out = {}
    for k in set(a) | set(b):
        out[k] = join(a[k], b[k]) if (k in a and k in b) else a.get(k, b.get(k))
    return out


def sig(env):
    return repr(sorted((k, repr(v)) for k, v in env.items()))
