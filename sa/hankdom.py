"""Block-Hankel / Toeplitz structure of the SSI data matrices (built on sa/seqdom.py).

Values of the domain describe *how a matrix is assembled from windows of the two records*:

    Rec(role)                      the record Y ('all') or Yref ('ref'): channels x samples
    Win(role, lo, hi, w)           w * X[:, lo:hi]                       (lo, hi, w polynomials; a block of rows)
    Stk(v, n, Win(v))              vstack of the windows for block index v = 0 .. n-1
    Cat(parts)                     vstack of several stacks
    Gram(A, B)                     A @ B.T  for two stacks: block (i, c) = A_i . B_c^T
    Corr(wa, wb, w)                w * (Win_a @ Win_b.T) for two single windows (one correlation matrix)
    BlockRow / BlockMat            hstack / vstack of per-index blocks: block (i, c) = Corr(i, c)
    RFac(X, transposed)            the R factor (mode='r') of qr(X.T), optionally transposed
    Cut(M, rlo, rhi, clo, chi)     M[rlo:rhi, clo:chi]

Polynomials are over the symbols br (block rows parameter), Ndat (record length), nY / nR (channel counts) and the bound block
indices.  Everything else is ("opq", why): the checker reports such a result as undecided."""
import ast

from . import astq, seqdom
from .poly import P, P_div
from .seqdom import ObjVal, Val, I, K, E, Sq, Tup, psubs, normalise, tsubs


class Rec(ObjVal):
    def __init__(self, role, transposed=False, w=None):
        self.role, self.transposed, self.w = role, transposed, w        # w: a scalar weight the whole record was multiplied with (None = 1)

    def show(self):
        return (f"{self.w!r}*" if self.w is not None else "") + f"Rec<{self.role}>" + (".T" if self.transposed else "")

    __repr__ = show


class RefIdx(ObjVal):
    """the list of reference channel numbers handed in by the caller (rows selected with it are the reference records)"""

    def show(self):
        return "ref_ind"

    def __repr__(self):
        return "RefIdx"


class Win(ObjVal):
    def __init__(self, role, lo, hi, w=None, transposed=False):
        self.role, self.lo, self.hi, self.w, self.transposed = role, lo, hi, (P.c(1) if w is None else w), transposed

    def subs(self, name, val):
        return Win(self.role, psubs(self.lo, name, val), psubs(self.hi, name, val), psubs(self.w, name, val), self.transposed)

    def show(self):
        return f"{self.w!r}*{self.role}[:, {self.lo!r}:{self.hi!r}]" + (".T" if self.transposed else "")

    __repr__ = show


class Stk(ObjVal):
    """vstack of win(v) for v = 0 .. n-1"""

    def __init__(self, v, n, win, transposed=False):
        self.v, self.n, self.win, self.transposed = v, n, win, transposed

    def subs(self, name, val):
        return Stk(self.v, psubs(self.n, name, val), self.win.subs(name, val) if name != self.v else self.win, self.transposed)

    def at(self, idx):
        return self.win.subs(self.v, idx)

    def show(self):
        return f"Stk[{self.v} < {self.n!r}: {self.win.show()}]" + (".T" if self.transposed else "")

    __repr__ = show


class Cat(ObjVal):
    def __init__(self, parts, transposed=False):
        self.parts, self.transposed = list(parts), transposed

    def subs(self, name, val):
        return Cat([p.subs(name, val) for p in self.parts], self.transposed)

    def show(self):
        return "Cat[" + " ; ".join(p.show() for p in self.parts) + "]" + (".T" if self.transposed else "")

    __repr__ = show


class Gram(ObjVal):
    def __init__(self, a, b):
        self.a, self.b = a, b

    def subs(self, name, val):
        return Gram(self.a.subs(name, val), self.b.subs(name, val))

    def show(self):
        return f"Gram({self.a.show()} , {self.b.show()})"

    __repr__ = show


class Corr(ObjVal):
    def __init__(self, wa, wb, w=None):
        self.wa, self.wb, self.w = wa, wb, (P.c(1) if w is None else w)

    def subs(self, name, val):
        return Corr(self.wa.subs(name, val), self.wb.subs(name, val), psubs(self.w, name, val))

    def show(self):
        return f"{self.w!r}*({self.wa.show()} @ {self.wb.show()}.T)"

    __repr__ = show


class BlockRow(ObjVal):
    def __init__(self, v, n, blk):
        self.v, self.n, self.blk = v, n, blk

    def subs(self, name, val):
        return BlockRow(self.v, psubs(self.n, name, val), self.blk.subs(name, val) if name != self.v else self.blk)

    def show(self):
        return f"Row[{self.v} < {self.n!r}: {self.blk.show()}]"

    __repr__ = show


class BlockMat(ObjVal):
    def __init__(self, v, n, row):
        self.v, self.n, self.row = v, n, row

    def subs(self, name, val):
        return BlockMat(self.v, psubs(self.n, name, val), self.row.subs(name, val) if name != self.v else self.row)

    def show(self):
        return f"Mat[{self.v} < {self.n!r}: {self.row.show()}]"

    __repr__ = show


class Blk4(ObjVal):
    """a 4-d array of lag blocks gathered with an index grid: entry [i, j] (i < ni, j < nj) is the block blk(i, j); `order` lists what
    the four array axes carry: 'i', 'j' (block indices), 'r', 'c' (rows / columns inside a block)"""

    def __init__(self, vi, ni, vj, nj, blk, order=("i", "j", "r", "c")):
        self.vi, self.ni, self.vj, self.nj, self.blk, self.order = vi, ni, vj, nj, blk, tuple(order)

    def subs(self, name, val):
        return Blk4(self.vi, psubs(self.ni, name, val), self.vj, psubs(self.nj, name, val), self.blk.subs(name, val) if name not in (self.vi, self.vj) else self.blk, self.order)

    def show(self):
        return f"Blk4[{self.vi} < {self.ni!r}, {self.vj} < {self.nj!r}: {self.blk.show()}]@{''.join(self.order)}"

    __repr__ = show


class Slide(ObjVal):
    """np.lib.stride_tricks.sliding_window_view(X, width, axis=1): element [c, s, t] = X[c, s + t].  `lo`/`n` restrict the window
    starts to lo .. lo+n-1 (n None: all of them), `order` lists what the three axes carry ('c' channel, 'k' window start, 't' sample),
    `rev` tells that the window starts run backwards (lo+n-1 .. lo)"""

    def __init__(self, role, width, lo=None, n=None, order=("c", "k", "t"), rev=False):
        self.role, self.width, self.lo, self.n, self.order, self.rev = role, width, (P.c(0) if lo is None else lo), n, tuple(order), rev

    def show(self):
        return f"Slide<{self.role}>[width {self.width!r}, starts {self.lo!r}+{self.n!r}{' reversed' if self.rev else ''}]@{''.join(self.order)}"

    __repr__ = show


class RFac(ObjVal):
    def __init__(self, arg, mode, transposed=False):
        self.arg, self.mode, self.transposed = arg, mode, transposed

    def show(self):
        return f"R(qr({self.arg.show()}, mode={self.mode!r}))" + (".T" if self.transposed else "")

    __repr__ = show


class Cut(ObjVal):
    def __init__(self, m, rlo, rhi, clo, chi):
        self.m, self.rlo, self.rhi, self.clo, self.chi = m, rlo, rhi, clo, chi

    def show(self):
        f = lambda x: "" if x is None else repr(x)
        return f"{self.m.show()}[{f(self.rlo)}:{f(self.rhi)}, {f(self.clo)}:{f(self.chi)}]"

    __repr__ = show


class Opq(ObjVal):
    def __init__(self, why):
        self.why = why

    def show(self):
        return f"<?{self.why}>"

    __repr__ = show


SYM = {"all": ("nY", "Ndat"), "ref": ("nR", "Ndat"), "ref-asc": ("nR", "Ndat")}


class RefMask(ObjVal):
    """a boolean mask over the channels that is True at the listed reference channels: selecting with it gives those channels in
    ASCENDING channel order, each once - the listed order (and repetitions) of the index list are gone"""

    def show(self):
        return "mask(ref_ind)"

    def __repr__(self):
        return "RefMask"


class Interp(seqdom.Interp):
    """roles: {param: ('rec', 'all'|'ref')}"""

    def run(self, fi, args=None):
        args = dict(args or {})
        for p_, r in self.roles.items():
            if r[0] == "rec" and p_ not in args:
                args[p_] = Rec(r[1])
            if r[0] == "refidx" and p_ not in args:
                args[p_] = RefIdx()
        self.sh.setdefault("errors", [])
        return super().run(fi, args)

    @property
    def errors(self):
        """definite structural defects met while interpreting: (node, text)"""
        return self.sh.setdefault("errors", [])

    def truth(self, test, env):
        # the list of reference channels is not empty (ref.size == 0 / len(ref) == 0 / not ref.size are false)
        if isinstance(test, ast.Compare) and len(test.ops) == 1 and isinstance(test.comparators[0], ast.Constant) and test.comparators[0].value == 0 \
                and isinstance(test.ops[0], (ast.Eq, ast.NotEq, ast.Gt)):
            l_ = test.left
            inner = l_.value if isinstance(l_, ast.Attribute) and l_.attr == "size" else (l_.args[0] if isinstance(l_, ast.Call) and astq.src(l_.func) == "len" and l_.args else None)
            if inner is not None and isinstance(self.ev(inner, env), RefIdx):
                return not isinstance(test.ops[0], ast.Eq)
        # an index list holds integers: `idx.dtype == bool` is false, `np.issubdtype(idx.dtype, np.integer)` is true
        if isinstance(test, ast.Compare) and len(test.ops) == 1 and isinstance(test.ops[0], (ast.Eq, ast.Is)) and isinstance(test.left, ast.Attribute) and test.left.attr == "dtype" \
                and isinstance(self.ev(test.left.value, env), RefIdx) and astq.src(test.comparators[0]) in ("bool", "np.bool_", "numpy.bool_"):
            return False
        if isinstance(test, ast.Call) and astq.src(test.func).split(".")[-1] == "issubdtype" and len(test.args) == 2 and isinstance(test.args[0], ast.Attribute) \
                and test.args[0].attr == "dtype" and isinstance(self.ev(test.args[0].value, env), RefIdx):
            return astq.src(test.args[1]).split(".")[-1] in ("integer", "signedinteger", "number", "int64", "intp")
        if isinstance(test, ast.Call) and astq.src(test.func).split(".")[-1] in ("array_equal", "array_equiv") and len(test.args) == 2 \
                and any(isinstance(self.ev(a_, env), RefIdx) for a_ in test.args):
            return False        # a general list of channels, not a ramp: the path of the gathered selection (a shortcut for ramps is R-shortcut's business)
        # two records: `A is B` is decided by what they are; `A.shape == B.shape` holds in one world (every channel a reference channel,
        # listed in another order - the records still differ) and not in the other: the caller analyses both (self.same_shape)
        if isinstance(test, ast.Compare) and len(test.ops) == 1 and isinstance(test.ops[0], (ast.Is, ast.IsNot, ast.Eq, ast.NotEq)):
            l_, r_ = test.left, test.comparators[0]
            if isinstance(test.ops[0], (ast.Is, ast.IsNot)):
                a_, b_ = self.ev(l_, env), self.ev(r_, env)
                if isinstance(a_, Rec) and isinstance(b_, Rec):
                    same = a_.role == b_.role and a_.transposed == b_.transposed and a_.w == b_.w
                    return same if isinstance(test.ops[0], ast.Is) else not same
            else:
                def rec_of_shape(e_):
                    while isinstance(e_, ast.Subscript):
                        e_ = e_.value
                    if isinstance(e_, ast.Attribute) and e_.attr == "shape":
                        v_ = self.ev(e_.value, env)
                        return v_ if isinstance(v_, Rec) else None
                    return None
                a_, b_ = rec_of_shape(l_), rec_of_shape(r_)
                if a_ is not None and b_ is not None and a_.role != b_.role and not (isinstance(l_, ast.Subscript) and astq.src(l_.slice) in ("1", "-1")):
                    self.sh.setdefault("shape_tests", []).append(test)          # (shared with the interpreters of the helpers called)
                    eq = bool(self.sh.get("same_shape", False))
                    return eq if isinstance(test.ops[0], ast.Eq) else not eq
        return super().truth(test, env)

    def attr_hook(self, base, name, node):
        if isinstance(base, RefIdx) and name == "ndim":
            return I(P.c(1))
        if isinstance(base, RefIdx) and name == "size":
            return I(P.s("nR"))
        if isinstance(base, Rec) and name == "ndim":
            return I(P.c(2))                # the records are (channels x samples) arrays
        if isinstance(base, Rec) and name == "shape":
            a, b = SYM[base.role]
            return Tup([I(P.s(b)), I(P.s(a))]) if base.transposed else Tup([I(P.s(a)), I(P.s(b))])
        if name == "T":
            if isinstance(base, Rec):
                return Rec(base.role, not base.transposed, base.w)
            if isinstance(base, Win):
                return Win(base.role, base.lo, base.hi, base.w, not base.transposed)
            if isinstance(base, Stk):
                return Stk(base.v, base.n, base.win, not base.transposed)
            if isinstance(base, Cat):
                return Cat(base.parts, not base.transposed)
            if isinstance(base, RFac):
                return RFac(base.arg, base.mode, not base.transposed)
            if isinstance(base, Cut):
                # (M[r0:r1, c0:c1]).T = M.T[c0:c1, r0:r1]
                mt = self.attr_hook(base.m, "T", node)
                if mt is not None and not isinstance(mt, Opq):
                    return Cut(mt, base.clo, base.chi, base.rlo, base.rhi)
            if isinstance(base, ObjVal):
                return Opq(f"transpose of {base.show()[:40]}")
        if name == "shape" and isinstance(base, Stk) and not base.transposed and isinstance(base.win, Win):
            return Tup([I(base.n * P.s(SYM[base.win.role][0])), I(base.win.hi - base.win.lo)])
        return None

    def grid_gather(self, base, node):
        """Ri[G] for a list / array of per-lag blocks Ri and a 2-d integer grid G (broadcast sum of two ramps): a 4-d array of blocks"""
        t = normalise(base.t)
        if not (t[0] == "for" and t[4][0] == "obj" and isinstance(t[4][1], Corr)):
            return None
        from . import lamdom
        expr = astq.expr_at(self.fi, node, node.slice)
        it = lamdom.Interp(self.prog, self.fi)
        for nm in {n.id for n in ast.walk(expr) if isinstance(n, ast.Name)}:
            if nm not in ("np", "numpy"):
                it.env[nm] = lamdom.scal(ast.Name(id=nm, ctx=ast.Load()))
        g = it.ev(expr)
        g = it.as_lam(g) if g is not None else None
        if g is None or len(g.dims) != 2 or any(d.var is None or d.parts or d.filt or d.extent is None for d in g.dims):
            return None
        env = dict(self.env)
        for d in g.dims:
            env[d.var] = I(P.s(d.var))
        lag = self.topoly(self.ev(g.body, env))
        exts = [self.topoly(self.ev(d.extent, self.env)) for d in g.dims]
        if lag is None or any(x is None for x in exts):
            return None
        blk = t[4][1]
        # the list index runs from t[2]: entry k of the list is the block of lag t[2] + k ... the term already carries the offset
        blk = blk.subs(t[1], lag)
        return Blk4(g.dims[0].var, exts[0], g.dims[1].var, exts[1], blk)

    def _step(self, x):
        """constant value of a slice step (given as a value or as a raw expression), None if not constant"""
        if x is None:
            return 1
        if isinstance(x, ast.AST):
            try:
                v = ast.literal_eval(x)
                return v if isinstance(v, int) else None
            except Exception:
                return None
        p = self.topoly(x)
        return int(p.const()) if p is not None and p.is_const() else None

    def assign(self, t, v, env, node):
        if isinstance(t, ast.Subscript) and isinstance(t.value, ast.Name) and isinstance(env.get(t.value.id), seqdom.Msk) and isinstance(v, K) and v.v is True:
            m_ = env[t.value.id]
            idx = self.ev_index(t.slice, env)
            if m_.dom is None and not m_.neg and len(idx) == 1 and isinstance(idx[0], RefIdx):
                env[t.value.id] = RefMask()
                return
        return super().assign(t, v, env, node)

    def index_hook(self, base, idx, node):
        if isinstance(base, Rec) and base.role == "all" and not base.transposed and idx and isinstance(idx[0], RefMask) \
                and all(isinstance(x, tuple) and x[0] == "slice" and x[1] is None and x[2] is None and x[3] is None for x in idx[1:]):
            return Rec("ref-asc")           # Y[mask, :]: the reference channels in ascending channel order
        if isinstance(base, Rec) and base.role == "all" and not base.transposed and idx and isinstance(idx[0], RefIdx) \
                and all(isinstance(x, tuple) and x[0] == "slice" and x[1] is None and x[2] is None and x[3] is None for x in idx[1:]):
            return Rec("ref")               # Y[ref_ind, :]: the reference records
        if isinstance(base, Sq) and len(idx) == 1 and isinstance(node, ast.Subscript) and not (isinstance(idx[0], tuple) and idx[0][0] == "slice") \
                and not (isinstance(idx[0], Val) and self.topoly(idx[0]) is not None):
            r = self.grid_gather(base, node)
            if r is not None:
                return r
        if isinstance(base, Slide) and len(idx) <= 3:
            full = list(idx) + [("slice", None, None, None)] * (3 - len(idx))
            out = base
            for pos_, x in enumerate(full):
                what = base.order[pos_]
                if not (isinstance(x, tuple) and x[0] == "slice"):
                    return Opq(f"index `{astq.src(node, 50)}` into a sliding-window view")
                if x[1] is None and x[2] is None and x[3] is None:
                    continue
                st = self._step(x[3])
                if what != "k" or st not in (1, -1):
                    return Opq(f"selection `{astq.src(node, 50)}` of a sliding-window view on its {what} axis")
                if st == -1:
                    if x[1] is None and x[2] is None:
                        out = Slide(out.role, out.width, out.lo, out.n, out.order, not out.rev)
                        continue
                    # [a:b:-1] takes the starts a, a-1, ..., b+1 (b omitted: down to the first one)
                    a_ = self.topoly(x[1]) if x[1] is not None else (out.n - 1 if out.n is not None else None)
                    b_ = self.topoly(x[2]) if x[2] is not None else P.c(-1)
                    if a_ is None or b_ is None or out.rev:
                        return Opq("reversed partial selection of window starts")
                    out = Slide(out.role, out.width, out.lo + b_ + 1, a_ - b_, out.order, True)
                    continue
                lo = self.topoly(x[1]) if x[1] is not None else P.c(0)
                hi = self.topoly(x[2]) if x[2] is not None else None
                if lo is None or (x[2] is not None and hi is None):
                    return Opq("window-start bounds not polynomial")
                n_ = (hi - lo) if hi is not None else (out.n - lo if out.n is not None else None)
                out = Slide(out.role, out.width, out.lo + lo, n_, out.order, out.rev)
            return out
        if isinstance(base, Stk) and len(idx) >= 1 and isinstance(idx[0], tuple) and idx[0][0] == "slice" and idx[0][3] is not None \
                and all(isinstance(x, tuple) and x[0] == "slice" and x[1] is None and x[2] is None and x[3] is None for x in idx[1:]):
            st = self._step(idx[0][3])
            if st == -1 and idx[0][1] is None and idx[0][2] is None and not base.transposed:
                # reversing the ROWS of a stack of blocks reverses the blocks AND the channels inside every block
                self.errors.append((node, f"`{astq.src(node, 50)}` reverses all rows of a block stack: the block order is reversed, but so are the channels inside every "
                                          f"block (row (k, c) <- (n-1-k, nch-1-c)): entries no longer pair channel a with reference b"))
                return Opq("row reversal of a block stack (channels reversed inside the blocks)")
        if isinstance(base, Rec) and not base.transposed and len(idx) == 2:
            r, c = idx
            if isinstance(r, tuple) and r[0] == "slice" and r[1] is None and r[2] is None and isinstance(c, tuple) and c[0] == "slice" and c[3] is None:
                lo = self.topoly(c[1]) if c[1] is not None else P.c(0)
                hi = self.topoly(c[2]) if c[2] is not None else P.s("Ndat")
                if lo is not None and hi is not None:
                    # negative constant bounds count from the end of the record
                    if lo.is_const() and lo.const() < 0:
                        lo = P.s("Ndat") + lo
                    if hi.is_const() and hi.const() < 0:
                        hi = P.s("Ndat") + hi
                    return Win(base.role, lo, hi, base.w)
            if isinstance(r, tuple) and r[0] == "slice" and r[1] is None and r[2] is None and isinstance(c, E) and isinstance(c.node, ast.Call) and astq.src(c.node.func) == "slice":
                a = [self.topoly(self.ev(x, self.env)) for x in c.node.args]
                if len(a) == 2 and all(x is not None for x in a):
                    return Win(base.role, a[0], a[1], base.w)
            return Opq(f"selection `{astq.src(node, 50)}` of a record")
        if isinstance(base, (RFac, BlockMat, Gram)) and len(idx) == 2 and all(isinstance(x, tuple) and x[0] == "slice" and x[3] is None for x in idx):
            b = [(self.topoly(x[1]) if x[1] is not None else None, self.topoly(x[2]) if x[2] is not None else None) for x in idx]
            if all((x[1] is None or y[0] is not None) and (x[2] is None or y[1] is not None) for x, y in zip(idx, b)):
                if all(v is None for pair in b for v in pair):
                    return base
                return Cut(base, b[0][0], b[0][1], b[1][0], b[1][1])
            return Opq(f"block `{astq.src(node, 50)}` with non-polynomial bounds")
        if isinstance(base, (Stk, Cat)) and len(idx) == 2:
            return Opq(f"columns `{astq.src(node, 50)}` of a window stack")
        return None

    def scale(self, x, w):
        if isinstance(x, Rec):
            return Rec(x.role, x.transposed, w if x.w is None else x.w * w)      # the record scaled once, ahead of the windows cut from it
        if isinstance(x, Win):
            return Win(x.role, x.lo, x.hi, x.w * w, x.transposed)
        if isinstance(x, Corr):
            return Corr(x.wa, x.wb, x.w * w)
        if isinstance(x, Stk):
            return Stk(x.v, x.n, self.scale(x.win, w), x.transposed)
        if isinstance(x, Gram):
            return Gram(self.scale(x.a, w), x.b)
        return Opq(f"scaled {x.show()[:40]}")

    def matmul(self, a, b, node):
        if isinstance(a, Win) and isinstance(b, Win) and not a.transposed and b.transposed:
            return Corr(Win(a.role, a.lo, a.hi), Win(b.role, b.lo, b.hi), a.w * b.w)
        if isinstance(a, (Stk, Cat)) and isinstance(b, (Stk, Cat)) and not a.transposed and b.transposed:
            bb = Stk(b.v, b.n, b.win) if isinstance(b, Stk) else Cat(b.parts)
            return Gram(a, bb)
        return Opq(f"product `{astq.src(node, 60)}` is not of the form A @ B.T for two window stacks")

    def binop_hook(self, op, a, b, node):
        if isinstance(a, ObjVal) and isinstance(b, ObjVal):
            if isinstance(op, ast.MatMult):
                return self.matmul(a, b, node)
            return Opq(f"`{astq.src(node, 50)}`")
        for x, y, left in ((a, b, True), (b, a, False)):
            if isinstance(x, ObjVal) and not isinstance(y, ObjVal):
                w = self.topoly(y)
                if w is None:
                    return Opq(f"`{astq.src(node, 50)}`: factor not polynomial")
                if isinstance(op, ast.Mult):
                    return self.scale(x, w)
                if isinstance(op, ast.Div) and left:
                    inv = P_div(P.c(1), w)
                    return self.scale(x, inv) if inv is not None else Opq("division by zero polynomial")
                return Opq(f"`{astq.src(node, 50)}`")
        return None

    def slide_rows(self, base, node):
        """the (block, channel, sample) window view written out block after block: a stack of windows"""
        if base.n is None:
            return Opq("window view with an unknown number of starts")
        if base.order == ("k", "c", "t"):
            v = self.fresh("w") if hasattr(self, "fresh") else "w0"
            start = (base.lo + base.n - 1 - P.s(v)) if base.rev else (base.lo + P.s(v))
            return Stk(v, base.n, Win(base.role, start, start + base.width))
        if base.order == ("c", "k", "t"):
            self.errors.append((node, f"`{astq.src(node, 50)}` puts the window view together channel after channel: rows are grouped by channel, not by block row"))
            return Opq("channel-major flattening of the window view")
        return Opq(f"window view with axes {''.join(base.order)} written out along its first axis")

    def _stack_of(self, a0, axis, node):
        """np.vstack / hstack of a tuple or of a (symbolic) list of blocks"""
        if isinstance(a0, Slide):
            return self.slide_rows(a0, node) if axis == 0 else Opq("window view stacked along the columns")
        if isinstance(a0, Tup):
            items = a0.items
        elif isinstance(a0, Sq):
            t = normalise(a0.t)
            if t[0] == "for" and t[4][0] == "obj":
                blk = t[4][1]
                if t[2] != P.c(0):
                    blk = blk.subs(t[1], P.s(t[1]) + t[2])
                n = t[3] - t[2]
                if isinstance(blk, Win) and axis == 0 and not blk.transposed:
                    return Stk(t[1], n, blk)
                if isinstance(blk, Corr) and axis == 1:
                    return BlockRow(t[1], n, blk)
                if isinstance(blk, BlockRow) and axis == 0:
                    return BlockMat(t[1], n, blk)
                return Opq(f"stack of {blk.show()[:40]} along axis {axis}")
            if t[0] == "obj":
                items = [t[1]]
            elif t[0] == "cat" and all(x[0] == "obj" for x in t[1]):
                items = [x[1] for x in t[1]]
            else:
                return Opq(f"stack `{astq.src(node, 50)}` of a list that is not a recognised sequence of blocks")
        else:
            return None
        if all(isinstance(x, (Stk, Cat)) and not x.transposed for x in items) and axis == 0:
            parts = []
            for x in items:
                parts += x.parts if isinstance(x, Cat) else [x]
            return Cat(parts)
        if len(items) == 1 and isinstance(items[0], ObjVal):
            return items[0]
        return Opq(f"stack `{astq.src(node, 50)}`")

    def call_hook(self, fn, args, kw, node, env):
        if fn in ("numpy.asarray", "numpy.array", "numpy.atleast_2d", "numpy.asanyarray", "numpy.ascontiguousarray", "numpy.asfarray", "numpy.copy", "numpy.atleast_1d",
                  "list", "tuple") and args and isinstance(args[0], (Rec, RefIdx)):
            return args[0]                  # the same records as an array (type / layout conversions keep channels and samples)
        if isinstance(node.func, ast.Attribute) and node.func.attr in ("astype", "copy", "ravel", "flatten") and not fn.startswith("numpy."):
            b_ = self.ev(node.func.value, env)
            if isinstance(b_, (Rec, RefIdx)) and (isinstance(b_, RefIdx) or node.func.attr in ("astype", "copy")):
                return b_
        if fn == "numpy.where" and len(node.args) == 3 and isinstance(args[2], RefIdx) and isinstance(node.args[0], ast.Compare) and isinstance(node.args[1], ast.BinOp) \
                and isinstance(node.args[1].op, ast.Add) and astq.dump(node.args[1].left) == astq.dump(node.args[2]) and astq.dump(node.args[0].left) == astq.dump(node.args[2]) \
                and isinstance(node.args[0].ops[0], ast.Lt):
            return args[2]                  # np.where(idx < 0, idx + n, idx): the same channels, negative numbers counted from the end
        if fn == "len" and len(args) == 1 and isinstance(args[0], Rec):
            return self.attr_hook(args[0], "shape", node).items[0]
        if fn == "len" and len(args) == 1 and isinstance(args[0], Stk) and not args[0].transposed and isinstance(args[0].win, Win):
            return I(args[0].n * P.s(SYM[args[0].win.role][0]))          # rows of a stack of blocks
        if fn == "numpy.cumsum" and len(args) == 1 and not kw:
            items = args[0].items if isinstance(args[0], Tup) else None
            if items is None and isinstance(args[0], Sq):
                t_ = normalise(args[0].t)
                if t_[0] == "cat" and all(x[0] == "int" for x in t_[1]):
                    items = [I(x[1]) for x in t_[1]]
            if items is not None and items and all(self.topoly(x) is not None for x in items):
                acc, out = P.c(0), []
                for x in items:
                    acc = acc + self.topoly(x)
                    out.append(I(acc))
                return Tup(out)
        if fn in ("tuple", "list", "numpy.array", "numpy.asarray", "numpy.ascontiguousarray") and len(args) == 1 and isinstance(args[0], (Slide, Stk, Cat, Blk4)):
            return args[0]
        if fn.endswith("sliding_window_view") and args and isinstance(args[0], Rec) and not args[0].transposed:
            w = self.topoly(args[1] if len(args) > 1 else kw.get("window_shape"))
            ax = self.topoly(kw.get("axis") if kw.get("axis") is not None else (args[2] if len(args) > 2 else None)) if (kw.get("axis") is not None or len(args) > 2) else None
            if w is not None and ax is not None and ax.is_const() and int(ax.const()) in (1, -1):
                return Slide(args[0].role, w, P.c(0), P.s("Ndat") - w + 1)
            return Opq("sliding_window_view along another axis / with a non-polynomial width")
        if isinstance(node.func, ast.Attribute) and node.func.attr in ("transpose", "reshape", "swapaxes") or fn in ("numpy.transpose", "numpy.reshape", "numpy.moveaxis", "numpy.swapaxes"):
            base = self.ev(node.func.value, env) if isinstance(node.func, ast.Attribute) and not fn.startswith("numpy.") else (args[0] if args else None)
            rest = list(args) if isinstance(node.func, ast.Attribute) and not fn.startswith("numpy.") else list(args[1:])
            if isinstance(base, Slide):
                name = node.func.attr if isinstance(node.func, ast.Attribute) and not fn.startswith("numpy.") else fn.split(".")[-1]
                if len(rest) == 1 and isinstance(rest[0], Tup):
                    rest = rest[0].items
                vals = [self.topoly(x) if isinstance(x, Val) else None for x in rest]
                if name == "transpose" and len(vals) == 3 and all(v is not None and v.is_const() for v in vals) and sorted(int(v.const()) % 3 for v in vals) == [0, 1, 2]:
                    return Slide(base.role, base.width, base.lo, base.n, [base.order[int(v.const()) % 3] for v in vals], base.rev)
                if name == "moveaxis" and len(vals) == 2 and all(v is not None and v.is_const() for v in vals):
                    o = list(base.order)
                    x_ = o.pop(int(vals[0].const()) % 3)
                    o.insert(int(vals[1].const()) % 3, x_)
                    return Slide(base.role, base.width, base.lo, base.n, o, base.rev)
                if name == "swapaxes" and len(vals) == 2 and all(v is not None and v.is_const() for v in vals):
                    o = list(base.order)
                    a_, b_ = int(vals[0].const()) % 3, int(vals[1].const()) % 3
                    o[a_], o[b_] = o[b_], o[a_]
                    return Slide(base.role, base.width, base.lo, base.n, o, base.rev)
                if name == "reshape" and len(vals) == 2 and all(v is not None for v in vals) and base.n is not None:
                    nch = P.s(SYM[base.role][0])
                    # one dimension may be left to numpy (-1)
                    if vals[0] == P.c(-1) and vals[1] == base.width:
                        vals = [base.n * nch, vals[1]]
                    elif vals[1] == P.c(-1) and vals[0] == base.n * nch:
                        vals = [vals[0], base.width]
                    if base.order == ("k", "c", "t") and vals[0] == base.n * nch and vals[1] == base.width:
                        return self.slide_rows(base, node)
                    if base.order == ("c", "k", "t") and vals[0] == base.n * nch:
                        self.errors.append((node, f"`{astq.src(node, 50)}` flattens (channel, block) channel-major: rows are grouped by channel, not by block row"))
                        return Opq("channel-major flattening of the window view")
                    return Opq(f"reshape of a window view with axes {''.join(base.order)} to ({vals[0]!r}, {vals[1]!r})")
                return Opq(f"{name} of a window view")
            if isinstance(base, Blk4):
                name = node.func.attr if isinstance(node.func, ast.Attribute) and not fn.startswith("numpy.") else fn.split(".")[-1]
                if len(rest) == 1 and isinstance(rest[0], Tup):
                    rest = rest[0].items
                vals = [self.topoly(x) if isinstance(x, Val) else None for x in rest]
                if name == "transpose":
                    if len(vals) == 4 and all(v is not None and v.is_const() for v in vals) and sorted(int(v.const()) % 4 for v in vals) == [0, 1, 2, 3]:
                        return Blk4(base.vi, base.ni, base.vj, base.nj, base.blk, [base.order[int(v.const()) % 4] for v in vals])
                    return Opq("transpose of a block array with non-constant axes")
                if name in ("swapaxes",) and len(vals) == 2 and all(v is not None and v.is_const() for v in vals):
                    o = list(base.order)
                    a_, b_ = int(vals[0].const()) % 4, int(vals[1].const()) % 4
                    o[a_], o[b_] = o[b_], o[a_]
                    return Blk4(base.vi, base.ni, base.vj, base.nj, base.blk, o)
                if name == "moveaxis" and len(vals) == 2 and all(v is not None and v.is_const() for v in vals):
                    o = list(base.order)
                    x = o.pop(int(vals[0].const()) % 4)
                    o.insert(int(vals[1].const()) % 4, x)
                    return Blk4(base.vi, base.ni, base.vj, base.nj, base.blk, o)
                if name == "reshape" and len(vals) == 2 and all(v is not None for v in vals) and isinstance(base.blk, Corr):
                    nr, nc = P.s(SYM[base.blk.wa.role][0]), P.s(SYM[base.blk.wb.role][0])
                    if base.order == ("i", "r", "j", "c") and vals[0] == base.ni * nr and vals[1] == base.nj * nc:
                        return BlockMat(base.vi, base.ni, BlockRow(base.vj, base.nj, base.blk))
                    if base.order == ("j", "r", "i", "c") and vals[0] == base.nj * nr and vals[1] == base.ni * nc:
                        return BlockMat(base.vj, base.nj, BlockRow(base.vi, base.ni, base.blk))
                    return Opq(f"reshape of the block array with axes {''.join(base.order)} to ({vals[0]!r}, {vals[1]!r}) does not give block rows / columns")
                return Opq(f"{name} of a block array")
        if fn in ("numpy.vstack", "numpy.row_stack") and args:
            return self._stack_of(args[0], 0, node)
        if fn in ("numpy.hstack", "numpy.column_stack") and args:
            return self._stack_of(args[0], 1, node)
        if fn == "numpy.concatenate" and args:
            ax = kw.get("axis") or (args[1] if len(args) > 1 else None)
            p = self.topoly(ax) if ax is not None else P.c(0)
            if p is not None and p.is_const():
                return self._stack_of(args[0], int(p.const()), node)
        if fn == "numpy.block" and args and isinstance(args[0], Sq):
            # nested list: rows of blocks
            t = normalise(args[0].t)
            if t[0] == "for" and t[4][0] == "blk":
                inner = normalise(t[4][1])
                if inner[0] == "for" and inner[4][0] == "obj" and isinstance(inner[4][1], Corr):
                    blk = inner[4][1]
                    if inner[2] != P.c(0):
                        blk = blk.subs(inner[1], P.s(inner[1]) + inner[2])
                    row = BlockRow(inner[1], inner[3] - inner[2], blk)
                    if t[2] != P.c(0):
                        row = row.subs(t[1], P.s(t[1]) + t[2])
                    return BlockMat(t[1], t[3] - t[2], row)
            return Opq("np.block of an unrecognised nested list")
        if fn in ("numpy.dot", "numpy.matmul") and len(args) == 2 and all(isinstance(x, ObjVal) for x in args):
            return self.matmul(args[0], args[1], node)
        if isinstance(node.func, ast.Attribute) and node.func.attr == "dot" and len(args) == 1:
            base = self.ev(node.func.value, env)
            if isinstance(base, ObjVal) and isinstance(args[0], ObjVal):
                return self.matmul(base, args[0], node)
        if fn in ("numpy.linalg.qr", "scipy.linalg.qr") and args and isinstance(args[0], ObjVal):
            mode = kw.get("mode")
            return RFac(args[0], mode.v if isinstance(mode, K) else None)
        if fn in ("numpy.array", "numpy.asarray", "numpy.stack") and args and isinstance(args[0], Sq):
            t = normalise(args[0].t)
            if t[0] == "for" and t[4][0] == "obj":
                return args[0]           # an array of per-index blocks: indexed like the list
        if fn in ("numpy.transpose",) and args and isinstance(args[0], ObjVal):
            return self.attr_hook(args[0], "T", node)
        if fn in ("numpy.sqrt", "math.sqrt") and len(args) == 1:
            p = self.topoly(args[0])
            if p is not None:
                from .poly import P_pow
                r = P_pow(p, 0.5)
                return I(r) if r is not None else None
        if fn == "int" and len(args) == 1 and isinstance(args[0], I):
            return args[0]
        return None
