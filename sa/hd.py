"""Helpers shared by the properties that use the HOMDEG interpreter: seeds, expectation checks,
conversion of interpreter events into obligations."""
import re

from .absint import (Interp, CTX, Deg, D, Cst, Lst, Dct, Obj, Tup, Any_, Top, Unk, Bool, ONE, SCAL, Fn, num, mono)
from .program import rel, AnalysisError

HZ = D(0, s=-1)
SEC = D(0, s=1)


def fmt_expected(m):
    return "{" + ("1" if not m else "*".join(f"{k}^{v}" for k, v in sorted(m.items()))) + "}"


def loc_of(prog, qual):
    """(file, line) of a qualified function name as used in events"""
    fi = prog.functions.get(qual)
    if fi is None:
        # nested function: strip the last component
        q = qual
        while q and q not in prog.functions:
            q = q.rsplit(".", 1)[0]
        fi = prog.functions.get(q)
    if fi is None:
        return "", 0
    return rel(prog.mods[fi.mod].path), fi.node.lineno


def expect(run, prog, rule, fn, role, val, expected, config="", allow_any=True):
    """val must be homogeneous with exactly the monomial `expected` (dict sym->exponent)."""
    f, ln = loc_of(prog, fn)
    exp = mono(**expected)
    v = num(val) if not isinstance(val, (Obj, Dct)) else val
    if isinstance(v, Deg):
        if v.sup == frozenset([exp]):
            return run.ob(rule, fn, role, True, f"degree {v.fmt()}", file=f, config=config)
        return run.ob(rule, fn, role, False,
                      f"expected degree {fmt_expected(expected)}, found {v.fmt()} ({config})",
                      witness=v.fmt(), file=f, config=config)
    if isinstance(v, Any_):
        if allow_any:
            return run.ob(rule, fn, role, True, "value is 0/NaN/empty (compatible with every degree)", file=f, config=config)
        return run.ob(rule, fn, role, None, "value is 0/NaN/empty: no data-dependent value reaches this output", file=f, config=config)
    if isinstance(v, Top):
        return run.ob(rule, fn, role, False, f"expected degree {fmt_expected(expected)}, found a non-homogeneous value: {v.why} ({config})",
                      witness="TOP:" + _strip(v.why), file=f, config=config)
    return run.ob(rule, fn, role, None, f"could not evaluate ({v!r})"[:200], file=f, config=config)


def expect_support(run, prog, rule, fn, role, val, expected_set, config=""):
    f, ln = loc_of(prog, fn)
    v = num(val)
    exp = frozenset(mono(**m) for m in expected_set)
    if isinstance(v, Deg):
        ok = v.sup == exp
        return run.ob(rule, fn, role, ok, f"support {v.fmt()}" if ok else f"expected support {sorted(map(fmt_expected, expected_set))}, found {v.fmt()} ({config})",
                      witness=v.fmt(), file=f, config=config)
    if isinstance(v, Top):
        return run.ob(rule, fn, role, False, f"non-homogeneous: {v.why}", witness="TOP:" + _strip(v.why), file=f, config=config)
    return run.ob(rule, fn, role, None, f"could not evaluate ({v!r})"[:200], file=f, config=config)


def _strip(s):
    return re.sub(r"\s+", " ", str(s))[:160]


BAD_KINDS = {"mix": "sum of quantities of different degree",
             "nonhom": "operation that needs a homogeneous/dimensionless argument",
             "decision": "scale-dependent decision"}


def events_to_obligations(run, prog, rule, config="", only_prefix=None, seen=None):
    """Every mix / nonhom / decision event raised while interpreting becomes a violated obligation
    at the function where it happened; functions traversed without event are counted as holding."""
    seen = seen if seen is not None else set()
    n = 0
    root_seen = False
    for kind, (fn, line), msg in CTX.events:
        if kind not in BAD_KINDS:
            continue
        if only_prefix and not fn.startswith(only_prefix):
            continue
        poisoned = "TOP(" in msg or " + " in msg.replace("1 + 1", "")
        if kind != "mix" and poisoned and root_seen:
            continue  # consequence of an earlier root event in this configuration, not a finding of its own
        root_seen = True
        k = (kind, fn, msg)
        if k in seen:
            continue
        seen.add(k)
        f, _ = loc_of(prog, fn)
        o = run.ob(rule, fn, kind, False, f"{BAD_KINDS[kind]}: {msg} ({config})", witness=_strip(msg), file=f, config=config)
        o.line = line
        n += 1
    return n


def is_poisoned(val):
    v = num(val) if not isinstance(val, (Obj, Dct)) else val
    return isinstance(v, Top) or (isinstance(v, Deg) and not v.single())


def has_root_events():
    return any(k in BAD_KINDS for k, _, _ in CTX.events)


def unknown_events(limit=10):
    out = []
    for kind, (fn, line), msg in CTX.events:
        if kind in ("unknown-call", "unsupported"):
            s = f"{kind} {msg} in {fn}:{line}"
            if s not in out:
                out.append(s)
    return out[:limit]


# ----------------------------------------------------------------------------- seeds
def hc_dict(with_cov=True):
    d = {"conj": Cst(True), "xi_max": SCAL, "mpc_lim": SCAL, "mpd_lim": SCAL}
    if with_cov:
        d["cov_max"] = SCAL
    return Dct(d)


def sc_dict():
    return Dct({"err_fn": SCAL, "err_xi": SCAL, "err_phi": SCAL})


def ms_data(g0="g", gk="g"):
    """multi-setup data: first setup with gain symbol g0, generic further setups with gk"""
    def su(sym):
        return Dct({"ref": D(2, **{sym: 1}), "mov": D(2, **{sym: 1})})
    return Lst([su(g0)], su(gk))


def algo(I, clsqual, rp, data, extra=None):
    attrs = {"data": data, "fs": HZ, "dt": SEC, "run_params": Obj(rp), "result": Cst(None), "name": Cst("algo")}
    attrs.update(extra or {})
    return I.new_obj(clsqual, attrs)


def result_fields(res, names):
    out = {}
    if isinstance(res, Obj):
        for k in names:
            out[k] = res.attrs.get(k)
    return out
