import pathlib
"""AST-level seeded variants for the thorough-tier discrimination self-test.

A variant is described by (id, module, function-or-None, from-source, to-source[, nth]).  The sub-expression / statement of
the named function whose normalised source equals `from` is replaced by `to` on an in-memory copy of the module tree (nothing is
written to /repo).  Variants are test inputs for the CHECKER, located by text on purpose; if the text is gone from the tree the
variant is reported as 'not applicable' and skipped.  kind 'mutant' must be reported as a violation, kind 'rewrite' (behaviour
preserving) must leave the verdict unchanged.
"""
import ast
import copy


def _norm(s):
    return " ".join(ast.unparse(ast.parse(s, mode="exec")).split()) if s else s


def _find_func(tree, path):
    """path 'Class.method' or 'func'"""
    parts = path.split(".")
    body = tree.body
    node = None
    for p in parts:
        node = None
        for n in body:
            if isinstance(n, (ast.FunctionDef, ast.ClassDef)) and n.name == p:
                node = n
                break
        if node is None:
            return None
        body = node.body
    return node


class _Repl(ast.NodeTransformer):
    def __init__(self, frm_expr, frm_stmt, to_nodes, nth):
        self.frm_expr = frm_expr
        self.frm_stmt = frm_stmt
        self.to_nodes = to_nodes
        self.nth = nth
        self.seen = 0
        self.done = 0

    def generic_visit(self, node):
        return super().generic_visit(node)

    def visit(self, node):
        if isinstance(node, ast.stmt) and self.frm_stmt is not None:
            try:
                s = " ".join(ast.unparse(node).split())
            except Exception:
                s = None
            if s == self.frm_stmt:
                self.seen += 1
                if self.nth is None or self.seen == self.nth:
                    self.done += 1
                    new = [copy.deepcopy(n) for n in self.to_nodes]
                    for n in new:
                        ast.copy_location(n, node)
                        ast.fix_missing_locations(n)
                    return new if len(new) != 1 else new[0]
        if isinstance(node, ast.expr) and self.frm_expr is not None:
            try:
                s = " ".join(ast.unparse(node).split())
            except Exception:
                s = None
            if s == self.frm_expr:
                self.seen += 1
                if self.nth is None or self.seen == self.nth:
                    self.done += 1
                    new = copy.deepcopy(self.to_nodes[0])
                    ast.copy_location(new, node)
                    ast.fix_missing_locations(new)
                    return new
        return self.generic_visit(node)


def apply_variant(prog, var):
    """returns (overrides dict or None if not applicable)"""
    vid, modname, func, frm, to = var[:5]
    nth = var[5] if len(var) > 5 else None
    mname = "pyoma2." + modname
    if mname not in prog.mods:
        return None
    tree = ast.parse(prog.mods[mname].src)          # the module as written (prog's own tree has been normalised: helpers inlined into callers)
    scope = tree if not func else _find_func(tree, func)
    if scope is None:
        return None
    frm_mod = ast.parse(frm)
    to_mod = ast.parse(to) if to.strip() else ast.parse("pass")
    is_expr = len(frm_mod.body) == 1 and isinstance(frm_mod.body[0], ast.Expr)
    if is_expr and len(to_mod.body) == 1 and isinstance(to_mod.body[0], ast.Expr):
        r = _Repl(" ".join(ast.unparse(frm_mod.body[0].value).split()), None, [to_mod.body[0].value], nth)
    else:
        if len(frm_mod.body) != 1:
            return None
        r = _Repl(None, " ".join(ast.unparse(frm_mod.body[0]).split()), to_mod.body, nth)
    if scope is tree:
        tree = r.visit(tree)
    else:
        r.visit(scope)
    if r.done == 0:
        return None
    ast.fix_missing_locations(tree)
    # the variant must still be valid Python
    try:
        compile(tree, modname, "exec")
    except Exception:
        return None
    return {mname: tree}


class _Rename(ast.NodeTransformer):
    def __init__(self, old, new):
        self.old, self.new = old, new

    def visit_Name(self, node):
        if node.id == self.old:
            node.id = self.new
        return node

    def visit_arg(self, node):
        return node


def rename_local(prog, modname, func, old, new):
    mname = "pyoma2." + modname
    tree = ast.parse(prog.mods[mname].src)          # the module as written (prog's own tree has been normalised: helpers inlined into callers)
    f = _find_func(tree, func)
    if f is None:
        return None
    params = {a.arg for a in f.args.args + f.args.kwonlyargs + f.args.posonlyargs}
    if old in params or not any(isinstance(n, ast.Name) and n.id == old for n in ast.walk(f)):
        return None
    _Rename(old, new).visit(f)
    return {mname: tree}


def patch_overrides(prog, patchfile):
    """module overrides {module name: new source} obtained by applying a unified diff (paths a/src/pyoma2/...) to a scratch copy of the
    analysed tree; None if the patch does not apply.  The scratch copy lives in a temporary directory that is removed before returning."""
    import os
    import re
    import shutil
    import subprocess
    import tempfile
    root = pathlib.Path(prog.root)
    text = pathlib.Path(patchfile).read_text()
    files = sorted(set(re.findall(r"^\+\+\+ b/(src/pyoma2/\S+)", text, flags=re.M)))
    if not files:
        return None
    tmp = tempfile.mkdtemp(prefix="sa-variant.")
    try:
        for f in files:
            relp = pathlib.Path(f).relative_to("src/pyoma2")
            dst = pathlib.Path(tmp) / f
            dst.parent.mkdir(parents=True, exist_ok=True)
            if (root / relp).exists():
                shutil.copy(root / relp, dst)
        r = subprocess.run(["patch", "-p1", "-s", "-f", "-i", str(pathlib.Path(patchfile).resolve())], cwd=tmp, capture_output=True, text=True)
        if r.returncode != 0:
            return None
        ov = {}
        for f in files:
            relp = pathlib.Path(f).relative_to("src/pyoma2")
            parts = list(relp.with_suffix("").parts)
            if parts and parts[-1] == "__init__":
                parts = parts[:-1]
            ov[".".join(["pyoma2"] + parts)] = (pathlib.Path(tmp) / f).read_text()
        return ov
    finally:
        shutil.rmtree(tmp, ignore_errors=True)
