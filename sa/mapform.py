"""Normal-form check of the discrete-to-continuous pole mapping shared by ssi.ac2mp and plscf.ac2mp_poly:
   L = log(lambda_d)/dt,  fn = |L|/(2 pi),  xi = -Re(L)/|L|  (R-map of C01 / C05)."""
import ast

from . import astq, symidx
from .poly import P, P_div
from .program import rel


def map_obligations(prog, run, rule, qual, consts, cfg, ret_positions):
    """ret_positions: indices of (fn, xi, lam_c) in the returned tuple"""
    fi = prog.func(qual)
    f = rel(prog.mods[fi.mod].path)
    pf = astq.PrunedFn(fi, consts)
    rets = [n for n in ast.walk(pf.node) if isinstance(n, ast.Return) and isinstance(n.value, ast.Tuple)]
    if not rets:
        run.ob(rule, fi.qual, "return", None, "no tuple return", file=f, config=cfg)
        return
    r = rets[-1]
    se = symidx.SymEval(prog, pf)
    se.atoms = True
    pos, _, _, _ = astq.params_of(fi.node)
    dt = "dt"
    vals = {}
    for name, k in zip(("fn", "xi", "lam"), ret_positions):
        x = astq.expr_at(pf, r, r.value.elts[k])
        vals[name] = (x, se.ev(x))
    # discrete eigenvalues: first element of eig(A)
    lam_x, lam_v = vals["lam"]
    # the kept branch of a blanking np.where(cond, nan, L) is the mapped eigenvalue
    core = lam_x
    for c in ast.walk(lam_x):
        if isinstance(c, ast.Call) and astq.callee_name(prog, pf, c) == "numpy.where" and len(c.args) == 3:
            core = c.args[2]
            break
    core_v = se.ev(core)
    logs = [c for c in ast.walk(core) if isinstance(c, ast.Call) and astq.callee_name(prog, pf, c) == "numpy.log" and c.args]
    ok_l = False
    why = repr(core_v)[:120]
    if core_v is not None and logs:
        arg_v = se.ev(logs[0].args[0])
        is_eig = isinstance(logs[0].args[0], ast.Subscript) and isinstance(logs[0].args[0].value, ast.Call) and \
            astq.callee_name(prog, pf, logs[0].args[0].value) in ("numpy.linalg.eig", "scipy.linalg.eig") and \
            isinstance(logs[0].args[0].slice, ast.Constant) and logs[0].args[0].slice.value == 0
        if arg_v is not None:
            expL = P.s(f"log[{arg_v!r}]") * P({((dt, -1),): 1})
            ok_l = (core_v == expL) and is_eig
    lam_v = core_v
    run.ob(rule, fi.qual, "lambda_c = log(lambda_d) / dt", bool(ok_l), f"lambda_c = {why}", witness=why[:90], file=f, node=r, config=cfg)
    if lam_v is None:
        return
    Lr = repr(lam_v)
    fn_x, fn_v = vals["fn"]
    xi_x, xi_v = vals["xi"]
    # rebuild expectations on the blanked eigenvalue expression as the code sees it (lam may be wrapped by where): use the code's own lam expression
    lam_code = se.ev(lam_x)
    if lam_code is None:
        # where(...) is not polynomial: substitute an opaque symbol for it
        lam_code = None
    def atom_of(kind):
        return P.s(f"{kind}[{Lr}]")
    if fn_v is None or xi_v is None:
        # retry with the returned lam expression replaced by a symbol
        key = astq.dump(lam_x)

        class Sub(ast.NodeTransformer):
            def generic_visit(self, node):
                if isinstance(node, ast.expr) and astq.dump(node) == key:
                    return ast.copy_location(ast.Name(id="LAMC", ctx=ast.Load()), node)
                return super().generic_visit(node)
        fn_x2, xi_x2 = Sub().visit(fn_x), Sub().visit(xi_x)
        se2 = symidx.SymEval(prog, pf, env={"LAMC": P.s("LAMC")})
        se2.atoms = True
        fn_v, xi_v = se2.ev(fn_x2), se2.ev(xi_x2)
        Lr = "LAMC"
    exp_fn = P.s(f"abs[{Lr}]") * P({(("pi", -1),): 1}) * P.c(1) * P({(): __import__("fractions").Fraction(1, 2)})
    ok_fn = fn_v is not None and fn_v == exp_fn
    run.ob(rule, fi.qual, "fn = |lambda_c| / (2 pi)", ok_fn, f"fn = {fn_v!r}"[:160], witness=repr(fn_v)[:90], file=f, node=r, config=cfg)
    exp_xi = P_div(-P.s(f"re[{Lr}]"), P.s(f"abs[{Lr}]"))
    ok_xi = xi_v is not None and xi_v == exp_xi
    run.ob(rule, fi.qual, "xi = -Re(lambda_c) / |lambda_c|", ok_xi, f"xi = {xi_v!r}"[:160], witness=repr(xi_v)[:90], file=f, node=r, config=cfg)
