"""Self-tests of the abstract domains on tiny synthetic sources (run by `./check --selfcheck`, the MANIFEST setup command).

Each case is a pair of spellings that MUST evaluate to the same canonical term, or a broken variant that MUST evaluate to a different,
fully recognised term - so that an engine fault shows up as a failed setup, not as a silent pass (or a false alarm) of a property check.
The synthetic module replaces `pyoma2.functions.gen` in an in-memory copy of the parsed package; nothing is executed."""
import ast

from . import astq, seqdom, blockdom, hankdom
from .poly import P
from .program import Program

GEN = '''
import functools
import numpy as np
from scipy import linalg

def merge_a(L, R):
    out = np.zeros((10, 3))
    for k in range(3):
        v0 = L[0][:, k]
        acc = np.concatenate((v0[R[0]], np.delete(v0, R[0])))
        for i in range(1, len(L)):
            acc = np.hstack((acc, 2.0 * np.delete(L[i][:, k], R[i], axis=0)))
        out[:, k] = acc
    return out

def _split(v, r):
    return v[r], np.delete(v, r, axis=0)

def merge_b(L, R):
    out = np.zeros((10, 3))
    for k in range(3):
        ref0, rov0 = _split(L[0][:, k], R[0])
        blocks = [ref0, rov0]
        for i, phi in enumerate(L[1:], start=1):
            _, rov = _split(phi[:, k], R[i])
            blocks.append(rov * 2.0)
        out[:, k] = np.concatenate(blocks)
    return out

def merge_c(L, R):
    out = np.zeros((10, 3))
    for k in range(3):
        parts = [L[0][R[0], k]]
        for phi, r in zip(L, R):
            keep = np.ones(phi.shape[0], dtype=bool)
            keep[r] = False
            parts.append(phi[keep, k])
        out[:, k] = np.concatenate(parts)
    return out

def merge_bad_prepend(L, R):
    out = np.zeros((10, 3))
    for k in range(3):
        v0 = L[0][:, k]
        acc = np.concatenate((v0[R[0]], np.delete(v0, R[0])))
        for i in range(1, len(L)):
            acc = np.hstack((np.delete(L[i][:, k], R[i]), acc))
        out[:, k] = acc
    return out

def merge_bad_reflist(L, R):
    out = np.zeros((10, 3))
    for k in range(3):
        parts = [L[0][R[0], k]]
        for i in range(len(L)):
            parts.append(np.delete(L[i][:, k], R[0]))
        out[:, k] = np.concatenate(parts)
    return out

def merge_bad_sorted(L, R):
    out = np.zeros((10, 3))
    for k in range(3):
        parts = [L[0][sorted(R[0]), k]]
        for i in range(len(L)):
            parts.append(np.delete(L[i][:, k], R[i]))
        out[:, k] = np.concatenate(parts)
    return out

def SD_est(A, B, dt):
    return np.arange(3), A @ B.T

def pre_a(Y, fs):
    G = []
    for i in range(len(Y)):
        allc = np.vstack((Y[i]["ref"], Y[i]["mov"]))
        f, Sr = SD_est(allc, Y[i]["ref"], 1 / fs)
        _, Sm = SD_est(allc, Y[i]["mov"], 1 / fs)
        G.append(np.hstack((Sr, Sm)))
    n = Y[0]["ref"].shape[0]
    Gf = [np.moveaxis(g, 2, 0) for g in G]
    mean = sum([Gf[i][:, :n, :n] for i in range(len(Y))]) / len(Y)
    rows = [mean]
    for g in Gf:
        rows.append(g[:, n:, :n] @ np.linalg.inv(g[:, :n, :n]) @ mean)
    return f, np.moveaxis(np.concatenate(rows, axis=1), 0, 2)

def pre_bad_axes(Y, fs):
    G = []
    for i in range(len(Y)):
        allc = np.vstack((Y[i]["ref"], Y[i]["mov"]))
        f, Sr = SD_est(allc, Y[i]["ref"], 1 / fs)
        _, Sm = SD_est(allc, Y[i]["mov"], 1 / fs)
        G.append(np.hstack((Sr, Sm)))
    n = Y[0]["ref"].shape[0]
    Gf = [np.moveaxis(g, 2, 0) for g in G]
    mean = sum([Gf[i][:, :n, :n] for i in range(len(Y))]) / len(Y)
    rows = [mean]
    for g in Gf:
        rows.append(g[:, n:, :n] @ np.linalg.inv(g[:, :n, :n]) @ mean)
    return f, np.concatenate(rows, axis=1)

def pre_bad_corner(Y, fs):
    G = []
    for i in range(len(Y)):
        allc = np.vstack((Y[i]["ref"], Y[i]["mov"]))
        f, Sr = SD_est(allc, Y[i]["ref"], 1 / fs)
        _, Sm = SD_est(allc, Y[i]["mov"], 1 / fs)
        G.append(np.hstack((Sr, Sm)))
    n = Y[0]["ref"].shape[0]
    Gf = [np.moveaxis(g, 2, 0) for g in G]
    mean = sum([Gf[i][:, :n, :n] for i in range(len(Y))]) / len(Y)
    rows = [mean]
    for g in Gf:
        rows.append(g[:, :n, n:] @ np.linalg.inv(g[:, :n, :n]) @ mean)
    return f, np.moveaxis(np.concatenate(rows, axis=1), 0, 2)

def hank_a(Y, Yref, br):
    p = br
    q = p + 1
    N = Y.shape[1] - p - q
    Yf = np.vstack([(1 / N ** 0.5) * Y[:, q + 1 + i:N + q + i] for i in range(p + 1)])
    Yp = np.vstack([(1 / N ** 0.5) * Yref[:, q + i:N + q - 1 + i] for i in range(0, -q, -1)])
    return Yf @ Yp.T

def _stacks(Y, Yref, p, q, N):
    w = 1 / N ** 0.5
    fut = []
    for i in range(p + 1):
        fut.append(w * Y[:, q + 1 + i:N + q + i])
    past = [w * Yref[:, q - j:N + q - 1 - j] for j in range(q)]
    return np.vstack(fut), np.vstack(past)

def hank_b(Y, Yref, br):
    l, Ndat = Y.shape
    Yf, Yp = _stacks(Y, Yref, br, br + 1, Ndat - 2 * br - 1)
    return np.dot(Yf, Yp.T)

def hank_bad(Y, Yref, br):
    p = br
    q = p + 1
    N = Y.shape[1] - p - q
    Yf = np.vstack([(1 / N ** 0.5) * Y[:, q + 2 + i:N + q + i + 1] for i in range(p + 1)])
    Yp = np.vstack([(1 / N ** 0.5) * Yref[:, q + i:N + q - 1 + i] for i in range(0, -q, -1)])
    return Yf @ Yp.T

def sc_loop(Fn, Xi, tol):
    Lab = np.zeros(Fn.shape, dtype=int)
    for o in range(1, Fn.shape[1]):
        f1 = Fn[:, o - 1].reshape(-1, 1)
        f0 = Fn[:, o].reshape(-1, 1)
        for i in range(len(f0)):
            idx = np.nanargmin(np.abs(f1 - f0[i]))
            if np.abs(f0[i] - f1[idx]) / f0[i] < tol:
                Lab[i, o] = 1
    return Lab

def _nearest(cur, prev):
    dist = np.abs(prev[:, np.newaxis] - cur[np.newaxis, :])
    rows = np.flatnonzero(~np.isnan(dist).all(axis=0))
    return rows, np.nanargmin(dist[:, rows], axis=0)

def sc_vec(Fn, Xi, tol):
    Lab = np.zeros(Fn.shape, dtype=int)
    for o in range(1, Fn.shape[1]):
        cur, prev = Fn[:, o], Fn[:, o - 1]
        rows, match = _nearest(cur, prev)
        sel = cur[rows]
        ok = np.abs(sel - prev[match]) / sel < tol
        for i in rows[ok]:
            Lab[i, o] = 1
    return Lab

def sc_vec_bad(Fn, Xi, tol):
    Lab = np.zeros(Fn.shape, dtype=int)
    for o in range(1, Fn.shape[1]):
        cur, prev = Fn[:, o], Fn[:, o - 1]
        rows, match = _nearest(cur, prev)
        sel = cur[rows]
        ok = np.abs(sel - Xi[:, o - 1][match]) / sel < tol
        for i in rows[ok]:
            Lab[i, o] = 1
    return Lab

def gate_ok(self):
    missing = self.fs is None or self.data is None
    if missing:
        raise ValueError("x")
    if self.run_params:
        return
    raise ValueError("y")

def gate_bad(self):
    if self.fs is None:
        raise ValueError("x")
    if not self.run_params:
        raise ValueError("y")


# ---- rules whose expected count on the library is zero: one example that must match, one that must not
def pick_ok(Y, idx):
    idx = np.asarray(idx)
    first, last = int(idx[0]), int(idx[-1])
    if np.array_equal(idx, np.arange(first, last + 1)):
        return Y[first:last + 1, :]
    return Y[idx, :]


def pick_bad(Y, idx):
    idx = np.asarray(idx)
    first, last = int(idx[0]), int(idx[-1])
    if last - first + 1 == idx.size:
        return Y[first:last + 1, :]
    return Y[idx, :]


def eig_ok(A, C, unc):
    out = linalg.eig(A, left=True)
    lam, vr = out[0], out[-1]
    return np.dot(C, vr)


def eig_bad(A, C, unc):
    out = linalg.eig(A, left=True)
    lam, vr = out[:2]
    return np.dot(C, vr)


def typed_bad(freq, sel):
    s = np.atleast_1d(np.asarray(sel))
    out = np.empty_like(s)
    for i in range(s.size):
        out[i] = freq[i]
    return out


def typed_ok(freq, sel):
    s = np.atleast_1d(np.asarray(sel, dtype=float))
    out = np.empty_like(s)
    for i in range(s.size):
        out[i] = freq[i]
    return out


@functools.lru_cache(maxsize=4)
def _memo_table(n):
    return np.arange(n) * 1.0


def memo_bad(n, sign):
    t = _memo_table(n)
    if sign == 1:
        np.negative(t, out=t)
    return t.sum()


def memo_ok(n, sign):
    t = _memo_table(n)
    if sign == 1:
        t = np.negative(t)
    return t.sum()


def _near(tab, f, rtol=0.05):
    rows = np.nanargmin(np.abs(tab - f), axis=0)
    return rows, np.isclose(tab[rows], f, rtol=rtol)


def opt_bad(tab, f, rtol=0.05):
    rows, close = _near(tab, f)
    return rows[close]


def opt_ok(tab, f, rtol=0.05):
    rows, _ = _near(tab, f)
    rows2, close = _near(tab, f, rtol)
    return rows, rows2[close]


def _norm_lists(lists, n):
    out = []
    for l, k in zip(lists, n):
        a = np.atleast_1d(np.asarray(l))
        a = np.where(a < 0, a + k, a)
        if np.unique(a).size != a.size:
            raise ValueError("x")
        out.append(a.tolist())
    return out


def _norm_lists_bad(lists, n):
    out = []
    for l, k in zip(lists, n):
        a = np.atleast_1d(np.asarray(l))
        out.append(np.unique(a).tolist())
    return out


def keep_order(lists, n):
    return _norm_lists(lists, n)


def turn_ok(M, n):
    M = np.asarray(M)
    if M.shape[0] != n and M.shape[1] == n:
        M = M.T
    return M


def turn_bad(M, n):
    M = np.asarray(M)
    if M.shape[1] == n:
        M = M.T
    return M


def twice_bad(a, b, same):
    X = np.array(a, dtype=float)
    n = np.linalg.norm(X, axis=0)
    Y, m = (X, n) if same else (np.array(b, dtype=float), np.linalg.norm(b, axis=0))
    X /= n
    Y /= m
    return X.T @ Y


def twice_ok(a, b, same):
    X = np.array(a, dtype=float)
    n = np.linalg.norm(X, axis=0)
    Y, m = (X, n) if same else (np.array(b, dtype=float), np.linalg.norm(b, axis=0))
    X = X / n
    Y = Y / m
    return X.T @ Y


class KeepBad:
    def __init__(self, data, fs):
        self.data, self.fs, self._kept = data, fs, {}

    def design(self, wn):
        if wn not in self._kept:
            self._kept[wn] = wn / self.fs
        return self._kept[wn]

    def use(self, wn):
        return self.design(wn)

    def halve(self):
        self.fs = self.fs / 2


class KeepOk:
    def __init__(self, data, fs):
        self.data, self.fs, self._kept = data, fs, {}

    def design(self, wn):
        if wn not in self._kept:
            self._kept[wn] = wn / self.fs
        return self._kept[wn]

    def use(self, wn):
        return self.design(wn)

    def halve(self):
        self.fs = self.fs / 2
        self._kept = {}


def _dec(x, n=None, kind="iir"):
    return x

def _take(opts):
    return {"n": opts.pop("n", None), "kind": opts.pop("kind", "iir")}

def take_ok(data, opts):
    o = _take(opts)
    return [_dec(x, **o) for x in data]

def take_bad(data, opts):
    return [_dec(x, **_take(opts)) for x in data]

def sel_ok(v, ref, rtol):
    close = np.isclose(v, ref, rtol=rtol)
    if not close.all():
        v = v[close]
    return v

def sel_bad(v, ref, rtol):
    close = np.isclose(v, ref, rtol=rtol)
    if not close.any():
        v = v[close]
    return v

def _limits_ok(hc):
    return {k: d if hc.get(k) is None else hc[k] for k, d in (("conj", True), ("lim", 0.7))}

def _limits_bad(hc):
    return {k: hc.get(k) or d for k, d in (("conj", True), ("lim", 0.7))}

def crit_ok(self):
    return _limits_ok(self.run_params.hc)

def crit_bad(self):
    return _limits_bad(self.run_params.hc)

def sp_a(X, n):
    out = []
    for i in range(0, n):
        if 0 < i:
            out.append(np.transpose(X)[i])
    res = out
    return res

def sp_b(X, n):
    """same thing"""
    return sp_a(X, n)

def sp_keep(X, n):
    out = []
    for i in range(n):
        out.append(X[i])
    return out, i

def lose_order(lists, n):
    return _norm_lists_bad(lists, n)
'''


def run(root):
    """-> (number of cases, [failure messages])"""
    prog = Program(root, overrides={"pyoma2.functions.gen": GEN})
    old = astq.PROG
    astq.PROG = prog
    fails = []
    n = 0
    try:
        want = seqdom.canon(seqdom.global_order())

        def merged(name):
            fi = prog.func("functions.gen." + name)
            it = seqdom.Interp(prog, roles={"L": ("data", 0, 2), "R": ("refs",)})
            it.run(fi)
            st = [s for s in it.stores if s[0] == "out"]
            return it.as_seq(st[-1][2]) if st else ("opq", "no store")
        for name in ("merge_a", "merge_b", "merge_c"):
            n += 1
            t = merged(name)
            if seqdom.canon(t) != want:
                fails.append(f"seqdom: {name} -> {seqdom.canon(t)} (expected {want})")
        for name in ("merge_bad_prepend", "merge_bad_reflist", "merge_bad_sorted"):
            n += 1
            t = merged(name)
            if seqdom.canon(t) == want or seqdom.opaque(seqdom.normalise(t)):
                fails.append(f"seqdom: broken variant {name} not recognised as different: {seqdom.canon(t)}")
        # block typing
        for name, bad in (("pre_a", False), ("pre_bad_corner", True), ("pre_bad_axes", True)):
            n += 1
            fi = prog.func("functions.gen." + name)
            it = blockdom.Interp(prog, roles={"Y": ("setups",)})
            rets = it.run(fi)
            v = rets[-1][0] if rets else None
            sy = v.items[1] if isinstance(v, seqdom.Tup) and len(v.items) == 2 else None
            if not isinstance(sy, blockdom.Mat):
                fails.append(f"blockdom: {name} did not produce a typed matrix ({v!r})"[:200])
                continue
            rows, cols, form = blockdom.gcanon(sy.rows), blockdom.gcanon(sy.cols), blockdom.fshow(sy.form)
            good = rows == "(ref ; for k0 in 0..N: (mov[k0]))" and cols == "(ref)" and not it.type_errors and sy.lay == blockdom.STD_LAY and \
                form == "[mean_k0(S[k0]<ref|ref>) ; for k0 in 0..N: S[k0]<mov|ref> . S[k0]<ref|ref>^-1 . mean_k1(S[k1]<ref|ref>)]"
            if good == bad:
                fails.append(f"blockdom: {name}: rows {rows} cols {cols} form {form} type errors {len(it.type_errors)}")
        # Hankel windows
        grams = {}
        for name in ("hank_a", "hank_b", "hank_bad"):
            n += 1
            fi = prog.func("functions.gen." + name)
            it = hankdom.Interp(prog, roles={"Y": ("rec", "all"), "Yref": ("rec", "ref")})
            rets = it.run(fi, {"br": seqdom.I(P.s("br"))})
            h = rets[-1][0] if rets else None
            if not (isinstance(h, hankdom.Gram) and isinstance(h.a, hankdom.Stk) and isinstance(h.b, hankdom.Stk)):
                fails.append(f"hankdom: {name} -> {h!r}"[:200])
                continue
            fa = h.a.win.subs(h.a.v, P.s("i"))
            fb = h.b.win.subs(h.b.v, P.s("c"))
            grams[name] = (fa.lo - fb.lo, fa.hi - fa.lo, fb.hi - fb.lo, fa.w * fb.w, h.a.n, h.b.n)
        lag = P.s("i") + P.s("c") + 1
        if "hank_a" in grams and grams["hank_a"][0] != lag:
            fails.append(f"hankdom: hank_a lag {grams['hank_a'][0]!r}")
        if "hank_a" in grams and "hank_b" in grams and [repr(x) for x in grams["hank_a"]] != [repr(x) for x in grams["hank_b"]]:
            fails.append(f"hankdom: two spellings differ: {grams['hank_a']} vs {grams['hank_b']}")
        if "hank_bad" in grams and grams["hank_bad"][0] == lag:
            fails.append("hankdom: shifted window not seen")
        # seeded outcomes
        for name, expect in (("gate_ok", True), ("gate_bad", False)):
            n += 1
            fi = prog.func("functions.gen." + name)
            res = all(all(o.startswith("raise:") for o in astq.outcomes(fi.node.body, {w: None})) for w in ("self.fs", "self.data", "self.run_params"))
            if res != expect:
                fails.append(f"outcomes: {name} -> {res}")
        # index-level model: a loop and its vectorisation lower to the same scalar condition
        from . import lamdom
        import re as _re
        conds = {}
        for name in ("sc_loop", "sc_vec", "sc_vec_bad"):
            n += 1
            fi = prog.func("functions.gen." + name)
            it = lamdom.Interp(prog, fi, ranks={"Fn": 2, "Xi": 2, "tol": 0}).run()
            ones = [st for st in it.stores if isinstance(st["value"], lamdom.Lam) and isinstance(st["value"].body, ast.Constant) and st["value"].body.value == 1]
            if len(ones) != 1 or not isinstance(ones[0]["index"][0], lamdom.Lam):
                fails.append(f"lamdom: {name}: store of 1 not reached ({len(ones)})")
                continue
            row = astq.src(ones[0]["index"][0].body)
            txt = sorted(_re.sub(r"\b" + _re.escape(row) + r"\b", "ROW", astq.src(c, 400)) for c, pol in ones[0]["path"] if pol and "tol" in astq.src(c, 400))
            conds[name] = txt
        if conds.get("sc_loop") and conds.get("sc_loop") != conds.get("sc_vec"):
            fails.append(f"lamdom: loop and vectorised spelling lower differently: {conds.get('sc_loop')} vs {conds.get('sc_vec')}")
        if conds.get("sc_vec_bad") and conds.get("sc_vec_bad") == conds.get("sc_loop"):
            fails.append("lamdom: broken vectorisation not distinguished")
        # rules that match nothing in the library today: each must fire on its broken example and hold on the sound one
        from .report import Run
        from . import effects, seqsig

        def verdicts(fn, quals):
            r_ = Run("C00", "quick", 0)
            r_.rule("R", "x", 0)
            fn(prog.raw if fn in (astq.repeated_option_rule, effects.alias_inplace_rule, astq.orientation_guess_rule, effects.consumed_in_loop_rule, astq.empty_selection_rule,
                                  astq.falsy_default_rule) else prog, r_, "R", ["pyoma2.functions.gen." + q_ for q_ in quals])
            return [o.status for o in r_.obs]
        for rule_fn, good, bad in ((astq.shortcut_rule, "pick_ok", "pick_bad"), (astq.inherited_dtype_rule, "typed_ok", "typed_bad"),
                                   (astq.repeated_option_rule, "opt_ok", "opt_bad"), (effects.shared_state_rule, "memo_ok", "memo_bad")):
            n += 1
            vg, vb = verdicts(rule_fn, [good]), verdicts(rule_fn, [bad])
            if "violated" in vg or "undecided" in vg:
                fails.append(f"{rule_fn.__name__}: sound example {good} -> {vg}")
            if "violated" not in vb:
                fails.append(f"{rule_fn.__name__}: broken example {bad} -> {vb}")
        for rule_fn, good, bad in ((astq.orientation_guess_rule, "turn_ok", "turn_bad"), (effects.alias_inplace_rule, "twice_ok", "twice_bad"),
                                   (effects.consumed_in_loop_rule, "take_ok", "take_bad"), (astq.empty_selection_rule, "sel_ok", "sel_bad"),
                                   (astq.falsy_default_rule, "crit_ok", "crit_bad")):
            n += 1
            vg, vb = verdicts(rule_fn, [good]), verdicts(rule_fn, [bad])
            if "violated" in vg or "undecided" in vg:
                fails.append(f"{rule_fn.__name__}: sound example {good} -> {vg}")
            if "violated" not in vb:
                fails.append(f"{rule_fn.__name__}: broken example {bad} -> {vb}")
        n += 1
        r_ = Run("C00", "quick", 0)
        r_.rule("R", "x", 0)
        effects.memo_rule(prog.raw, r_, "R", ["pyoma2.functions.gen"])
        kept = {o.fn.split(".")[-2]: o.status for o in r_.obs if ".Keep" in o.fn}
        if kept != {"KeepBad": "violated", "KeepOk": "holds"}:
            fails.append(f"memo_rule: {kept}")
        n += 1
        roles = {}
        for name in ("eig_ok", "eig_bad"):
            fi = prog.func("functions.gen." + name)
            dot = [c for c in ast.walk(fi.node) if isinstance(c, ast.Call) and astq.src(c.func) == "np.dot"][0]
            roles[name] = astq.eig_output_role(prog, fi, astq.expr_at(fi, dot, dot.args[1]))
        if roles != {"eig_ok": "vr", "eig_bad": "vl"}:
            fails.append(f"eig_output_role: {roles}")
        n += 1
        flows = {}
        for name in ("keep_order", "lose_order"):
            fi = prog.func("functions.gen." + name)
            ret = [x for x in ast.walk(fi.node) if isinstance(x, ast.Return)][0]
            flows[name] = seqsig.order_flow(prog, fi, ret.value, {"lists"})
        if flows != {"keep_order": "kept", "lose_order": "lost"}:
            fails.append(f"order_flow: {flows}")
        # an either-or of different degrees (undecided branch) is not a sum
        n += 1
        from . import absint
        j = absint.join(absint.D(0, g=2), absint.D(0, g=2, s=1))
        if not absint.is_may(j) or absint.is_may(absint.add(absint.D(0, g=2), absint.D(0, g=2, s=1))):
            fails.append(f"absint: join / sum of different degrees not told apart: {j!r}")
        # items of a container are all there (?part, a definite mixture for the container as a whole); ONE element taken out is one of them (?alt)
        n += 1
        box = absint.num(absint.Lst([absint.D(1, g=1), absint.D(1, g=-1)]))
        one = absint.elem(box)
        if absint.is_may(box) or len(box.sup) != 2 or not absint.is_may(one):
            fails.append(f"absint: container union / element extraction: {box!r} -> {one!r}")
        # polynomial substitution under atoms
        n += 1
        from .poly import P_div
        w = P_div(P.c(1), P.s("Ndat") - P.s("k"))
        w2 = seqdom.psubs(w, "k", P.s("br") + P.s("i") - P.s("c"))
        L = P.s("Ndat") - P.s("br") - P.s("i") + P.s("c")
        from .poly import atom_of
        if atom_of(w2, -1) is None or not (atom_of(w2, -1) == L):
            fails.append(f"poly: substitution under an inverse: {w2!r}")
        # spelling pass of the normaliser: one form per operation; a loop variable that is read after its loop keeps the loop
        n += 1
        want_sp = "out = [X.T[i] for i in range(0, n) if i > 0]\nreturn out"
        for name in ("sp_a", "sp_b"):
            body = [b for b in prog.func("functions.gen." + name).node.body if not (isinstance(b, ast.Expr) and isinstance(b.value, ast.Constant))]
            got = "\n".join(ast.unparse(b) for b in body)
            if got != want_sp:
                fails.append(f"desugar spelling: {name} -> {got!r}")
        if not any(isinstance(b, ast.For) for b in prog.func("functions.gen.sp_keep").node.body):
            fails.append("desugar spelling: a loop whose variable is read afterwards was turned into a comprehension")
    finally:
        astq.PROG = old
    return n, fails
