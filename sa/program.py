"""E1 - resolved program model of the package under /repo/src/pyoma2 (ast only, nothing is imported).

Program(root, overrides) parses every module, builds per-module import tables, the class hierarchy
(bases through Generic[...] subscripts), MRO-based method / class-attribute lookup and a resolved
call graph.  `overrides` maps module names to replacement source text or ast trees (used by the
thorough-tier self-test to analyse mutated copies in memory; /repo is never written).
"""
import ast
import copy
import pathlib

PKG = "pyoma2"
DEFAULT_ROOT = pathlib.Path("/repo/src/pyoma2")


class AnalysisError(Exception):
    """anchor lost / construct outside the modelled language: the checker cannot decide."""


class Ext:
    """a name resolved outside the package (numpy, scipy, builtins...)"""
    __slots__ = ("name",)

    def __init__(self, name):
        self.name = name

    def __repr__(self):
        return f"Ext<{self.name}>"

    def __eq__(self, o):
        return isinstance(o, Ext) and o.name == self.name

    def __hash__(self):
        return hash(("Ext", self.name))


class ModRef:
    __slots__ = ("name",)

    def __init__(self, name):
        self.name = name

    def __repr__(self):
        return f"Mod<{self.name}>"


class FuncInfo:
    def __init__(self, mod, node, cls=None, parent=None):
        self.mod = mod
        self.node = node
        self.cls = cls  # ClassInfo or None
        self.parent = parent
        self.qual = (cls.qual + "." if cls else mod + ".") + node.name
        self.is_property = False
        self.is_static = False
        self.is_classmethod = False

    @property
    def short(self):
        return self.qual[len(PKG) + 1:]

    def __repr__(self):
        return f"Fn<{self.qual}>"


class ClassInfo:
    def __init__(self, mod, node):
        self.mod = mod
        self.node = node
        self.qual = mod + "." + node.name
        self.methods = {}
        self.setters = {}
        self.attrs = {}  # class-level assignments name -> value expr
        self.fields = []  # annotated class-level names, in order (the fields of a pydantic model)

    def __repr__(self):
        return f"Cls<{self.qual}>"


class Module:
    def __init__(self, name, path, src, tree):
        self.name = name
        self.path = path
        self.src = src
        self.tree = tree
        self.env = None


def _strip_docstrings(tree):
    return tree


class Program:
    def __init__(self, root=DEFAULT_ROOT, overrides=None, as_written=False):
        self.as_written = as_written
        self._raw = None
        self.root = pathlib.Path(root)
        self.mods = {}
        self.functions = {}
        self.classes = {}
        self.parse_errors = []
        overrides = overrides or {}
        if not self.root.is_dir():
            raise AnalysisError(f"package root {self.root} not found")
        for p in sorted(self.root.rglob("*.py")):
            parts = list(p.relative_to(self.root).with_suffix("").parts)
            is_pkg = parts and parts[-1] == "__init__"
            if is_pkg:
                parts = parts[:-1]
            name = ".".join([PKG] + parts)
            try:
                if name in overrides:
                    o = overrides[name]
                    if isinstance(o, str):
                        src, tree = o, ast.parse(o)
                    else:
                        tree = o
                        src = ast.unparse(o)
                else:
                    src = p.read_text()
                    tree = ast.parse(src)
            except SyntaxError as e:
                self.parse_errors.append((str(p), str(e)))
                continue
            m = Module(name, str(p), src, tree)
            m.is_pkg = is_pkg
            self.mods[name] = m
        if self.parse_errors:
            raise AnalysisError(f"modules failed to parse: {self.parse_errors}")
        # static metaprogramming (name tuples, dict(zip()), ** option dicts, setattr loops, record-passing helpers) is
        # evaluated away once, for all engines (sa/desugar.py); VERIF_NODESUGAR=1 analyses the trees as written
        from . import desugar
        if as_written:
            self.desugar_stats, self.desugarer = {}, None
            for m in self.mods.values():
                # one spelling per operation, and a function that only hands its parameters on IS the function it hands them to
                desugar._alias_prepass(m.tree)          # (a second name for a parameter: `x = p` with neither re-bound)
                desugar._thin_wrappers(desugar._Spelling(m.tree).visit(m.tree))
                ast.fix_missing_locations(m.tree)
        else:
            self.desugar_stats = desugar.desugar({k: m.tree for k, m in self.mods.items()})
            self.desugarer = self.desugar_stats.pop("_desugarer", None)
        for m in self.mods.values():
            self._index(m)
        self._callgraph = None

    @property
    def raw(self):
        """the same sources indexed AS WRITTEN (no helper written out at its calls, no table folded): for rules about the calls themselves"""
        if self.as_written:
            return self
        if self._raw is None:
            self._raw = Program(self.root, overrides={k: m.src for k, m in self.mods.items()}, as_written=True)
        return self._raw

    # ------------------------------------------------------------------ indexing
    def _index(self, m):
        env = {}
        m.env = env
        for n in m.tree.body:
            self._index_stmt(m, n, env)

    def _index_stmt(self, m, n, env):
        if isinstance(n, ast.Import):
            for al in n.names:
                if al.asname:
                    env[al.asname] = self._modref(al.name)
                else:
                    top = al.name.split(".")[0]
                    env[top] = self._modref(top)
        elif isinstance(n, ast.ImportFrom):
            base = n.module or ""
            if n.level:
                pkg = m.name.split(".")
                if not m.is_pkg:
                    pkg = pkg[:-1]
                pkg = pkg[: len(pkg) - (n.level - 1)]
                base = ".".join(pkg + ([n.module] if n.module else []))
            for al in n.names:
                full = base + "." + al.name
                nm = al.asname or al.name
                if full in self._modnames():
                    env[nm] = ModRef(full)
                elif base in self._modnames():
                    env[nm] = ("deferred", base, al.name)
                else:
                    env[nm] = Ext(full)
        elif isinstance(n, (ast.FunctionDef, ast.AsyncFunctionDef)):
            fi = FuncInfo(m.name, n)
            env[n.name] = fi
            self.functions[fi.qual] = fi
        elif isinstance(n, ast.ClassDef):
            ci = ClassInfo(m.name, n)
            env[n.name] = ci
            self.classes[ci.qual] = ci
            for b in n.body:
                if isinstance(b, (ast.FunctionDef, ast.AsyncFunctionDef)):
                    fi = FuncInfo(m.name, b, cls=ci)
                    decos = [ast.unparse(d) for d in b.decorator_list]
                    fi.is_property = "property" in decos
                    fi.is_static = "staticmethod" in decos
                    fi.is_classmethod = "classmethod" in decos
                    if any(d.endswith((".setter", ".deleter")) for d in decos):
                        ci.setters[b.name] = fi
                        self.functions[fi.qual + ".setter"] = fi
                        continue
                    ci.methods[b.name] = fi
                    self.functions[fi.qual] = fi
                elif isinstance(b, ast.Assign):
                    for t in b.targets:
                        if isinstance(t, ast.Name):
                            ci.attrs[t.id] = b.value
                elif isinstance(b, ast.AnnAssign) and isinstance(b.target, ast.Name):
                    ci.fields.append(b.target.id)           # annotated names: the fields of a (pydantic) model
                    if b.value is not None:
                        ci.attrs[b.target.id] = b.value
        elif isinstance(n, ast.Assign):
            for t in n.targets:
                if isinstance(t, ast.Name):
                    env[t.id] = ("global", n.value, m.name)
        elif isinstance(n, ast.AnnAssign) and isinstance(n.target, ast.Name) and n.value is not None:
            env[n.target.id] = ("global", n.value, m.name)
        elif isinstance(n, ast.If):
            # `if typing.TYPE_CHECKING:` blocks and the like: index both branches
            for s in n.body + n.orelse:
                self._index_stmt(m, s, env)
        elif isinstance(n, ast.Try):
            for s in n.body:
                self._index_stmt(m, s, env)

    def _modnames(self):
        if not hasattr(self, "_mn"):
            self._mn = set()
            for p in sorted(self.root.rglob("*.py")):
                parts = list(p.relative_to(self.root).with_suffix("").parts)
                if parts and parts[-1] == "__init__":
                    parts = parts[:-1]
                self._mn.add(".".join([PKG] + parts))
        return self._mn

    def _modref(self, name):
        if name in self._modnames():
            return ModRef(name)
        return Ext(name)

    # ------------------------------------------------------------------ lookup
    def lookup(self, modname, name, _depth=0):
        m = self.mods.get(modname)
        if m is None or _depth > 8:
            return None
        v = m.env.get(name)
        if isinstance(v, tuple) and v[0] == "deferred":
            r = self.lookup(v[1], v[2], _depth + 1)
            return r if r is not None else Ext(v[1] + "." + v[2])
        return v

    def func(self, qual):
        """qual relative to the package, e.g. 'functions.ssi.build_hank' or 'algorithms.ssi.SSIdat.run'"""
        q = PKG + "." + qual
        f = self.functions.get(q)
        if f is None:
            raise AnalysisError(f"anchor lost: function {q} not found")
        return f

    def cls(self, qual):
        q = PKG + "." + qual
        c = self.classes.get(q)
        if c is None:
            raise AnalysisError(f"anchor lost: class {q} not found")
        return c

    def bases(self, ci):
        out = []
        for b in ci.node.bases:
            bn = b
            while isinstance(bn, ast.Subscript):
                bn = bn.value
            r = None
            if isinstance(bn, ast.Name):
                r = self.lookup(ci.mod, bn.id)
            elif isinstance(bn, ast.Attribute):
                r = self.resolve_expr(ci.mod, bn)
            if isinstance(r, ClassInfo):
                out.append(r)
        return out

    def mro(self, ci):
        # linearisation good enough for single/diamond-free hierarchies: depth-first, first occurrence
        out = []

        def rec(c):
            if c in out:
                return
            out.append(c)
            for b in self.bases(c):
                rec(b)
        rec(ci)
        return out

    def find_method(self, ci, name, after=None):
        """method `name` along the MRO; with after=cls start after that class (super())."""
        seq = self.mro(ci)
        if after is not None:
            seq = seq[seq.index(after) + 1:] if after in seq else []
        for c in seq:
            if name in c.methods:
                return c.methods[name]
        return None

    def find_classattr(self, ci, name):
        for c in self.mro(ci):
            if name in c.attrs:
                return c, c.attrs[name]
        return None, None

    def subclasses(self, ci):
        return [c for c in self.classes.values() if ci in self.mro(c)]

    def resolve_expr(self, modname, e):
        """resolve a Name / dotted Attribute expression at module level to FuncInfo/ClassInfo/ModRef/Ext"""
        if isinstance(e, ast.Name):
            return self.lookup(modname, e.id)
        if isinstance(e, ast.Attribute):
            base = self.resolve_expr(modname, e.value)
            if isinstance(base, ModRef):
                r = self.lookup(base.name, e.attr)
                if r is None and (base.name + "." + e.attr) in self.mods:
                    return ModRef(base.name + "." + e.attr)
                return r
            if isinstance(base, Ext):
                return Ext(base.name + "." + e.attr)
            if isinstance(base, ClassInfo):
                f = self.find_method(base, e.attr)
                return f
        return None

    # ------------------------------------------------------------------ call resolution
    def resolve_call(self, fi, call):
        """Resolve the callee of `call` occurring inside function `fi`.
        Returns FuncInfo | ClassInfo | Ext | None (unresolved: local variable, attribute of a value...)."""
        f = call.func
        if isinstance(f, ast.Name):
            if self._is_local(fi, f.id):
                return None
            r = self.lookup(fi.mod, f.id)
            if r is None:
                return Ext(f.id)
            return r
        if isinstance(f, ast.Attribute):
            # self.method(...)
            if isinstance(f.value, ast.Name) and f.value.id in ("self", "cls") and fi.cls is not None:
                m = self.find_method(fi.cls, f.attr)
                if m is not None:
                    return m
                c, v = self.find_classattr(fi.cls, f.attr)
                if v is not None:
                    r = self.resolve_expr(c.mod, v) if isinstance(v, (ast.Name, ast.Attribute)) else None
                    return r
                return None
            # super().method(...)
            if isinstance(f.value, ast.Call) and isinstance(f.value.func, ast.Name) and f.value.func.id == "super" and fi.cls is not None:
                return self.find_method(fi.cls, f.attr, after=fi.cls)
            if isinstance(f.value, ast.Name) and self._is_local(fi, f.value.id):
                ci = self.param_class(fi, f.value.id)
                if ci is not None:
                    return self.find_method(ci, f.attr)
                return None
            return self.resolve_expr(fi.mod, f)
        return None

    def param_class(self, fi, name):
        """the package class a parameter is annotated with (`def helper(algo: FDD)`), when the parameter is never re-bound"""
        a = fi.node.args
        for x in a.posonlyargs + a.args + a.kwonlyargs:
            if x.arg == name and x.annotation is not None:
                if any(isinstance(n, ast.Name) and n.id == name and isinstance(n.ctx, ast.Store) for n in ast.walk(fi.node)):
                    return None
                ann = x.annotation
                if isinstance(ann, ast.Constant) and isinstance(ann.value, str):
                    try:
                        ann = ast.parse(ann.value, mode="eval").body
                    except SyntaxError:
                        return None
                if isinstance(ann, ast.Subscript):
                    ann = ann.value
                if isinstance(ann, (ast.Name, ast.Attribute)):
                    try:
                        r = self.resolve_expr(fi.mod, ann)
                    except Exception:
                        r = None
                    if isinstance(r, ClassInfo):
                        return r
        return None

    def _is_local(self, fi, name):
        loc = getattr(fi, "_locals", None)
        if loc is None:
            loc = set()
            a = fi.node.args
            for x in a.posonlyargs + a.args + a.kwonlyargs:
                loc.add(x.arg)
            if a.vararg:
                loc.add(a.vararg.arg)
            if a.kwarg:
                loc.add(a.kwarg.arg)
            for n in ast.walk(fi.node):
                if isinstance(n, ast.Name) and isinstance(n.ctx, ast.Store):
                    loc.add(n.id)
                elif isinstance(n, (ast.FunctionDef, ast.ClassDef)) and n is not fi.node:
                    loc.add(n.name)
            fi._locals = loc
        return name in loc

    def exact_method(self, ci, name):
        """method `name` of class ci as executed by an instance of EXACTLY that class (class-level tables and helper methods resolved
        for ci, whatever its subclasses re-define) - for rules that are stated per algorithm class.  A FuncInfo whose class is ci;
        the plain method when it is defined in another module than ci or cannot be specialised"""
        cache = self.__dict__.setdefault("_exact", {})
        key = (ci.qual, name)
        if key in cache:
            return cache[key]
        base = self.find_method(ci, name)
        out = base
        d = getattr(self, "desugarer", None)
        if base is not None and d is not None and base.mod == ci.mod and not getattr(base, "is_static", False):
            node = d.exact(ci.mod, ci.node, name)
            if node is not None:
                out = FuncInfo(base.mod, node, cls=ci)
                out.is_property, out.is_static, out.is_classmethod = base.is_property, base.is_static, base.is_classmethod
                out.generic = base
        cache[key] = out
        return out

    def model_fields(self, ci, attr):
        """field names of the (pydantic) model class that class ci names in its class-level attribute `attr` (RunParamCls / ResultCls),
        inherited fields included; None when that class is not found in the package"""
        c, v = self.find_classattr(ci, attr)
        if v is None:
            return None
        try:
            r = self.resolve_expr(c.mod, v)
        except Exception:
            return None
        if not isinstance(r, ClassInfo):
            return None
        out = []
        for k in reversed(self.mro(r)):
            for f_ in k.fields:
                if f_ not in out:
                    out.append(f_)
        return out

    def class_methods(self, prefix, name):
        """(class, method `name` as an instance of exactly that class executes it) for the classes of the modules under `prefix`: every
        class that defines the method, and every class that inherits it but sees it differently (other class-level tables / helper
        methods)"""
        out = []
        for ci in self.classes.values():
            if not ci.mod.startswith(prefix):
                continue
            base = self.find_method(ci, name)
            if base is None:
                continue
            ex = self.exact_method(ci, name)
            if name in ci.methods:
                out.append((ci, ex))
                continue
            if base.cls is not None and base.cls.mod.startswith(prefix) and ex is not base:
                ref = self.exact_method(base.cls, name)
                if ast.dump(ex.node) != ast.dump(ref.node):
                    out.append((ci, ex))
        return out

    def calls_in(self, fi):
        """[(call node, resolved)] for every call expression in fi (nested defs included)."""
        out = []
        for n in ast.walk(fi.node):
            if isinstance(n, ast.Call):
                out.append((n, self.resolve_call(fi, n)))
        return out

    def callgraph(self):
        if self._callgraph is None:
            g = {}
            for q, fi in self.functions.items():
                s = set()
                for _, r in self.calls_in(fi):
                    if isinstance(r, FuncInfo):
                        s.add(r.qual)
                    elif isinstance(r, ClassInfo):
                        init = self.find_method(r, "__init__")
                        if init is not None:
                            s.add(init.qual)
                g[q] = s
            self._callgraph = g
        return self._callgraph

    def reachable(self, quals, virtual=True):
        """package functions reachable from the given qualified names (self.m dispatch widened to
        overrides in subclasses when virtual=True)."""
        g = self.callgraph()
        seen = set()
        work = list(quals)
        while work:
            q = work.pop()
            if q in seen or q not in g:
                continue
            seen.add(q)
            work.extend(g[q])
        return seen

    def stats(self):
        ncalls = 0
        nres = 0
        for fi in self.functions.values():
            for _, r in self.calls_in(fi):
                ncalls += 1
                if r is not None:
                    nres += 1
        return {"modules": len(self.mods), "classes": len(self.classes), "functions": len(self.functions),
                "call_sites": ncalls, "call_sites_resolved": nres}

    # ------------------------------------------------------------------ mutation support
    def clone_with(self, overrides):
        return Program(self.root, overrides)

    def tree_copy(self, modname):
        return copy.deepcopy(self.mods[modname].tree)


def rel(path):
    p = str(path)
    i = p.find("src/pyoma2")
    return p[i:] if i >= 0 else p
