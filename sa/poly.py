from fractions import Fraction as Fr
class P:
    """multivariate Laurent polynomial over Fractions: dict monomial(tuple of (sym,exp)) -> coef"""
    def __init__(self, t=None):
        self.t = {k: v for k, v in (t or {}).items() if v != 0}
    @staticmethod
    def c(v): return P({(): Fr(v)})
    @staticmethod
    def s(name): return P({((name, 1),): Fr(1)})
    def __add__(a, b):
        b = P.lift(b); d = dict(a.t)
        for k, v in b.t.items(): d[k] = d.get(k, 0) + v
        return P(d)
    __radd__ = __add__
    def __neg__(a): return P({k: -v for k, v in a.t.items()})
    def __sub__(a, b): return a + (-P.lift(b))
    def __rsub__(a, b): return P.lift(b) - a
    def __mul__(a, b):
        b = P.lift(b); d = {}
        for k1, v1 in a.t.items():
            for k2, v2 in b.t.items():
                m = dict(k1)
                for s, e in k2: m[s] = m.get(s, 0) + e
                k = tuple(sorted((s, e) for s, e in m.items() if e != 0))
                d[k] = d.get(k, 0) + v1 * v2
        return P(d)
    __rmul__ = __mul__
    @staticmethod
    def lift(x): return x if isinstance(x, P) else P.c(x)
    def __eq__(a, b): return (a - P.lift(b)).t == {}
    def __hash__(a): return hash(tuple(sorted(a.t.items())))
    def is_const(a): return all(k == () for k in a.t)
    def const(a): return a.t.get((), Fr(0))
    def subs(a, name, val):
        out = P()
        for k, v in a.t.items():
            term = P.c(v)
            for s, e in k:
                base = val if s == name else P.s(s)
                if s != name:
                    term = term * P({((s, e),): Fr(1)})
                    continue
                assert e >= 0 and e == int(e)
                for _ in range(int(e)): term = term * base
            out = out + term
        return out
    def __repr__(a):
        if not a.t: return "0"
        def mon(k, v):
            m = "*".join(s if e == 1 else f"{s}^{e}" for s, e in k)
            if not m: return str(v)
            return m if v == 1 else (f"-{m}" if v == -1 else f"{v}*{m}")
        return " + ".join(mon(k, v) for k, v in sorted(a.t.items())).replace("+ -", "- ")


ATOMS = {}


def atom(b):
    """an opaque symbol standing for the (non-monomial) polynomial b, so that 1/b and b**0.5 stay representable"""
    name = "(" + repr(b) + ")"
    ATOMS[name] = b
    return name


def atom_of(p, exponent):
    """if p == atom(b)**exponent (coefficient 1) return b, else None"""
    if len(p.t) != 1:
        return None
    (k, v), = p.t.items()
    if v != 1 or len(k) != 1 or k[0][1] != exponent or k[0][0] not in ATOMS:
        return None
    return ATOMS[k[0][0]]


def P_div(a, b):
    """a / b: Laurent division when b is a single monomial, else a * atom(b)^-1"""
    b = P.lift(b)
    if len(b.t) == 0:
        return None
    if len(b.t) != 1:
        return P.lift(a) * P({((atom(b), Fr(-1)),): Fr(1)})
    (k, v), = b.t.items()
    invm = P({tuple((s, -e) for s, e in k): Fr(1) / v})
    return P.lift(a) * invm


def P_pow(a, n):
    a = P.lift(a)
    if n == int(n) and n >= 0:
        r = P.c(1)
        for _ in range(int(n)):
            r = r * a
        return r
    if len(a.t) == 1:
        (k, v), = a.t.items()
        if n == int(n):
            return P({tuple((s, e * int(n)) for s, e in k): v ** int(n)})
        if v == 1:
            return P({tuple((s, e * Fr(n).limit_denominator(64)) for s, e in k): Fr(1)})
    if a.t:
        return P({((atom(a), Fr(n).limit_denominator(64)),): Fr(1)})
    return None


def as_fraction(p):
    """(numerator, denominator) polynomials free of atoms and negative exponents such that p = numerator / denominator;
    None if p contains a fractional exponent"""
    p = P.lift(p)
    # common denominator: for every symbol the most negative exponent over all monomials
    neg = {}
    for mono in p.t:
        for s_, e in mono:
            if e != int(e):
                return None
            if e < 0:
                neg[s_] = max(neg.get(s_, 0), int(-e))
    den = P.c(1)
    for s_, k in neg.items():
        base = ATOMS[s_] if s_ in ATOMS else P.s(s_)
        for _ in range(k):
            den = den * base
    num = P()
    for mono, coef in p.t.items():
        term = P.c(coef)
        have = dict(mono)
        for s_ in set(list(have) + list(neg)):
            e = int(have.get(s_, 0)) + neg.get(s_, 0)
            base = ATOMS[s_] if s_ in ATOMS else P.s(s_)
            for _ in range(e):
                term = term * base
        num = num + term
    # atoms may themselves contain atoms: expand once more if needed
    if any(s_ in ATOMS for mono in list(num.t) + list(den.t) for s_, e in mono):
        n2, d2 = as_fraction(num), as_fraction(den)
        if n2 is None or d2 is None:
            return None
        return n2[0] * d2[1], n2[1] * d2[0]
    return num, den


def ratio_equal(a, b):
    """a == b as rational functions (atoms expanded); None if not decidable"""
    fa, fb = as_fraction(a), as_fraction(b)
    if fa is None or fb is None:
        return None
    return fa[0] * fb[1] == fb[0] * fa[1]
