"""Symbolic sequence interpreter ("which channel ends up in which row").

A function is interpreted once, with loops summarised symbolically, in a domain whose values are *sequence terms*:

    ("row", s, j)            channel j of setup s                       (s, j integer polynomials, sa/poly.P)
    ("int", j)               the integer j itself (an index list)
    ("fmt", parts)           a formatted string whose holes are integer polynomials
    ("ex", text)             any other single element
    ("blk", t)               an element that is itself a sequence (a block queued in a list of blocks)
    ("dct", ((key, t), ..))  a dict literal element
    ("cat", (t, ...))        concatenation
    ("for", v, lo, hi, t)    concatenation of t for v = lo .. hi-1 (ascending, step 1)
    ("forin", v, dom, t)     concatenation of t for v running over the elements of the index list dom, in listed order
    ("if", cond, t)          t if cond else nothing;  cond = ("in"|"notin", x, dom) | ("c", text)
    ("minus", t, d)          t with the elements of d removed (list.remove)
    ("sorted", t) ("rev", t) ("prev", name) ("opq", why)

dom = ("ref", s) the reference-index list of setup s | ("sorted", dom) | ("lst", text).

The interpreter understands the list idioms (append / extend / += / insert / remove / comprehension / generator), the numpy
idioms that select or join rows (fancy indexing, boolean masks from isin, delete, setdiff1d, concatenate / hstack / vstack / append)
and treats element-wise operations as order preserving.  Package helpers are interpreted inter-procedurally.  Anything else
becomes ("opq", ..): a term containing it is *undecided*, never a violation.  `normalise` brings terms to a canonical form
(loop peeling absorbed, remove-loops turned into filters, index loops over a list turned into element loops) so that
independently written implementations of one order compare equal."""
import ast
import copy
import itertools
import re

from . import astq
from .poly import P
from .program import FuncInfo

CONCAT = {"numpy.concatenate", "numpy.hstack", "numpy.vstack", "numpy.append", "numpy.row_stack", "numpy.block"}
TRANSPARENT = {"numpy.array", "numpy.asarray", "numpy.asanyarray", "numpy.ascontiguousarray", "numpy.asfortranarray", "numpy.require", "numpy.copy", "numpy.real", "numpy.imag", "numpy.conj",
               "numpy.conjugate", "numpy.abs", "numpy.absolute", "numpy.squeeze", "numpy.atleast_1d", "numpy.atleast_2d", "numpy.ravel", "numpy.transpose",
               "list", "tuple", "numpy.float64", "numpy.complex128", "copy.copy", "copy.deepcopy", "numpy.nan_to_num"}
TRANSPARENT_METH = {"T", "real", "imag", "values", "flat"}
TRANSPARENT_CALLM = {"reshape", "astype", "copy", "tolist", "to_numpy", "conj", "squeeze", "ravel", "flatten", "transpose", "to_list"}


# ----------------------------------------------------------------------------- values
class Val:
    pass


class E(Val):
    """opaque expression (canonical ast)"""

    def __init__(self, node):
        self.node = node

    def __repr__(self):
        return f"E({astq.src(self.node, 60)})"


class I(Val):
    """integer polynomial"""

    def __init__(self, p):
        self.p = p

    def __repr__(self):
        return f"I({self.p!r})"


class DataList(Val):
    """the list of per-setup containers; lo = offset of a leading slice D[lo:]"""

    def __init__(self, lo=P.c(0)):
        self.lo = lo


class RefLists(Val):
    def __init__(self, lo=P.c(0)):
        self.lo = lo


class Vec(Val):
    """container of setup s whose axis `axis` runs over the channels"""

    def __init__(self, s, axis, ndim):
        self.s, self.axis, self.ndim = s, axis, ndim

    def __repr__(self):
        return f"Vec(s={self.s!r}, axis={self.axis})"


class RefL(Val):
    """an index list (dom)"""

    def __init__(self, dom):
        self.dom = dom

    def __repr__(self):
        return f"RefL({self.dom})"


class Sq(Val):
    """a sequence; for a block selected from a 2-d container `axis` is the axis of the result along which the sequence runs
    (0: one element per row, 1: one element per column), None when unknown or not applicable"""

    def __init__(self, t, axis=None, ndim=None):
        self.t = t
        self.axis, self.ndim = axis, ndim

    def __repr__(self):
        return f"Sq({show(self.t)})"


class Tup(Val):
    def __init__(self, items):
        self.items = list(items)


class Dct(Val):
    def __init__(self, items):
        self.items = dict(items)


class Msk(Val):
    """boolean mask over range(n): element j is True iff (j in dom) != neg; dom None = empty set"""

    def __init__(self, n, dom, neg):
        self.n, self.dom, self.neg = n, dom, neg


class K(Val):
    """python constant"""

    def __init__(self, v):
        self.v = v

    def __repr__(self):
        return f"K({self.v!r})"


class Slc(Val):
    """a slice object built with slice(lo, hi, step): used as an index it is the slice"""

    def __init__(self, lo, hi, step):
        self.lo, self.hi, self.step = lo, hi, step

    def __repr__(self):
        return f"Slc({self.lo!r}, {self.hi!r}, {self.step!r})"


class Phi(Val):
    def __init__(self, cond, a, b):
        self.cond, self.a, self.b = cond, a, b


class Fn(Val):
    def __init__(self, fi):
        self.fi = fi


class ObjVal(Val):
    """extension point: a value of another abstract domain carried through lists and loops (must implement subs / show)"""

    def subs(self, name, val):
        return self

    def show(self):
        return type(self).__name__

    def key(self):
        return (type(self).__name__, repr(self))

    def __eq__(self, other):
        return isinstance(other, ObjVal) and self.key() == other.key()

    def __hash__(self):
        return hash(self.key())


def cat(*parts):
    out = []
    for p in parts:
        if p[0] == "cat":
            out.extend(p[1])
        else:
            out.append(p)
    return ("cat", tuple(out))


EMPTY = ("cat", ())


# ----------------------------------------------------------------------------- polynomials over index symbols
def psubs(p, name, val):
    """substitute symbol `name` by polynomial val - also inside bracketed extent symbols such as n[v1] and inside the atoms
    (opaque sub-polynomials under a negative / fractional exponent) of sa/poly.py"""
    from .poly import ATOMS, atom, P_pow
    from fractions import Fraction as Fr
    pat = re.compile(r"\b" + re.escape(name) + r"\b")
    out = P()
    for mono, coef in p.t.items():
        term = P.c(coef)
        for s, e in mono:
            if s == name:
                base = val
            elif not pat.search(s):
                base = None
            elif s in ATOMS:
                base = P.s(atom(psubs(ATOMS[s], name, val)))
                inner = psubs(ATOMS[s], name, val)
                if len(inner.t) <= 1:
                    base = inner            # a monomial needs no atom
            else:
                parts = sym_parts(s)
                if parts is not None:
                    base = P.s(parts[0] + "".join(f"[{psubs(parse_poly(x), name, val)!r}]" for x in parts[1]))
                else:
                    base = P.s(pat.sub("(" + repr(val) + ")", s))
            if base is None:
                term = term * P({((s, e),): Fr(1)})
            elif e == int(e) and e >= 0:
                for _ in range(int(e)):
                    term = term * base
            else:
                pw = P_pow(base, e)
                if pw is None:
                    return P.s(pat.sub("(" + repr(val) + ")", repr(p)))
                term = term * pw
        out = out + term
    return out


def sym_parts(s):
    """'R[v1][v2 + 1]' -> ('R', ['v1', 'v2 + 1']); None if s is not of that shape"""
    m = re.match(r"^(\w+)", s)
    if not m:
        return None
    name, rest, groups = m.group(1), s[m.end():], []
    while rest:
        if rest[0] != "[":
            return None
        depth, k = 0, 0
        for k, ch in enumerate(rest):
            depth += ch == "["
            depth -= ch == "]"
            if depth == 0:
                break
        else:
            return None
        groups.append(rest[1:k])
        rest = rest[k + 1:]
    return (name, groups) if groups else None


def parse_poly(text):
    """inverse of repr for the simple polynomials used as setup indices (v1, v1 - 1, 0, ...)"""
    try:
        node = ast.parse(text.replace("^", "**"), mode="eval").body
    except SyntaxError:
        return P.s(text)
    return _topoly(node)


def _topoly(node):
    if isinstance(node, ast.Constant) and isinstance(node.value, int) and not isinstance(node.value, bool):
        return P.c(node.value)
    if isinstance(node, ast.Name):
        return P.s(node.id)
    if isinstance(node, ast.UnaryOp) and isinstance(node.op, ast.USub):
        return -_topoly(node.operand)
    if isinstance(node, ast.BinOp) and isinstance(node.op, (ast.Add, ast.Sub, ast.Mult)):
        a, b = _topoly(node.left), _topoly(node.right)
        return a + b if isinstance(node.op, ast.Add) else a - b if isinstance(node.op, ast.Sub) else a * b
    if isinstance(node, ast.Subscript) and isinstance(node.value, ast.Name):
        return P.s(f"{node.value.id}[{_topoly(node.slice)!r}]")
    return P.s(astq.src(node, 80).replace(" ", ""))


# ----------------------------------------------------------------------------- term utilities
def tsubs(t, name, val):
    k = t[0]
    if k == "row":
        return ("row", psubs(t[1], name, val), psubs(t[2], name, val))
    if k == "int":
        return ("int", psubs(t[1], name, val))
    if k == "fmt":
        return ("fmt", tuple(x if isinstance(x, str) else psubs(x, name, val) for x in t[1]))
    if k in ("ex", "prev", "opq"):
        return t
    if k == "obj":
        return ("obj", t[1].subs(name, val))
    if k == "blk":
        return ("blk", tsubs(t[1], name, val))
    if k == "dct":
        return ("dct", tuple((kk, tsubs(v, name, val)) for kk, v in t[1]))
    if k == "cat":
        return ("cat", tuple(tsubs(x, name, val) for x in t[1]))
    if k == "for":
        return ("for", t[1], psubs(t[2], name, val), psubs(t[3], name, val), tsubs(t[4], name, val) if t[1] != name else t[4])
    if k == "forin":
        return ("forin", t[1], dsubs(t[2], name, val), tsubs(t[3], name, val) if t[1] != name else t[3])
    if k == "if":
        c = t[1]
        if c[0] in ("in", "notin"):
            c = (c[0], psubs(c[1], name, val), dsubs(c[2], name, val))
        elif c[0] == "nin":
            c = ("nin", psubs(c[1], name, val), tsubs(c[2], name, val))
        return ("if", c, tsubs(t[2], name, val))
    if k == "minus":
        return ("minus", tsubs(t[1], name, val), tsubs(t[2], name, val))
    if k in ("sorted", "rev"):
        return (k, tsubs(t[1], name, val))
    return t


def dsubs(d, name, val):
    if d is None:
        return d
    if d[0] == "ref":
        return ("ref", psubs(d[1], name, val))
    if d[0] == "sorted":
        return ("sorted", dsubs(d[1], name, val))
    return d


def walk(t):
    yield t
    k = t[0]
    if k == "cat":
        for x in t[1]:
            yield from walk(x)
    elif k == "blk":
        yield from walk(t[1])
    elif k == "dct":
        for _, v in t[1]:
            yield from walk(v)
    elif k == "for":
        yield from walk(t[4])
    elif k == "forin":
        yield from walk(t[3])
    elif k == "if":
        yield from walk(t[2])
    elif k == "minus":
        yield from walk(t[1])
        yield from walk(t[2])
    elif k in ("sorted", "rev"):
        yield from walk(t[1])


def opaque(t):
    """reasons why t is not fully recognised ([] if it is)"""
    out = []
    for x in walk(t):
        if x[0] in ("opq", "prev"):
            out.append(x[1])
        if x[0] in ("forin",) and x[2][0] == "lst":
            pass
    return out


def tmap(t, f):
    """apply f to every element leaf"""
    k = t[0]
    if k in ("row", "int", "fmt", "ex", "blk", "dct", "obj"):
        return f(t)
    if k == "cat":
        return ("cat", tuple(tmap(x, f) for x in t[1]))
    if k == "for":
        return ("for", t[1], t[2], t[3], tmap(t[4], f))
    if k == "forin":
        return ("forin", t[1], t[2], tmap(t[3], f))
    if k == "if":
        return ("if", t[1], tmap(t[2], f))
    if k == "minus":
        return ("opq", "element map over a list with removals that was not reduced to a filter")
    if k in ("sorted", "rev"):
        return (k, tmap(t[1], f))
    return t


def flatten_blocks(t):
    """concatenate the blocks of a list of blocks"""
    def f(leaf):
        if leaf[0] == "blk":
            return leaf[1]
        if leaf[0] == "row" or leaf[0] == "int":
            return leaf
        return ("opq", f"block `{show(leaf)}` joined by concatenate is not a recognised row selection")
    return tmap(t, f)


def _uses(t, name):
    pat = re.compile(r"\b" + re.escape(name) + r"\b")
    return bool(pat.search(show(t)))


def normalise(t):
    """canonical form (see module docstring)"""
    for _ in range(8):
        n = _norm(t)
        if n == t:
            break
        t = n
    return t


def _norm(t):
    k = t[0]
    if k == "cat":
        parts = []
        for x in t[1]:
            x = _norm(x)
            if x[0] == "cat":
                parts.extend(x[1])
            else:
                parts.append(x)
        # absorb a peeled first iteration:  X ; for v in lo..hi: B   with X == B[v := lo-1]
        changed = True
        while changed:
            changed = False
            for i in range(1, len(parts)):
                f = parts[i]
                if f[0] == "for" and f[2] == P.c(0):
                    prev_iter = normalise(tsubs(f[4], f[1], P.c(-1)))
                    pl = list(prev_iter[1]) if prev_iter[0] == "cat" else [prev_iter]
                    if pl and i - len(pl) >= 0 and [_alpha(x) for x in parts[i - len(pl):i]] == [_alpha(x) for x in pl]:
                        parts[i - len(pl):i + 1] = [normalise(("for", f[1], P.c(0), f[3] + 1, tsubs(f[4], f[1], P.s(f[1]) - 1)))]
                        changed = True
                        break
        if len(parts) == 1:
            return parts[0]
        return ("cat", tuple(parts))
    if k == "blk":
        return ("blk", _norm(t[1]))
    if k == "dct":
        return ("dct", tuple((kk, _norm(v)) for kk, v in t[1]))
    if k == "for":
        v, lo, hi, body = t[1], t[2], t[3], _norm(t[4])
        if body == EMPTY:
            return EMPTY
        if lo != P.c(0):
            return _norm(("for", v, P.c(0), hi - lo, tsubs(body, v, P.s(v) + lo)))
        # shift to a zero-based loop when the lower bound is a non-zero constant and the upper bound is lo + extent (REF1..REFk)
        # index loop over a list  ->  element loop:  for v in 0..len(L): ..L[v]..   (only uses of v are L[v])
        if lo == P.c(0):
            m = re.match(r"^r\[(.*)\]$", repr(hi))
            if m:
                s = parse_poly(m.group(1))
                sym = f"R[{s!r}][{v}]"
                txt = show(body)
                if f"R[{s!r}][{v}]" in txt.replace(" ", "") and not re.search(r"\b" + v + r"\b", txt.replace(sym, "")):
                    c = "c" + v[1:]
                    return ("forin", c, ("ref", s), tsubs_sym(body, sym, c))
        return ("for", v, lo, hi, body)
    if k == "forin":
        body = _norm(t[3])
        if body == EMPTY:
            return EMPTY
        return ("forin", t[1], t[2], body)
    if k == "if":
        body = _norm(t[2])
        if body == EMPTY:
            return EMPTY
        return ("if", t[1], body)
    if k == "minus":
        base, d = _norm(t[1]), _norm(t[2])
        # range minus the elements of an index list  ->  filter
        if base[0] == "for" and base[4][0] == "int" and base[4][1] == P.s(base[1]):
            doms = []
            ds = list(d[1]) if d[0] == "cat" else [d]
            ok = True
            for x in ds:
                if x[0] == "forin" and x[3] == ("int", P.s(x[1])):
                    doms.append(x[2])
                else:
                    ok = False
            if ok and doms:
                body = base[4]
                for dm in doms:
                    body = ("if", ("notin", P.s(base[1]), dm), body)
                return ("for", base[1], base[2], base[3], body)
        if base[0] == "for" and base[4][0] == "int" and base[4][1] == P.s(base[1]) and not opaque(d) and all(x[0] != "row" for x in walk(d)):
            return ("for", base[1], base[2], base[3], ("if", ("nin", P.s(base[1]), d), base[4]))
        if base[0] == "for" and base[4][0] == "if":
            inner = _norm(("minus", ("for", base[1], base[2], base[3], ("int", P.s(base[1]))), d))
            if inner[0] == "for" and base[4][2] == ("int", P.s(base[1])):
                return ("for", base[1], base[2], base[3], ("if", base[4][1], inner[4]))
        return ("minus", base, d)
    if k in ("sorted", "rev"):
        inner = _norm(t[1])
        if k == "sorted" and inner[0] == "for" and inner[4][0] in ("int", "if"):
            return inner               # an ascending range (possibly filtered) is sorted already
        if k == "sorted" and inner[0] == "forin" and inner[3] == ("int", P.s(inner[1])):
            return ("forin", inner[1], ("sorted", inner[2]), inner[3])
        return (k, inner)
    return t


def tsubs_sym(t, symtext, new):
    """replace the symbol whose name is symtext (e.g. R[v1][v2]) by the symbol `new` in every polynomial of t"""
    def ps(p):
        out = P()
        for mono, coef in p.t.items():
            term = P.c(coef)
            for s, e in mono:
                base = P.s(new) if s.replace(" ", "") == symtext else P.s(s)
                for _ in range(int(e)):
                    term = term * base
            out = out + term
        return out

    def go(t):
        k = t[0]
        if k == "row":
            return ("row", ps(t[1]), ps(t[2]))
        if k == "int":
            return ("int", ps(t[1]))
        if k == "fmt":
            return ("fmt", tuple(x if isinstance(x, str) else ps(x) for x in t[1]))
        if k == "cat":
            return ("cat", tuple(go(x) for x in t[1]))
        if k == "blk":
            return ("blk", go(t[1]))
        if k == "for":
            return ("for", t[1], ps(t[2]), ps(t[3]), go(t[4]))
        if k == "forin":
            return ("forin", t[1], t[2], go(t[3]))
        if k == "if":
            c = t[1]
            if c[0] in ("in", "notin"):
                c = (c[0], ps(c[1]), c[2])
            return ("if", c, go(t[2]))
        if k == "minus":
            return ("minus", go(t[1]), go(t[2]))
        if k in ("sorted", "rev"):
            return (k, go(t[1]))
        return t
    return go(t)


def show_dom(d):
    if d is None:
        return "{}"
    if d[0] == "ref":
        return f"R[{d[1]!r}]"
    if d[0] == "sorted":
        return f"sorted({show_dom(d[1])})"
    return d[1]


def show(t):
    k = t[0]
    if k == "row":
        return f"x[{t[1]!r}][{t[2]!r}]"
    if k == "int":
        return f"{t[1]!r}"
    if k == "fmt":
        return "'" + "".join(x if isinstance(x, str) else "{" + repr(x) + "}" for x in t[1]) + "'"
    if k == "ex":
        return f"<{t[1]}>"
    if k == "obj":
        return t[1].show()
    if k == "blk":
        return f"[{show(t[1])}]"
    if k == "dct":
        return "{" + ", ".join(f"{kk}: {show(v)}" for kk, v in t[1]) + "}"
    if k == "cat":
        return "(" + " ; ".join(show(x) for x in t[1]) + ")" if t[1] else "()"
    if k == "for":
        return f"for {t[1]} in {t[2]!r}..{t[3]!r}: {show(t[4])}"
    if k == "forin":
        return f"for {t[1]} in {show_dom(t[2])}: {show(t[3])}"
    if k == "if":
        c = t[1]
        cs = f"{c[1]!r} {'in' if c[0] == 'in' else 'not in'} {show_dom(c[2])}" if c[0] in ("in", "notin") else (f"{c[1]!r} not in [{show(c[2])}]" if c[0] == "nin" else c[1])
        return f"if {cs}: {show(t[2])}"
    if k == "minus":
        return f"({show(t[1])} minus {show(t[2])})"
    if k in ("sorted", "rev"):
        return f"{k}({show(t[1])})"
    if k == "prev":
        return f"<prev {t[1]}>"
    if k == "opq":
        return f"<?{t[1]}>"
    return repr(t)


def canon(t):
    """normalised text with bound variables renamed in order of appearance"""
    return _alpha(normalise(t))


def _alpha(t):
    s = show(t)
    names = []
    for m in re.finditer(r"\bfor ([vc]\d+) in", s):
        if m.group(1) not in names:
            names.append(m.group(1))
    for i, n in enumerate(names):
        s = re.sub(r"\b" + n + r"\b", f"@{i}", s)
    return s.replace("@", "k")


# ----------------------------------------------------------------------------- interpreter
class Stop(Exception):
    pass


class Interp:
    def __init__(self, prog, roles=None, types=None, depth=0, shared=None):
        self.prog = prog
        self.roles = roles or {}       # param -> ("data", axis, ndim) | ("refs",)
        self.types = types or {}       # param -> ("list", "list") etc.
        self.depth = depth
        sh = shared if shared is not None else {"n": itertools.count(1), "calls": [], "stores": []}
        self.sh = sh
        self.calls = sh["calls"]       # (callee qualname, {param: Val}, node, loop stack)
        self.stores = sh["stores"]     # (target name, index ast, Val, node, loop stack)
        self.loops = []
        self.returns = []

    def fresh(self, p="v"):
        return f"{p}{next(self.sh['n'])}"

    # -- entry
    def run(self, fi, args=None):
        self.fi = fi
        env = {}
        pos, kwonly, vararg, kwarg = astq.params_of(fi.node)
        a = fi.node.args
        defaults = dict(zip([x.arg for x in a.args][len(a.args) - len(a.defaults):], a.defaults))
        for p in pos + kwonly:
            if args is not None and p in args:
                env[p] = args[p]
            elif p in self.roles:
                r = self.roles[p]
                env[p] = DataList() if r[0] == "data" else RefLists()
            elif args is not None and p in defaults:
                env[p] = self.ev(defaults[p], {})
            else:
                env[p] = E(ast.Name(id=p, ctx=ast.Load()))
        self.env = env
        self.block(fi.node.body, env)
        return self.returns

    # -- statements
    def block(self, body, env):
        for s in body:
            if self.stmt(s, env):
                return True
        return False

    def stmt(self, s, env):
        if isinstance(s, ast.Return):
            self.returns.append((self.ev(s.value, env) if s.value is not None else K(None), s))
            return True
        if isinstance(s, ast.Raise):
            return True
        if isinstance(s, ast.Assign):
            v = self.ev(s.value, env)
            for t in s.targets:
                self.assign(t, v, env, s)
            return False
        if isinstance(s, ast.AnnAssign):
            if s.value is not None:
                self.assign(s.target, self.ev(s.value, env), env, s)
            return False
        if isinstance(s, ast.AugAssign):
            cur = self.ev(s.target, env) if isinstance(s.target, ast.Name) else None
            rhs = self.ev(s.value, env)
            if isinstance(s.target, ast.Name):
                if isinstance(cur, Sq) and isinstance(s.op, ast.Add):
                    env[s.target.id] = Sq(cat(cur.t, self.as_seq(rhs)))
                else:
                    env[s.target.id] = self.binop(s.op, cur, rhs, s)
            return False
        if isinstance(s, ast.Expr):
            self.ev(s.value, env)
            return False
        if isinstance(s, ast.For):
            self.loop(s, env)
            return False
        if isinstance(s, ast.If):
            return self.cond(s, env)
        if isinstance(s, (ast.With,)):
            return self.block(s.body, env)
        if isinstance(s, ast.Try):
            return self.block(s.body, env)
        if isinstance(s, (ast.Pass, ast.Assert, ast.Import, ast.ImportFrom, ast.Delete, ast.Global, ast.Nonlocal, ast.FunctionDef)):
            return False
        if isinstance(s, ast.While):
            for n in astq.assigned_names(s) if hasattr(astq, "assigned_names") else []:
                env[n] = Sq(("opq", "assigned in a while loop"))
            return False
        return False

    def assign(self, t, v, env, node):
        if isinstance(t, ast.Name):
            env[t.id] = v
        elif isinstance(t, (ast.Tuple, ast.List)):
            items = self.unpack(v, len(t.elts))
            for x, y in zip(t.elts, items):
                self.assign(x, y, env, node)
        elif isinstance(t, ast.Subscript) and isinstance(t.value, ast.Name):
            base = env.get(t.value.id)
            idx = self.ev_index(t.slice, env)
            if isinstance(base, Msk) and len(idx) == 1 and isinstance(v, K) and isinstance(v.v, bool):
                d = self.dom_of(idx[0])
                if d is not None and base.dom is None:
                    # ones: (dom None, neg True) -> all True; set E False -> j notin E.   zeros: (None, False) -> set E True -> j in E
                    if base.neg and v.v is False:
                        env[t.value.id] = Msk(base.n, d, True)
                        return
                    if not base.neg and v.v is True:
                        env[t.value.id] = Msk(base.n, d, False)
                        return
                env[t.value.id] = E(ast.Name(id=t.value.id, ctx=ast.Load()))
                return
            self.stores.append((t.value.id, t.slice, v, node, list(self.loops)))
            if isinstance(base, Sq):
                env[t.value.id] = Sq(("opq", f"element store into list `{t.value.id}`"))
        elif isinstance(t, ast.Subscript):
            self.stores.append((astq.src(t.value), t.slice, v, node, list(self.loops)))

    def unpack(self, v, n):
        if isinstance(v, Tup) and len(v.items) == n:
            return v.items
        if isinstance(v, Sq) and v.t[0] == "cat" and len(v.t[1]) == n:
            return [self.elem_val(x) for x in v.t[1]]
        if isinstance(v, E):
            return [self.esub(v, i) for i in range(n)]
        return [E(ast.Constant(value=None)) for _ in range(n)]

    def esub(self, v, i):
        node = ast.Subscript(value=v.node, slice=ast.Constant(value=i), ctx=ast.Load())
        return E(node)

    def elem_val(self, leaf):
        if leaf[0] == "obj":
            return leaf[1]
        if leaf[0] == "blk":
            return Sq(leaf[1])
        if leaf[0] == "int":
            return I(leaf[1])
        if leaf[0] == "dct":
            return Dct({k: (v[1] if v[0] == "obj" else Sq(v)) for k, v in leaf[1]})
        return Sq(leaf)

    # -- loops
    def iter_domain(self, it, env, target):
        """-> (kind, var, lo/hi or dom, bindings{name: Val}) or None"""
        binds = {}

        def bind(t, v):
            if isinstance(t, ast.Name):
                binds[t.id] = v
            elif isinstance(t, (ast.Tuple, ast.List)):
                for x, y in zip(t.elts, self.unpack(v, len(t.elts))):
                    bind(x, y)

        def elem_of(container, idx):
            """container[idx] for an iterable value"""
            if isinstance(container, DataList):
                r = [x for x in self.roles.values() if x[0] == "data"][0]
                return Vec(container.lo + idx, r[1], r[2])
            if isinstance(container, RefLists):
                return RefL(("ref", container.lo + idx))
            return None
        fn = astq.callee_name(self.prog, self.fi, it) if isinstance(it, ast.Call) else None
        if fn == "tqdm.tqdm" and it.args:
            return self.iter_domain(it.args[0], env, target)       # progress bar around the iterable
        if fn == "tqdm.trange":
            fn = "range"
        if fn == "range":
            a = [self.ev(x, env) for x in it.args]
            ps = [self.topoly(x) for x in a]
            if any(p is None for p in ps):
                return None
            lo, hi, st = (P.c(0), ps[0], P.c(1)) if len(ps) == 1 else (ps[0], ps[1], P.c(1)) if len(ps) == 2 else ps
            if st == P.c(-1):
                # descending range: position v = 0 .. lo-hi-1, value lo - v
                v = self.fresh("v")
                bind(target, I(lo - P.s(v)))
                return ("for", v, P.c(0), lo - hi, binds)
            if st != P.c(1):
                return None
            v = self.fresh("v")
            bind(target, I(P.s(v)))
            return ("for", v, lo, hi, binds)
        if fn == "enumerate" and it.args and isinstance(it.args[0], ast.Call) and astq.callee_name(self.prog, self.fi, it.args[0]) == "zip" \
                and isinstance(target, (ast.Tuple, ast.List)) and len(target.elts) == 2:
            # enumerate(zip(a, b)): the zip as usual, plus the position
            inner = self.iter_domain(it.args[0], env, target.elts[1])
            if inner is None or inner[0] != "for":
                return None
            st = astq.kwarg(it, "start", 1)
            start = self.topoly(self.ev(st, env)) if st is not None else P.c(0)
            if start is None:
                return None
            b2 = dict(inner[4])
            if isinstance(target.elts[0], ast.Name):
                b2[target.elts[0].id] = I(P.s(inner[1]) - inner[2] + start)
            return ("for", inner[1], inner[2], inner[3], b2)
        if fn in ("enumerate", "zip"):
            args = [self.ev(x, env) for x in it.args]
            start = P.c(0)
            if fn == "enumerate":
                st = astq.kwarg(it, "start", 1)
                if st is not None:
                    start = self.topoly(self.ev(st, env))
                    if start is None:
                        return None
                args = args[:1]
            v = self.fresh("v")
            doms = []
            vals = []
            for a in args:
                d = self.seq_domain(a)
                if d is None:
                    return None
                doms.append(d)
            # all iterated jointly with one index v running over lo..hi of the first; element k = container[v - lo_k + ...]
            kind0 = doms[0]
            if any(d[0] != "idx" for d in doms):
                if len(doms) == 1 and doms[0][0] == "forin":
                    c = self.fresh("c")
                    if fn == "enumerate":
                        return None      # position and element of an index list together: not needed so far
                    return None
                return None
            lo0, hi0 = kind0[1], kind0[2]
            for d in doms:
                vals.append(d[3](P.s(v) - lo0 + d[1]))
            if fn == "enumerate":
                item = Tup([I(P.s(v) - lo0 + start), vals[0]])
            else:
                item = Tup(vals)
            bind(target, item)
            return ("for", v, lo0, hi0, binds)
        val = self.ev(it, env)
        d = self.seq_domain(val)
        if d is None:
            return None
        if d[0] == "idx":
            v = self.fresh("v")
            bind(target, d[3](P.s(v)))
            return ("for", v, d[1], d[2], binds)
        if d[0] == "forin":
            c = self.fresh("c")
            bind(target, I(P.s(c)))
            return ("forin", c, d[1], None, binds)
        if d[0] == "term":
            return ("term", d[1], None, None, target)
        return None

    def seq_domain(self, val):
        """how a value is iterated: ("idx", lo, hi, elem(indexpoly)->Val) | ("forin", dom) | ("term", t)"""
        if isinstance(val, DataList):
            r = [x for x in self.roles.values() if x[0] == "data"][0]
            return ("idx", val.lo, P.s("N"), lambda i: Vec(i, r[1], r[2]))
        if isinstance(val, RefLists):
            return ("idx", val.lo, P.s("N"), lambda i: RefL(("ref", i)))
        if isinstance(val, RefL):
            return ("forin", val.dom)
        if isinstance(val, Vec) and val.axis == 0:
            return ("idx", P.c(0), P.s(f"n[{val.s!r}]"), lambda i, val=val: Sq(("row", val.s, i)) if val.ndim == 1 else Sq(("row", val.s, i)))
        if isinstance(val, Sq):
            tn = normalise(val.t)
            if tn[0] == "for" and tn[4][0] in ("row", "int", "fmt", "ex", "blk", "dct", "obj"):
                leaf_, v_ = tn[4], tn[1]
                return ("idx", tn[2], tn[3], lambda i, leaf_=leaf_, v_=v_: self.elem_val(tsubs(leaf_, v_, i)))
            return ("term", val.t)
        return None

    def loop(self, s, env):
        d = self.iter_domain(s.iter, env, s.target)
        assigned = astq.assigned_names_in(s.body) if hasattr(astq, "assigned_names_in") else _assigned(s.body)
        if d is None:
            # unknown iteration: everything mutated inside becomes opaque
            for n in _assigned(s.body) | _mutated(s.body):
                if isinstance(env.get(n), Sq) or n in _mutated(s.body):
                    env[n] = Sq(("opq", f"loop over `{astq.src(s.iter, 40)}` not understood"))
                else:
                    env[n] = E(ast.Name(id=n, ctx=ast.Load()))
            return
        if d[0] == "term":
            t = d[1]
            tn = normalise(t)
            # iterate over a literal list concretely
            if tn[0] in ("row", "int", "fmt", "ex", "blk", "dct", "obj") or (tn[0] == "cat" and all(x[0] in ("row", "int", "fmt", "ex", "blk", "dct", "obj") for x in tn[1])):
                items = [tn] if tn[0] != "cat" else list(tn[1])
                for leaf in items:
                    self.assign(d[4], self.elem_val(leaf), env, s)
                    self.block(s.body, env)
                return
            # iterate over a symbolic sequence:  for x in <for v in lo..hi: leaf(v)>: body   -> one symbolic iteration with a fresh index
            if tn[0] == "for" and tn[4][0] in ("row", "int", "fmt", "ex", "blk", "dct", "obj"):
                v2 = self.fresh("v")
                binds = {}
                self_assign_env = {}
                self.assign(d[4], self.elem_val(tsubs(tn[4], tn[1], P.s(v2))), self_assign_env, s)
                binds.update(self_assign_env)
                d = ("for", v2, tn[2], tn[3], binds)
            elif tn[0] == "forin" and tn[3][0] == "int":
                binds = {}
                if isinstance(d[4], ast.Name):
                    binds[d[4].id] = I(tn[3][1])
                d = ("forin", tn[1], tn[2], None, binds)
            else:
                for n in _assigned(s.body) | _mutated(s.body):
                    env[n] = Sq(("opq", "loop over a computed sequence"))
                return
        kind, v = d[0], d[1]
        binds = d[4]
        before = {}
        touched = _assigned(s.body) | _mutated(s.body)
        for n, val in list(env.items()):
            if isinstance(val, Sq) and n in touched:
                before[n] = val
                env[n] = Sq(("prev", n))
        env.update(binds)
        self.loops.append((kind, v, d[2], d[3]))
        self.block(s.body, env)
        self.loops.pop()

        def wrap(delta):
            if kind == "for":
                return ("for", v, d[2], d[3], delta)
            return ("forin", v, d[2], delta)
        for n, old in before.items():
            new = env.get(n)
            if not isinstance(new, Sq):
                continue
            t = new.t
            if t == ("prev", n):
                env[n] = old
                continue
            if t[0] == "cat" and t[1] and t[1][0] == ("prev", n) and not any(x == ("prev", n) for y in t[1][1:] for x in walk(y)):
                env[n] = Sq(cat(old.t, wrap(("cat", t[1][1:]))))
            elif t[0] == "cat" and t[1] and t[1][-1] == ("prev", n) and not any(x == ("prev", n) for y in t[1][:-1] for x in walk(y)):
                env[n] = Sq(cat(("rev", wrap(("rev", ("cat", t[1][:-1])))), old.t))
            elif t[0] == "minus" and t[1] == ("prev", n) and not any(x == ("prev", n) for x in walk(t[2])):
                env[n] = Sq(("minus", old.t, wrap(t[2])))
            elif not any(x == ("prev", n) for x in walk(t)):
                env[n] = new          # rebound afresh in every iteration: the last iteration's value
            else:
                env[n] = Sq(("opq", f"update of `{n}` in a loop is not an append/extend/remove"))

    def cond(self, s, env):
        t = self.truth(s.test, env)
        if t is True:
            return self.block(s.body, env)
        if t is False:
            return self.block(s.orelse, env)
        if _only_raises(s.body):
            return self.block(s.orelse, env)
        if s.orelse and _only_raises(s.orelse):
            return self.block(s.body, env)
        c = self.cond_term(s.test, env)
        e1, e2 = dict(env), dict(env)
        r1 = self.block(s.body, e1)
        r2 = self.block(s.orelse, e2)
        if r1 and not r2:
            env.clear(); env.update(e2)
            return False
        if r2 and not r1:
            env.clear(); env.update(e1)
            return False
        for n in set(e1) | set(e2):
            a, b = e1.get(n), e2.get(n)
            if a is b:
                env[n] = a
            elif isinstance(a, Sq) and isinstance(b, Sq):
                if a.t == b.t:
                    env[n] = a
                    continue
                pa = list(a.t[1]) if a.t[0] == "cat" else [a.t]
                pb = list(b.t[1]) if b.t[0] == "cat" else [b.t]
                k = 0
                while k < len(pa) and k < len(pb) and pa[k] == pb[k]:
                    k += 1
                if k == 0 and (pa and pb) and not (pa[0][0] == "prev" or pb[0][0] == "prev"):
                    env[n] = Phi(c, a, b)
                    continue
                parts = pa[:k]
                if pa[k:]:
                    parts.append(("if", c, ("cat", tuple(pa[k:]))))
                if pb[k:]:
                    parts.append(("if", neg_cond(c), ("cat", tuple(pb[k:]))))
                env[n] = Sq(("cat", tuple(parts)))
            elif a is None or b is None:
                env[n] = a if a is not None else b
            elif _same_val(a, b):
                env[n] = a
            else:
                env[n] = Phi(c, a, b)
        return r1 and r2

    def cond_term(self, test, env):
        if isinstance(test, ast.Compare) and len(test.ops) == 1 and isinstance(test.ops[0], (ast.In, ast.NotIn)):
            x = self.topoly(self.ev(test.left, env))
            cont = test.comparators[0]
            contv = self.ev(cont, env)
            if isinstance(contv, E):
                # `k in set(refs)` / a name bound to set(refs): membership does not depend on the order of the set
                cn = contv.node
                if isinstance(cn, ast.Call) and isinstance(cn.func, ast.Name) and cn.func.id in ("set", "frozenset") and len(cn.args) == 1 and not cn.keywords:
                    contv = self.ev(cn.args[0], env)
            d = self.dom_of(contv)
            if x is not None and d is not None:
                return ("notin" if isinstance(test.ops[0], ast.NotIn) else "in", x, d)
        if isinstance(test, ast.UnaryOp) and isinstance(test.op, ast.Not):
            return neg_cond(self.cond_term(test.operand, env))
        return ("c", astq.src(test, 80))

    def truth(self, test, env):
        """True / False / None from the declared argument types"""
        if isinstance(test, ast.Name):
            v = env.get(test.id)
            if isinstance(v, K) and isinstance(v.v, bool):
                return v.v
            return None
        if isinstance(test, ast.BoolOp):
            vals = [self.truth(v, env) for v in test.values]
            if isinstance(test.op, ast.And):
                if any(v is False for v in vals):
                    return False
                return True if all(v is True for v in vals) else None
            if any(v is True for v in vals):
                return True
            return False if all(v is False for v in vals) else None
        if isinstance(test, ast.UnaryOp) and isinstance(test.op, ast.Not):
            v = self.truth(test.operand, env)
            return None if v is None else (not v)
        if isinstance(test, ast.Call) and isinstance(test.func, ast.Name) and test.func.id == "isinstance" and len(test.args) == 2 and isinstance(test.args[0], ast.Name):
            ty = self.types.get(test.args[0].id)
            if ty is None or not isinstance(env.get(test.args[0].id), (DataList, RefLists, E)):
                return None
            names = [astq.src(x).split(".")[-1] for x in (test.args[1].elts if isinstance(test.args[1], ast.Tuple) else [test.args[1]])]
            return ty[0] in names
        if isinstance(test, ast.Call) and isinstance(test.func, ast.Name) and test.func.id == "all" and test.args and isinstance(test.args[0], ast.GeneratorExp):
            g = test.args[0]
            it = g.generators[0].iter
            if isinstance(it, ast.Name) and it.id in self.types and isinstance(g.elt, ast.Call) and isinstance(g.elt.func, ast.Name) and g.elt.func.id == "isinstance":
                ty = self.types[it.id]
                names = [astq.src(x).split(".")[-1] for x in (g.elt.args[1].elts if isinstance(g.elt.args[1], ast.Tuple) else [g.elt.args[1]])]
                return len(ty) > 1 and ty[1] in names
        if isinstance(test, ast.Compare) and len(test.ops) == 1 and isinstance(test.ops[0], (ast.Eq, ast.NotEq, ast.In, ast.NotIn)):
            l = self.ev(test.left, env)
            r = test.comparators[0]
            if isinstance(l, K) and not isinstance(l.v, bool):
                if isinstance(test.ops[0], (ast.Eq, ast.NotEq)):
                    rv = self.ev(r, env)
                    if isinstance(rv, K):
                        return (l.v == rv.v) == isinstance(test.ops[0], ast.Eq)
                elif isinstance(r, ast.Dict) and r.keys and all(isinstance(x, ast.Constant) for x in r.keys):
                    return (l.v in [x.value for x in r.keys]) == isinstance(test.ops[0], ast.In)
                elif isinstance(r, (ast.Tuple, ast.List, ast.Set)) and all(isinstance(x, ast.Constant) for x in r.elts):
                    return (l.v in [x.value for x in r.elts]) == isinstance(test.ops[0], ast.In)
        if isinstance(test, ast.Compare) and len(test.ops) == 1 and isinstance(test.ops[0], (ast.Is, ast.IsNot)) and isinstance(test.comparators[0], ast.Constant) and test.comparators[0].value is None:
            v = self.ev(test.left, env)
            if isinstance(v, (DataList, RefLists, Vec, RefL, Sq, I, ObjVal)):
                return isinstance(test.ops[0], ast.IsNot)
            if isinstance(v, K):
                return (v.v is None) == isinstance(test.ops[0], ast.Is)
        if isinstance(test, ast.Compare) and len(test.ops) == 1 and isinstance(test.ops[0], (ast.Eq, ast.NotEq, ast.Lt, ast.LtE, ast.Gt, ast.GtE)):
            # two integers that are both known (x.ndim == 1 for a record with two axes)
            l, r = self.ev(test.left, env), self.ev(test.comparators[0], env)
            if isinstance(l, I) and isinstance(r, I) and l.p.is_const() and r.p.is_const():
                a_, b_ = l.p.const(), r.p.const()
                return {ast.Eq: a_ == b_, ast.NotEq: a_ != b_, ast.Lt: a_ < b_, ast.LtE: a_ <= b_, ast.Gt: a_ > b_, ast.GtE: a_ >= b_}[type(test.ops[0])]
        if isinstance(test, ast.Compare) and len(test.ops) == 1 and isinstance(test.ops[0], (ast.Is, ast.IsNot)) and isinstance(test.comparators[0], ast.Constant) \
                and isinstance(test.comparators[0].value, bool):
            v = self.ev(test.left, env)
            if isinstance(v, K):
                return (v.v is test.comparators[0].value) == isinstance(test.ops[0], ast.Is)
        return None

    # -- expressions
    def topoly(self, v):
        if isinstance(v, I):
            return v.p
        if isinstance(v, K) and isinstance(v.v, int) and not isinstance(v.v, bool):
            return P.c(v.v)
        if isinstance(v, E):
            return _topoly(v.node)
        return None

    def dom_of(self, v):
        if isinstance(v, RefL):
            return v.dom
        if isinstance(v, Sq):
            t = normalise(v.t)
            if t[0] == "forin" and t[3] == ("int", P.s(t[1])):
                return t[2]
            return None
        if isinstance(v, E):
            return ("lst", astq.src(v.node, 60))
        return None

    def as_seq(self, v):
        """value -> sequence term of its rows/elements"""
        if isinstance(v, Sq):
            return v.t
        if isinstance(v, Vec):
            if v.axis == 0:
                j = self.fresh("v")
                return ("for", j, P.c(0), P.s(f"n[{v.s!r}]"), ("row", v.s, P.s(j)))
            return ("opq", "whole container whose channel axis is not the first")
        if isinstance(v, RefL):
            c = self.fresh("c")
            return ("forin", c, v.dom, ("int", P.s(c)))
        if isinstance(v, Tup):
            return ("cat", tuple(self.leaf(x) for x in v.items))
        if isinstance(v, Phi):
            return ("opq", "value depends on an undecided branch")
        if isinstance(v, E):
            return ("opq", f"`{astq.src(v.node, 50)}` is not a recognised row selection")
        return ("opq", f"{type(v).__name__}")

    def leaf(self, v):
        """value -> single element of a list"""
        if isinstance(v, ObjVal):
            return ("obj", v)
        if isinstance(v, I):
            return ("int", v.p)
        if isinstance(v, K):
            return ("int", P.c(v.v)) if isinstance(v.v, int) and not isinstance(v.v, bool) else ("ex", repr(v.v))
        if isinstance(v, Sq):
            if v.t[0] in ("row", "fmt", "ex", "int"):
                return v.t
            return ("blk", v.t)
        if isinstance(v, (Vec, RefL, Tup)):
            return ("blk", self.as_seq(v))
        if isinstance(v, Dct):
            return ("dct", tuple(sorted((k, ("obj", x) if isinstance(x, ObjVal) else self.as_seq(x)) for k, x in v.items.items())))
        if isinstance(v, E):
            if isinstance(v.node, ast.JoinedStr):
                parts = []
                for x in v.node.values:
                    if isinstance(x, ast.Constant):
                        parts.append(str(x.value))
                    else:
                        parts.append(_topoly(x.value))
                return ("fmt", tuple(parts))
            return ("ex", astq.src(v.node, 60))
        return ("ex", type(v).__name__)

    def node_of(self, v):
        """ast standing for a value inside an opaque expression"""
        if isinstance(v, E):
            return v.node
        if isinstance(v, I):
            return ast.parse(repr(v.p).replace("^", "**").replace("[", "_").replace("]", "_"), mode="eval").body if re.match(r"^[\w\s+\-*\[\]]+$", repr(v.p)) else ast.Name(id="_i", ctx=ast.Load())
        if isinstance(v, K):
            return ast.Constant(value=v.v)
        if isinstance(v, DataList):
            return ast.Name(id="D", ctx=ast.Load())
        if isinstance(v, RefLists):
            return ast.Name(id="R", ctx=ast.Load())
        if isinstance(v, Vec):
            return ast.Name(id=f"D_{abs(hash(repr(v.s))) % 1000}", ctx=ast.Load())
        if isinstance(v, RefL):
            return ast.Name(id="Rk", ctx=ast.Load())
        return ast.Name(id="_seq", ctx=ast.Load())

    def ev_index(self, sl, env):
        elts = sl.elts if isinstance(sl, ast.Tuple) else [sl]
        out = []
        for x in elts:
            if isinstance(x, ast.Slice):
                out.append(("slice", self.ev(x.lower, env) if x.lower is not None else None, self.ev(x.upper, env) if x.upper is not None else None, x.step))
            elif isinstance(x, ast.Constant) and x.value is Ellipsis:
                out.append(("ellipsis",))
            elif isinstance(x, ast.Constant) and x.value is None:
                out.append(("newaxis",))
            else:
                v = self.ev(x, env)
                if isinstance(v, Slc):
                    out.append(("slice", v.lo, v.hi, v.step))
                else:
                    out.append(v)
        return out

    def ev(self, e, env):
        try:
            return self._ev(e, env)
        except RecursionError:
            return E(e)

    def _ev(self, e, env):
        if e is None:
            return K(None)
        if isinstance(e, ast.Constant):
            if isinstance(e.value, int) and not isinstance(e.value, bool):
                return I(P.c(e.value))
            return K(e.value)
        if isinstance(e, ast.Name):
            if e.id in env:
                return env[e.id]
            r = self.prog.lookup(self.fi.mod, e.id) if hasattr(self.prog, "lookup") else None
            if isinstance(r, FuncInfo):
                return Fn(r)
            return E(e)
        if isinstance(e, (ast.Tuple, ast.List)):
            items = [self.ev(x, env) for x in e.elts]
            if any(isinstance(x, ast.Starred) for x in e.elts):
                # [a, *rest]: the starred sequence is spliced in
                parts, flat = [], []
                for x, v in zip(e.elts, items):
                    if isinstance(x, ast.Starred) and isinstance(v, Sq):
                        parts.append(v.t)
                        flat = None
                    elif isinstance(x, ast.Starred) and isinstance(v, Tup):
                        parts += [self.leaf(y) for y in v.items]
                        if flat is not None:
                            flat += v.items
                    elif isinstance(x, ast.Starred):
                        parts.append(("opq", f"starred `{astq.src(x.value, 30)}`"))
                        flat = None
                    else:
                        parts.append(self.leaf(v))
                        if flat is not None:
                            flat.append(v)
                if isinstance(e, ast.Tuple) and flat is not None:
                    return Tup(flat)
                return Sq(("cat", tuple(parts)))
            if isinstance(e, ast.Tuple):
                return Tup(items)
            return Sq(("cat", tuple(self.leaf(x) for x in items)))
        if isinstance(e, ast.Dict):
            if all(isinstance(k, ast.Constant) for k in e.keys):
                d_ = {k.value: self.ev(v, env) for k, v in zip(e.keys, e.values)}
                for k_, v_ in d_.items():
                    if isinstance(v_, Sq):
                        self.sh.setdefault("dict_layout", {})[k_] = v_.axis if v_.ndim == 2 else (0 if v_.ndim == 1 else None)
                return Dct(d_)
            return E(e)
        if isinstance(e, ast.JoinedStr):
            vals = []
            for x in e.values:
                if isinstance(x, ast.FormattedValue):
                    v = self.ev(x.value, env)
                    p = self.topoly(v)
                    vals.append(ast.FormattedValue(value=ast.Name(id="__P__" + repr(p), ctx=ast.Load()) if p is not None else x.value, conversion=-1))
                else:
                    vals.append(x)
            parts = []
            for x in vals:
                if isinstance(x, ast.Constant):
                    parts.append(str(x.value))
                elif isinstance(x.value, ast.Name) and x.value.id.startswith("__P__"):
                    parts.append(parse_poly(x.value.id[5:]))
                else:
                    parts.append("{" + astq.src(x.value, 30) + "}")
            return Sq(("fmt", tuple(parts)))
        if isinstance(e, ast.IfExp):
            t = self.truth(e.test, env)
            if t is True:
                return self.ev(e.body, env)
            if t is False:
                return self.ev(e.orelse, env)
            a, b = self.ev(e.body, env), self.ev(e.orelse, env)
            return a if _same_val(a, b) else Phi(self.cond_term(e.test, env), a, b)
        if isinstance(e, ast.UnaryOp):
            v = self.ev(e.operand, env)
            if isinstance(e.op, ast.Invert) and isinstance(v, Msk):
                return Msk(v.n, v.dom, not v.neg)
            if isinstance(e.op, ast.USub):
                if isinstance(v, I):
                    return I(-v.p)
                if isinstance(v, (Sq, Vec)):
                    return v
            if isinstance(e.op, ast.Not):
                return E(e)
            return E(ast.UnaryOp(op=e.op, operand=self.node_of(v)))
        if isinstance(e, ast.BinOp):
            return self.binop(e.op, self.ev(e.left, env), self.ev(e.right, env), e)
        if isinstance(e, ast.Compare) or isinstance(e, ast.BoolOp):
            t = self.truth(e, env)
            return K(t) if t is not None else E(e)
        if isinstance(e, ast.Attribute):
            return self.attr(e, env)
        if isinstance(e, ast.Subscript):
            return self.subscript(e, env)
        if isinstance(e, (ast.ListComp, ast.GeneratorExp)):
            return self.comp(e, env)
        if isinstance(e, ast.Call):
            return self.call(e, env)
        if isinstance(e, ast.Starred):
            return self.ev(e.value, env)
        return E(e)

    def binop(self, op, a, b, node):
        r = self.binop_hook(op, a, b, node)
        if r is not None:
            return r
        if isinstance(a, I) and isinstance(b, I) and isinstance(op, (ast.Add, ast.Sub, ast.Mult)):
            return I(a.p + b.p if isinstance(op, ast.Add) else a.p - b.p if isinstance(op, ast.Sub) else a.p * b.p)
        if isinstance(op, (ast.Div, ast.Pow, ast.FloorDiv)):
            pa, pb = self.topoly(a), self.topoly(b)
            if isinstance(b, K) and isinstance(b.v, float):
                from fractions import Fraction
                pb = P.c(Fraction(b.v).limit_denominator(64))
            if pa is not None and pb is not None:
                from .poly import P_div, P_pow
                r_ = None
                if isinstance(op, ast.Div):
                    r_ = P_div(pa, pb)
                elif isinstance(op, ast.Pow) and pb.is_const():
                    r_ = P_pow(pa, pb.const())
                elif isinstance(op, ast.FloorDiv):
                    q_ = P_div(pa, pb)
                    r_ = q_ if q_ is not None and pb.is_const() and all(c.denominator == 1 for c in q_.t.values()) else P.s(f"floor({q_!r})") if q_ is not None else None
                if r_ is not None:
                    return I(r_)
        if isinstance(op, ast.Add) and isinstance(a, Sq) and isinstance(b, Sq) and self.listlike(a) and self.listlike(b):
            return Sq(cat(a.t, b.t))
        if isinstance(op, ast.MatMult):
            # a contraction: the rows of the left operand survive, those of the right operand are summed over
            if isinstance(a, (Sq, Vec)) and not isinstance(b, (Sq, Vec)):
                return a
            return E(ast.BinOp(left=self.node_of(a), op=op, right=self.node_of(b)))
        # element-wise arithmetic with anything keeps the order of the rows
        for x, y in ((a, b), (b, a)):
            if isinstance(x, (Sq, Vec)) and not isinstance(y, (Sq, Vec)):
                return x
        if isinstance(a, (Sq, Vec)) and isinstance(b, (Sq, Vec)):
            if _same_val(a, b):
                return a
            ra, rb = has_rows(a), has_rows(b)
            if ra != rb:
                return a if ra else b          # the other operand carries no channel rows (a vector of factors)
            return Sq(("opq", "element-wise combination of two different row selections"))
        pa, pb = self.topoly(a), self.topoly(b)
        if pa is not None and pb is not None and isinstance(op, (ast.Add, ast.Sub, ast.Mult)):
            return I(pa + pb if isinstance(op, ast.Add) else pa - pb if isinstance(op, ast.Sub) else pa * pb)
        return E(ast.BinOp(left=self.node_of(a), op=op, right=self.node_of(b)))

    def listlike(self, v):
        return True

    def attr(self, e, env):
        base = self.ev(e.value, env)
        r = self.attr_hook(base, e.attr, e)
        if r is not None:
            return r
        if e.attr == "shape" and isinstance(base, Vec):
            return Tup([I(P.s(f"n[{base.s!r}]")) if ax == base.axis else I(P.s(f"m{ax}[{base.s!r}]")) for ax in range(base.ndim)])
        if e.attr == "T" and isinstance(base, Vec) and base.ndim == 2:
            return Vec(base.s, 1 - base.axis, 2)
        if e.attr == "T" and isinstance(base, Sq) and base.ndim == 2 and base.axis is not None:
            return Sq(base.t, 1 - base.axis, 2)
        if e.attr in TRANSPARENT_METH and isinstance(base, (Sq, Vec, RefL)):
            return base
        if e.attr == "size" and isinstance(base, Vec) and base.ndim == 1:
            return I(P.s(f"n[{base.s!r}]"))
        if isinstance(base, E):
            return E(ast.Attribute(value=base.node, attr=e.attr, ctx=ast.Load()))
        return E(ast.Attribute(value=self.node_of(base), attr=e.attr, ctx=ast.Load()))

    def subscript(self, e, env):
        base = self.ev(e.value, env)
        idx = self.ev_index(e.slice, env)
        r = self.index_hook(base, idx, e)
        if r is not None:
            return r
        if isinstance(base, Tup) and len(idx) == 1:
            p = self.topoly(idx[0]) if isinstance(idx[0], Val) else None
            if p is not None and p.is_const() and -len(base.items) <= int(p.const()) < len(base.items):
                return base.items[int(p.const())]
            if isinstance(idx[0], tuple) and idx[0][0] == "slice":
                lo = self.topoly(idx[0][1]) if idx[0][1] is not None else P.c(0)
                hi = self.topoly(idx[0][2]) if idx[0][2] is not None else P.c(len(base.items))
                if lo is not None and hi is not None and lo.is_const() and hi.is_const():
                    return Tup(base.items[int(lo.const()):int(hi.const())])
        if isinstance(base, Dct) and len(idx) == 1 and isinstance(idx[0], K) and idx[0].v in base.items:
            return base.items[idx[0].v]
        if isinstance(base, (DataList, RefLists)) and len(idx) == 1:
            x = idx[0]
            if isinstance(x, tuple) and x[0] == "slice" and x[2] is None and x[3] is None:
                lo = self.topoly(x[1]) if x[1] is not None else P.c(0)
                if lo is not None:
                    return type(base)(base.lo + lo)
            p = self.topoly(x) if isinstance(x, Val) else None
            if p is not None:
                if p.is_const() and p.const() < 0:
                    p = P.s("N") + p
                if isinstance(base, DataList):
                    r = [y for y in self.roles.values() if y[0] == "data"][0]
                    return Vec(base.lo + p, r[1], r[2])
                return RefL(("ref", base.lo + p))
        if isinstance(base, RefL) and len(idx) == 1:
            p = self.topoly(idx[0]) if isinstance(idx[0], Val) else None
            if p is not None and base.dom[0] == "ref":
                return I(P.s(f"R[{base.dom[1]!r}][{p!r}]"))
        if isinstance(base, Vec):
            return self.vec_index(base, idx)
        if isinstance(base, Sq):
            return self.seq_index(base, idx)
        if isinstance(base, E):
            return E(ast.Subscript(value=base.node, slice=e.slice if not any(isinstance(x, Val) and not isinstance(x, (E, I, K)) for x in idx) else ast.Name(id="_idx", ctx=ast.Load()), ctx=ast.Load()))
        return E(e)

    def index_hook(self, base, idx, node):
        return None

    def call_hook(self, fn, args, kw, node, env):
        return None

    def attr_hook(self, base, name, node):
        return None

    def binop_hook(self, op, a, b, node):
        return None

    def vec_index(self, base, idx):
        """subscript of a per-setup container"""
        # expand ellipsis / missing axes
        n_explicit = len([x for x in idx if not (isinstance(x, tuple) and x[0] in ("newaxis", "ellipsis"))])
        full = []
        for x in idx:
            if isinstance(x, tuple) and x[0] == "ellipsis":
                full.extend([("slice", None, None, None)] * (base.ndim - n_explicit))
            elif isinstance(x, tuple) and x[0] == "newaxis":
                continue
            else:
                full.append(x)
        while len(full) < base.ndim:
            full.append(("slice", None, None, None))
        if len(full) > base.ndim:
            return Sq(("opq", "more indices than dimensions of the per-setup container"))
        ch = full[base.axis]
        # effect on the other axes: scalars drop an axis
        new_axis = base.axis
        new_ndim = base.ndim
        for ax, x in enumerate(full):
            if ax == base.axis:
                continue
            if isinstance(x, tuple):
                continue          # slices of the other axis keep every channel
            if isinstance(x, (I, K)) or (isinstance(x, E) and isinstance(x.node, (ast.Name, ast.Constant, ast.BinOp))):
                new_ndim -= 1
                if ax < base.axis:
                    new_axis -= 1
            # fancy index on another axis: channels unaffected
        if isinstance(ch, tuple) and ch[0] == "slice":
            if ch[1] is None and ch[2] is None and ch[3] is None:
                return Vec(base.s, new_axis, new_ndim)
            lo = self.topoly(ch[1]) if ch[1] is not None else P.c(0)
            hi = self.topoly(ch[2]) if ch[2] is not None else P.s(f"n[{base.s!r}]")
            if ch[3] is None and lo is not None and hi is not None:
                j = self.fresh("v")
                return Sq(("for", j, lo, hi, ("row", base.s, P.s(j))), new_axis, new_ndim)
            return Sq(("opq", "strided channel slice"))
        if isinstance(ch, Msk):
            j = self.fresh("v")
            body = ("row", base.s, P.s(j))
            if ch.dom is not None:
                body = ("if", ("notin" if ch.neg else "in", P.s(j), ch.dom), body)
            elif not ch.neg:
                body = EMPTY
            return Sq(("for", j, P.c(0), ch.n, body), new_axis, new_ndim)
        if isinstance(ch, RefL):
            c = self.fresh("c")
            return Sq(("forin", c, ch.dom, ("row", base.s, P.s(c))), new_axis, new_ndim)
        if isinstance(ch, Sq):
            s = base.s
            return Sq(tmap(normalise(ch.t), lambda leaf: ("row", s, leaf[1]) if leaf[0] == "int" else ("opq", f"index element {show(leaf)}")), new_axis, new_ndim)
        p = self.topoly(ch) if isinstance(ch, (I, K)) else None
        if p is not None:
            return Sq(("row", base.s, p))
        if isinstance(ch, E):
            if isinstance(ch.node, ast.Name) or isinstance(ch.node, ast.Attribute):
                c = self.fresh("c")
                return Sq(("forin", c, ("lst", astq.src(ch.node, 40)), ("row", base.s, P.s(c))))
            return Sq(("opq", f"channel index `{astq.src(ch.node, 40)}`"))
        return Sq(("opq", "channel index"))

    def seq_index(self, base, idx):
        t = normalise(base.t)
        rest_full = all(isinstance(x, tuple) and (x[0] == "ellipsis" or (x[0] == "slice" and x[1] is None and x[2] is None)) for x in idx[1:])
        if len(idx) >= 1 and rest_full and isinstance(idx[0], (I, K, E)) and t[0] == "for" and t[2] == P.c(0) and t[4][0] in ("row", "int", "fmt", "ex", "blk", "dct", "obj"):
            p = self.topoly(idx[0])
            if p is not None:
                if p.is_const() and p.const() < 0:
                    p = t[3] + p
                self.sh.setdefault("index_log", []).append((p, t[3], list(self.loops)))     # (index, length of the indexed sequence, enclosing loops)
                return self.elem_val(tsubs(t[4], t[1], p))
        if len(idx) >= 1 and isinstance(idx[0], (I, K)):
            p = self.topoly(idx[0])
            if t[0] == "cat" and p is not None and p.is_const() and all(x[0] in ("row", "int", "fmt", "ex", "blk", "dct", "obj") for x in t[1]) and -len(t[1]) <= int(p.const()) < len(t[1]):
                r = self.elem_val(t[1][int(p.const())])
                if len(idx) > 1 and isinstance(r, Sq):
                    return r
                return r
        # slices / further indices on the non-channel axes of an already selected block keep the rows
        if all(isinstance(x, tuple) and x[0] in ("slice", "newaxis", "ellipsis") and (x[0] != "slice" or (x[1] is None and x[2] is None)) for x in idx):
            return base
        if len(idx) >= 2 and isinstance(idx[0], tuple) and idx[0][0] == "slice" and idx[0][1] is None and idx[0][2] is None:
            return base
        # np.arange(n)[idx] IS idx: the ramp 0..n-1 indexed by a list of positions gives those positions, in the order of the list
        if len(idx) == 1 and isinstance(idx[0], (RefL, Sq)) and isinstance(base, Sq):
            tb = normalise(base.t)
            if tb[0] == "for" and tb[2] == P.c(0) and tb[4] == ("int", P.s(tb[1])):
                return idx[0]
        if isinstance(idx[0], Msk) or isinstance(idx[0], RefL) or isinstance(idx[0], Sq):
            return Sq(("opq", "selection from an already selected block"))
        return Sq(("opq", f"subscript of a computed sequence"))

    def comp(self, e, env):
        if len(e.generators) != 1:
            # nested generators: treat as nested loops, outermost first
            inner = ast.ListComp(elt=e.elt, generators=e.generators[1:])
            outer = ast.ListComp(elt=ast.Starred(value=inner, ctx=ast.Load()), generators=e.generators[:1])
            return self.comp(outer, env)
        g = e.generators[0]
        d = self.iter_domain(g.iter, env, g.target)
        if d is None:
            return Sq(("opq", f"comprehension over `{astq.src(g.iter, 40)}`"))
        env2 = dict(env)
        if d[0] == "term":
            tn = normalise(d[1])
            if tn[0] == "for" and tn[4][0] in ("row", "int", "fmt", "ex", "blk", "dct", "obj"):
                v2 = self.fresh("v")
                tmp_env = {}
                self.assign(d[4], self.elem_val(tsubs(tn[4], tn[1], P.s(v2))), tmp_env, e)
                d = ("for", v2, tn[2], tn[3], tmp_env)
            elif tn[0] == "forin" and tn[3][0] == "int" and isinstance(d[4], ast.Name):
                d = ("forin", tn[1], tn[2], None, {d[4].id: I(tn[3][1])})
            elif tn[0] in ("row", "int", "fmt", "ex", "blk", "dct", "obj") or (tn[0] == "cat" and all(x[0] in ("row", "int", "fmt", "ex", "blk", "dct", "obj") for x in tn[1])):
                items = [tn] if tn[0] != "cat" else list(tn[1])
                out = []
                for leaf in items:
                    self.assign(d[4], self.elem_val(leaf), env2, e)
                    body = self._comp_body(e, g, env2)
                    out.append(body)
                return Sq(("cat", tuple(out)))
            else:
                return Sq(("opq", "comprehension over a computed sequence"))
        env2.update(d[4])
        self.loops.append((d[0], d[1], d[2], d[3]))
        body = self._comp_body(e, g, env2)
        self.loops.pop()
        if d[0] == "for":
            return Sq(("for", d[1], d[2], d[3], body))
        return Sq(("forin", d[1], d[2], body))

    def _comp_body(self, e, g, env2):
        if isinstance(e.elt, ast.Starred):
            v = self.ev(e.elt.value, env2)
            body = self.as_seq(v)
        else:
            v = self.ev(e.elt, env2)
            body = self.leaf(v)
        for c in reversed(g.ifs):
            body = ("if", self.cond_term(c, env2), body)
        return body

    def call(self, e, env):
        if isinstance(e.func, ast.Lambda) and not e.keywords and not any(isinstance(a, ast.Starred) for a in e.args):
            # (lambda p, q: body)(x, y): the body with its parameters bound
            la = e.func.args
            if not (la.vararg or la.kwarg or la.kwonlyargs or la.defaults or la.posonlyargs) and len(la.args) == len(e.args):
                env2 = dict(env)
                for p_, a_ in zip(la.args, e.args):
                    env2[p_.arg] = self.ev(a_, env)
                return self.ev(e.func.body, env2)
        fn = astq.callee_name(self.prog, self.fi, e)
        if fn in ("isinstance", "all", "any"):
            t = self.truth(e, env)
            return K(t) if t is not None else E(e)
        args = [self.ev(a, env) for a in e.args]
        kw = {k.arg: self.ev(k.value, env) for k in e.keywords if k.arg}
        r = self.call_hook(fn, args, kw, e, env)
        if r is not None:
            return r
        # list methods
        if isinstance(e.func, ast.Attribute) and isinstance(e.func.value, ast.Name) and isinstance(env.get(e.func.value.id), Sq):
            n = e.func.value.id
            cur = env[n]
            m = e.func.attr
            if m == "append" and len(args) == 1:
                env[n] = Sq(cat(cur.t, self.leaf(args[0])))
                return K(None)
            if m == "extend" and len(args) == 1:
                env[n] = Sq(cat(cur.t, self.as_seq(args[0])))
                return K(None)
            if m == "insert" and len(args) == 2:
                p = self.topoly(args[0])
                if p is not None and p == P.c(0):
                    env[n] = Sq(cat(self.leaf(args[1]), cur.t))
                else:
                    env[n] = Sq(("opq", "insert at a computed position"))
                return K(None)
            if m == "remove" and len(args) == 1:
                env[n] = Sq(("minus", cur.t, self.leaf(args[0])))
                return K(None)
            if m == "sort" and not e.keywords:
                env[n] = Sq(("sorted", cur.t))
                return K(None)
            if m == "reverse":
                env[n] = Sq(("rev", cur.t))
                return K(None)
            if m in ("pop", "clear", "__setitem__", "__delitem__"):
                env[n] = Sq(("opq", f"list.{m}"))
                return E(e)
            if m == "copy":
                return cur
        if isinstance(e.func, ast.Attribute):
            base = self.ev(e.func.value, env)
            if e.func.attr in TRANSPARENT_CALLM and isinstance(base, (Sq, Vec, RefL)):
                if e.func.attr in ("transpose",) and isinstance(base, Vec) and base.ndim == 2 and not args:
                    return Vec(base.s, 1 - base.axis, 2)
                if e.func.attr in ("flatten", "ravel") and isinstance(base, Vec) and base.ndim > 1:
                    return Sq(("opq", "flattened multi-dimensional container"))
                if e.func.attr == "transpose" and isinstance(base, Sq) and base.ndim == 2 and base.axis is not None and not args:
                    return Sq(base.t, 1 - base.axis, 2)
                if e.func.attr == "reshape" and isinstance(base, Sq) and base.ndim == 2 and base.axis is not None:
                    shp = args[0].items if len(args) == 1 and isinstance(args[0], Tup) else args
                    if len(shp) == 2:
                        # (k, -1) keeps one element per row only if the elements already run along the rows
                        neg = [isinstance(x, (I, K)) and self.topoly(x) is not None and self.topoly(x) == P.c(-1) for x in shp]
                        if neg == [False, True]:
                            if base.axis == 0:
                                return base
                            return Sq(("ex", "reshape(k, -1) of a (samples x channels) block: rows no longer are channels (no transposition before the reshape)"), 0, 2)
                        if neg == [True, False]:
                            if base.axis == 1:
                                return base
                            return Sq(("ex", "reshape(-1, k) of a (channels x samples) block: columns no longer are channels"), 1, 2)
                    return Sq(base.t)          # layout unknown after the reshape
                return base
            if e.func.attr == "dot" or e.func.attr in ("mean", "sum", "max", "min", "std"):
                return E(e)
        if fn == "len" and len(args) == 1:
            a = args[0]
            if isinstance(a, (DataList, RefLists)):
                return I(P.s("N") - a.lo)
            if isinstance(a, Vec) and a.axis == 0:
                return I(P.s(f"n[{a.s!r}]"))
            if isinstance(a, Vec):
                return I(P.s(f"m0[{a.s!r}]"))
            if isinstance(a, RefL) and a.dom[0] == "ref":
                return I(P.s(f"r[{a.dom[1]!r}]"))
            if isinstance(a, Sq):
                t = normalise(a.t)
                if t[0] == "cat" and all(x[0] in ("row", "int", "fmt", "ex", "blk", "dct", "obj") for x in t[1]):
                    return I(P.c(len(t[1])))
                if t[0] == "forin" and t[2][0] == "ref" and t[3][0] in ("row", "int"):
                    return I(P.s(f"r[{t[2][1]!r}]"))
                return E(ast.Name(id="_len", ctx=ast.Load()))
        if fn in ("range", "numpy.arange") and 1 <= len(args) <= 3:
            ps = [self.topoly(x) for x in args]
            if all(p is not None for p in ps):
                lo, hi, st = (P.c(0), ps[0], P.c(1)) if len(ps) == 1 else (ps[0], ps[1], P.c(1)) if len(ps) == 2 else ps
                if st == P.c(1):
                    v = self.fresh("v")
                    return Sq(("for", v, lo, hi, ("int", P.s(v))))
                if st == P.c(-1):
                    # descending: position v = 0 .. lo-hi-1 holds lo - v
                    v = self.fresh("v")
                    return Sq(("for", v, P.c(0), lo - hi, ("int", lo - P.s(v))))
            return Sq(("opq", "range with a step"))
        if fn in TRANSPARENT and args:
            a = args[0]
            if isinstance(a, (Sq, Vec, RefL)):
                return a
            if isinstance(a, Tup) and fn in ("list", "tuple", "numpy.array", "numpy.asarray"):
                return Sq(("cat", tuple(self.leaf(x) for x in a.items)))
        if fn in ("sorted", "numpy.sort", "numpy.unique") and args:
            a = args[0]
            r_ = RefL(("sorted", a.dom)) if isinstance(a, RefL) else (Sq(("sorted", a.t)) if isinstance(a, Sq) else None)
            if r_ is not None:
                # np.unique(x, return_counts=True / return_index=True ..) hands back a tuple whose first element is the sorted list
                extra = [k_ for k_ in ("return_index", "return_inverse", "return_counts") if isinstance(kw.get(k_), K) and kw.get(k_).v is True] if fn == "numpy.unique" else []
                return Tup([r_] + [E(e) for _ in extra]) if extra else r_
        if fn == "numpy.where" and len(args) == 3 and isinstance(args[2], (RefL, Sq, Vec)) and isinstance(e.args[0], ast.Compare) and len(e.args[0].ops) == 1 \
                and isinstance(e.args[0].ops[0], ast.Lt) and isinstance(e.args[0].comparators[0], ast.Constant) and e.args[0].comparators[0].value == 0 \
                and astq.dump(e.args[0].left) == astq.dump(e.args[2]) and isinstance(e.args[1], ast.BinOp) and isinstance(e.args[1].op, ast.Add) \
                and astq.dump(e.args[1].left) == astq.dump(e.args[2]):
            return args[2]          # np.where(idx < 0, idx + n, idx): the same channels, negative numbers counted from the end
        if fn == "reversed" and args and isinstance(args[0], Sq):
            return Sq(("rev", args[0].t))
        if fn in ("numpy.isin", "numpy.in1d") and len(args) >= 2:
            a, b = args[0], args[1]
            d = self.dom_of(b)
            n = None
            if isinstance(a, Sq):
                t = normalise(a.t)
                if t[0] == "for" and t[2] == P.c(0) and t[4] == ("int", P.s(t[1])):
                    n = t[3]
            inv = kw.get("invert")
            if n is not None and d is not None:
                return Msk(n, d, bool(isinstance(inv, K) and inv.v is True))
            return E(e)
        if fn in ("numpy.flatnonzero", "numpy.nonzero", "numpy.where", "numpy.argwhere") and len(args) == 1 and not kw and isinstance(args[0], Msk):
            # the positions where the mask is set, ascending
            m_ = args[0]
            j = self.fresh("v")
            body = ("int", P.s(j))
            if m_.dom is not None:
                body = ("if", ("notin" if m_.neg else "in", P.s(j), m_.dom), body)
            elif not m_.neg:
                body = EMPTY
            pos = Sq(("for", j, P.c(0), m_.n, body))
            return pos if fn == "numpy.flatnonzero" else (Tup([pos]) if fn in ("numpy.nonzero", "numpy.where") else Sq(("opq", "argwhere (column vector of positions)")))
        if fn == "numpy.logical_not" and args and isinstance(args[0], Msk):
            return Msk(args[0].n, args[0].dom, not args[0].neg)
        if fn in ("numpy.ones", "numpy.zeros", "numpy.full") and args:
            dt = kw.get("dtype") or (args[1] if len(args) > 1 and fn != "numpy.full" else None)
            isbool = isinstance(dt, E) and astq.src(dt.node) in ("bool", "np.bool_", "numpy.bool_")
            n = self.topoly(args[0])
            if isbool and n is not None:
                if fn == "numpy.full":
                    fv = args[1] if len(args) > 1 else None
                    if isinstance(fv, K) and isinstance(fv.v, bool):
                        return Msk(n, None, fv.v)
                else:
                    return Msk(n, None, fn == "numpy.ones")
            return E(e)
        if fn == "numpy.setdiff1d" and len(args) >= 2:
            a = args[0]
            d = self.dom_of(args[1])
            if isinstance(a, Sq) and d is not None:
                t = normalise(a.t)
                if t[0] == "for" and t[4] == ("int", P.s(t[1])):
                    return Sq(("for", t[1], t[2], t[3], ("if", ("notin", P.s(t[1]), d), t[4])))
            return Sq(("opq", "setdiff1d"))
        if fn == "numpy.delete" and len(args) >= 2:
            a, b = args[0], args[1]
            ax = kw.get("axis") or (args[2] if len(args) > 2 else None)
            d = self.dom_of(b)
            if isinstance(a, Vec) and d is not None:
                axp = self.topoly(ax) if ax is not None and not (isinstance(ax, K) and ax.v is None) else None
                if ax is None or (isinstance(ax, K) and ax.v is None):
                    if a.ndim != 1:
                        return Sq(("opq", "np.delete without axis on a multi-dimensional container flattens it"))
                    axv = 0
                elif axp is not None and axp.is_const():
                    axv = int(axp.const())
                    if axv < 0:
                        axv += a.ndim
                else:
                    return Sq(("opq", "np.delete with a computed axis"))
                if axv != a.axis:
                    return Sq(("ex", f"np.delete along axis {axv}, which is not the channel axis"))
                j = self.fresh("v")
                return Sq(("for", j, P.c(0), P.s(f"n[{a.s!r}]"), ("if", ("notin", P.s(j), d), ("row", a.s, P.s(j)))))
            if isinstance(a, Sq):
                return Sq(("opq", "np.delete on an already selected block"))
            return E(e)
        if fn in CONCAT and args:
            a = args[0]
            if fn == "numpy.append" and len(args) >= 2:
                return Sq(cat(self.as_seq(args[0]), self.as_seq(args[1])))
            if isinstance(a, Tup):
                return Sq(cat(*[self.as_seq(x) for x in a.items]))
            if isinstance(a, Sq):
                return Sq(flatten_blocks(a.t))
            return Sq(("opq", f"{fn} of `{astq.src(e.args[0], 40)}`"))
        if fn in ("sum", "numpy.sum", "min", "max", "numpy.mean", "abs", "int", "float", "numpy.dot", "print", "isinstance", "numpy.linalg.norm"):
            return E(e)
        if fn == "dict" and not args:
            return Dct(kw)
        if fn == "slice" and 1 <= len(args) <= 3 and not kw:
            a = [None if isinstance(x, K) and x.v is None else x for x in args]
            if len(a) == 1:
                return Slc(None, a[0], None)
            return Slc(a[0], a[1], a[2] if len(a) == 3 else None)
        if fn == "numpy.take" and len(args) >= 2 and isinstance(args[0], Vec):
            ax = kw.get("axis") or (args[2] if len(args) > 2 else None)
            axp = self.topoly(ax) if ax is not None else None
            if axp is not None and axp.is_const() and int(axp.const()) % max(args[0].ndim, 1) == args[0].axis:
                return self.vec_index(args[0], [("slice", None, None, None)] * args[0].axis + [args[1]])
            return Sq(("opq", "np.take"))
        # package helpers: interpret
        r = self.prog.resolve_call(self.fi, e) if hasattr(self.prog, "resolve_call") else None
        if isinstance(r, FuncInfo) and self.depth < 3:
            m, errs = astq.bind_args(r.node, e, bound=False)
            bound = {}
            ok = not errs
            for p, a in m.items():
                if isinstance(a, ast.AST):
                    bound[p] = self.ev(a, env)
            self.calls.append((r.qual, bound, e, list(self.loops)))
            if ok and any(not isinstance(v, (E, I, K, Fn)) for v in bound.values()):
                sub = type(self)(self.prog, roles={}, types={}, depth=self.depth + 1, shared=self.sh)
                sub.loops = list(self.loops)
                def _validator_identity():
                    """a helper that hands back the per-setup reference lists it was given, each through order-keeping conversions only
                    (checks, asarray, reshape(-1), wrapping of negative numbers), IS those lists as far as order goes (sa/seqsig.order_flow)"""
                    cand = [p_ for p_, v_ in bound.items() if isinstance(v_, RefLists)]
                    if len(cand) != 1:
                        return None
                    from . import seqsig
                    rr = [x for x in ast.walk(r.node) if isinstance(x, ast.Return) and x.value is not None]
                    if not rr:
                        return None
                    try:
                        flows = {seqsig.order_flow(self.prog, r, x.value, {cand[0]}) for x in rr}
                    except Exception:
                        return None
                    return bound[cand[0]] if flows == {"kept"} else None
                try:
                    rets = sub.run(r, bound)
                except Exception as ex:       # a construct of the helper the interpreter does not model
                    vi = _validator_identity()
                    return vi if vi is not None else Sq(("opq", f"helper {r.node.name}: {type(ex).__name__}"))
                def opaque_val(v_):
                    return isinstance(v_, Sq) and bool(opaque(v_.t))
                if len(rets) == 1 and not opaque_val(rets[0][0]):
                    return rets[0][0]
                if rets and all(_same_val(x[0], rets[0][0]) for x in rets) and not opaque_val(rets[0][0]):
                    return rets[0][0]
                vi = _validator_identity()
                if vi is not None:
                    return vi
                if len(rets) == 1:
                    return rets[0][0]
                return Sq(("opq", f"helper {r.node.name} has several different returns"))
            return E(e)
        # unknown call: order preserving if it is a numpy ufunc-like applied to one selection?  no - opaque
        if any(isinstance(a, (Sq, Vec)) for a in args):
            nm = fn or astq.src(e.func, 30)
            if nm.startswith("numpy.") and nm.split(".")[-1] in ("real", "imag", "abs", "conj", "sqrt", "exp", "log", "sign", "angle", "float64", "complex128", "nan_to_num", "round", "around"):
                return args[0]
            return Sq(("opq", f"call {nm}(...) on a row selection"))
        return E(e)


def has_rows(v):
    if isinstance(v, Vec):
        return True
    return isinstance(v, Sq) and any(x[0] == "row" for x in walk(v.t))


def neg_cond(c):
    if c[0] == "in":
        return ("notin", c[1], c[2])
    if c[0] == "notin":
        return ("in", c[1], c[2])
    return ("c", "not (" + c[1] + ")")


def _same_val(a, b):
    if type(a) is not type(b):
        return False
    if isinstance(a, Sq):
        return canon(a.t) == canon(b.t)
    if isinstance(a, E):
        return astq.dump(a.node) == astq.dump(b.node)
    if isinstance(a, I):
        return a.p == b.p
    if isinstance(a, K):
        return a.v == b.v
    if isinstance(a, Vec):
        return a.s == b.s and a.axis == b.axis
    if isinstance(a, RefL):
        return a.dom == b.dom
    if isinstance(a, Tup):
        return len(a.items) == len(b.items) and all(_same_val(x, y) for x, y in zip(a.items, b.items))
    if isinstance(a, ObjVal):
        return a == b
    return a is b


def _only_raises(body):
    return bool(body) and all(isinstance(s, (ast.Raise, ast.Expr, ast.Pass)) or (isinstance(s, ast.If) and _only_raises(s.body) and (not s.orelse or _only_raises(s.orelse))) for s in body) \
        and any(isinstance(s, ast.Raise) for s in ast.walk(ast.Module(body=list(body), type_ignores=[])))


def _assigned(body):
    out = set()
    for s in body:
        for n in ast.walk(s):
            if isinstance(n, ast.Name) and isinstance(n.ctx, ast.Store):
                out.add(n.id)
    return out


def _mutated(body):
    out = set()
    for s in body:
        for n in ast.walk(s):
            if isinstance(n, ast.Call) and isinstance(n.func, ast.Attribute) and isinstance(n.func.value, ast.Name) and n.func.attr in ("append", "extend", "insert", "remove", "pop", "sort", "reverse", "clear"):
                out.add(n.func.value.id)
    return out


# ----------------------------------------------------------------------------- expected orders
def LISTED(s, r):
    return ("forin", "c0", ("ref", P.lift(s)), ("row", P.lift(s) if r is None else P.lift(r), P.s("c0")))


def listed(s, r=None):
    """rows of setup s at the reference indices of setup r (default s), in listed order"""
    r = s if r is None else r
    return ("forin", "c0", ("ref", P.lift(r)), ("row", P.lift(s), P.s("c0")))


def roving(s, r=None):
    """rows of setup s that are not reference indices of setup r (default s), ascending"""
    r = s if r is None else r
    s, r = P.lift(s), P.lift(r)
    return ("for", "v0", P.c(0), P.s(f"n[{s!r}]"), ("if", ("notin", P.s("v0"), ("ref", r)), ("row", s, P.s("v0"))))


def global_order(first=None):
    """[first ; roving rows of every setup in setup order]; first defaults to the first setup's reference rows in listed order"""
    i = P.s("v9")
    body = tsubs(roving(P.s("v9")), "v9", i)
    return cat(first if first is not None else listed(0), ("for", "v9", P.c(0), P.s("N"), body))
