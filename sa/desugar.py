"""Staging away record plumbing: a semantics-preserving AST normaliser run on every module before it is indexed.

The rules of sa/props decide facts such as "run() stores the Fn table in result.Fn_poles" or "mpe() hands the
covariances over".  Code can express the same fact through any amount of *static metaprogramming*: field-name
tuples at module level, dict(zip(FIELDS, routine(...))) forwarded with **, option dicts built with update(),
setattr/getattr loops over name tuples, helpers that take **opts or a dict of tables.  None of this is a runtime
quantity - the keys, the names and the arities are all written in the source - so it is evaluated away here, once,
for all engines, and what they see is the explicit program (keyword calls, attribute stores, one variable per
dict field).  Every step is either a local rewrite that cannot change behaviour or is skipped (Bail): an
unrecognised form is simply left as it was, and the engines keep their own three-valued treatment of it.

    module constants        NAME = ("a", "b")  ->  uses of NAME replaced by the literal
    folds                   getattr(o, "a") -> o.a ; f"{'Fn'}_cov" -> "Fn_cov" ; dict(zip(LIT, X)) -> {...} ;
                            dict(d, k=v), {**d} ; f(*LIT) , f(**LITDICT) -> explicit arguments ;
                            comprehensions over literal sequences -> literals ; "k" in LITDICT ; c == "lit"
    statements              setattr(o, "a", v) -> o.a = v ; for x in LIT: ... -> unrolled ; if <const>: pruned
    records                 a local bound to a dict with constant keys lives in one variable per key
                            (t = {...}; t["k"]; t.update(...); **t; t.items(); dict(t, ...)); it is put back
                            together ({k: t__k}) where it escapes
    tuples                  a local bound to a tuple / never-mutated list literal: *t, t[i], zip(LIT, t), for x in t
    helpers                 calls of private same-module helpers that move records around (**kw parameters,
                            dict / tuple literals in or out, setattr loops over a parameter) are inlined at
                            statement level (early returns are turned into if/else chains)

The normaliser is validated by executing its output (tools/desugar_check.py: the repository's test suite and the
equivalence harnesses of the refactoring corpus run on the unparsed trees); that is a test of this tool, not a
property check.
"""
import ast
import copy
import os

MAXUNROLL = 24
# which private same-module helpers are inlined at statement level: "all", or only those that move records around ("plumbing")
INLINE_POLICY = os.environ.get("VERIF_INLINE", "simple")
MAXSTMTS = 600
SEP = "__"


class Bail(Exception):
    pass


# ----------------------------------------------------------------------------------------------- small helpers
def is_const_lit(n):
    if isinstance(n, ast.Constant):
        return True
    if isinstance(n, ast.UnaryOp) and isinstance(n.op, (ast.USub, ast.UAdd)) and isinstance(n.operand, ast.Constant):
        return True
    if isinstance(n, ast.Tuple):
        return all(is_const_lit(e) for e in n.elts)
    return False


def const_key(n):
    return isinstance(n, ast.Constant) and isinstance(n.value, str)


def is_rec_lit(n):
    return isinstance(n, ast.Dict) and all(k is not None and const_key(k) for k in n.keys)


def is_seq_lit(n):
    return isinstance(n, (ast.Tuple, ast.List)) and not any(isinstance(e, ast.Starred) for e in n.elts)


def is_atom(n):
    if isinstance(n, (ast.Name, ast.Constant)):
        return True
    if isinstance(n, ast.Attribute):
        return is_atom(n.value)
    if isinstance(n, ast.Subscript):
        return is_atom(n.value) and isinstance(n.slice, ast.Constant)
    return False


def name(id_, ctx=None, at=None):
    n = ast.Name(id=id_, ctx=ctx or ast.Load())
    return ast.copy_location(n, at) if at is not None else n


def const(v, at=None):
    n = ast.Constant(value=v)
    return ast.copy_location(n, at) if at is not None else n


def load(n):
    """a deep copy of an expression in Load context"""
    n = copy.deepcopy(n)
    for x in ast.walk(n):
        if hasattr(x, "ctx"):
            x.ctx = ast.Load()
    return n


def own_nodes(stmts):
    """nodes of a statement list that belong to the same scope (nested defs / lambdas / classes are not entered)"""
    todo = list(stmts)
    while todo:
        n = todo.pop()
        yield n
        for c in ast.iter_child_nodes(n):
            if isinstance(c, (ast.FunctionDef, ast.AsyncFunctionDef, ast.Lambda, ast.ClassDef)):
                yield c  # the def itself (its name is bound here), not its body
                continue
            todo.append(c)


def params_of(fn):
    a = fn.args
    out = [x.arg for x in a.posonlyargs + a.args + a.kwonlyargs]
    if a.vararg:
        out.append(a.vararg.arg)
    if a.kwarg:
        out.append(a.kwarg.arg)
    return out


def comp_targets(n):
    out = set()
    for g in getattr(n, "generators", []):
        for x in ast.walk(g.target):
            if isinstance(x, ast.Name):
                out.add(x.id)
    return out


def bound_names(fn):
    """names bound in the function's own scope"""
    out = set(params_of(fn)) if isinstance(fn, (ast.FunctionDef, ast.AsyncFunctionDef, ast.Lambda)) else set()
    body = fn.body if isinstance(fn.body, list) else [fn.body]
    skip = set()
    comp = set()
    for n in own_nodes(body):
        if isinstance(n, ast.Name) and isinstance(n.ctx, (ast.Store, ast.Del)):
            out.add(n.id)
        elif isinstance(n, (ast.FunctionDef, ast.AsyncFunctionDef, ast.ClassDef)):
            out.add(n.name)
        elif isinstance(n, (ast.Import, ast.ImportFrom)):
            for al in n.names:
                out.add((al.asname or al.name).split(".")[0])
        elif isinstance(n, ast.ExceptHandler) and n.name:
            out.add(n.name)
        elif isinstance(n, (ast.Global, ast.Nonlocal)):
            skip.update(n.names)
        elif isinstance(n, (ast.ListComp, ast.SetComp, ast.DictComp, ast.GeneratorExp)):
            comp |= comp_targets(n)
    # (comprehension targets are counted as well: harmless, they are only ever renamed together with their uses)
    return out - skip


def rename(node, mapping):
    """scope-aware renaming of Name nodes (a copy is returned)"""
    if not mapping:
        return copy.deepcopy(node)

    def ren(n, mp):
        if isinstance(n, ast.Name):
            if n.id in mp:
                return ast.copy_location(ast.Name(id=mp[n.id], ctx=n.ctx), n)
            return copy.copy(n)
        if isinstance(n, (ast.FunctionDef, ast.AsyncFunctionDef, ast.Lambda)):
            inner = {k: v for k, v in mp.items() if k not in bound_names(n)}
            m = copy.copy(n)
            if not isinstance(n, ast.Lambda):
                m.name = mp.get(n.name, n.name)
                m.decorator_list = [ren(d, mp) for d in n.decorator_list]
                m.body = [ren(s, inner) for s in n.body]
                m.returns = n.returns
            else:
                m.body = ren(n.body, inner)
            a = copy.copy(n.args)
            a.defaults = [ren(d, mp) for d in n.args.defaults]
            a.kw_defaults = [ren(d, mp) if d is not None else None for d in n.args.kw_defaults]
            m.args = a
            return m
        if isinstance(n, (ast.ListComp, ast.SetComp, ast.DictComp, ast.GeneratorExp)):
            # targets are renamed together with their uses: harmless (they are private to the comprehension)
            pass
        m = copy.copy(n)
        for f, v in ast.iter_fields(n):
            if isinstance(v, list):
                setattr(m, f, [ren(x, mp) if isinstance(x, ast.AST) else x for x in v])
            elif isinstance(v, ast.AST):
                setattr(m, f, ren(v, mp))
        return m

    return ren(node, mapping)


def subst(node, mapping):
    """replace loads of the mapped names by (copies of) expressions; scope-aware like rename"""
    def sub(n, mp):
        if not mp:
            return copy.deepcopy(n)
        if isinstance(n, ast.Name):
            if n.id in mp and isinstance(n.ctx, ast.Load):
                return ast.copy_location(load(mp[n.id]), n)
            return copy.copy(n)
        if isinstance(n, ast.Lambda):
            inner = {k: v for k, v in mp.items() if k not in bound_names(n)}
            m = copy.copy(n)
            m.body = sub(n.body, inner)
            return m
        if isinstance(n, (ast.ListComp, ast.SetComp, ast.DictComp, ast.GeneratorExp)):
            inner = {k: v for k, v in mp.items() if k not in comp_targets(n)}
            m = copy.copy(n)
            gens = []
            first = True
            for g in n.generators:
                g2 = copy.copy(g)
                g2.iter = sub(g.iter, mp if first else inner)
                g2.ifs = [sub(i, inner) for i in g.ifs]
                g2.target = copy.deepcopy(g.target)
                gens.append(g2)
                first = False
            m.generators = gens
            for f in ("elt", "key", "value"):
                if hasattr(n, f):
                    setattr(m, f, sub(getattr(n, f), inner))
            return m
        m = copy.copy(n)
        for f, v in ast.iter_fields(n):
            if isinstance(v, list):
                setattr(m, f, [sub(x, mp) if isinstance(x, ast.AST) else x for x in v])
            elif isinstance(v, ast.AST):
                setattr(m, f, sub(v, mp))
        return m

    return sub(node, mapping)


def terminates(stmts):
    if not stmts:
        return False
    s = stmts[-1]
    if isinstance(s, (ast.Return, ast.Raise, ast.Continue, ast.Break)):
        return True
    if isinstance(s, ast.If):
        return bool(s.orelse) and terminates(s.body) and terminates(s.orelse)
    return False


def dead_end(stmts):
    """control never continues after these statements in the enclosing FUNCTION (break / continue do continue)"""
    if not stmts:
        return False
    s = stmts[-1]
    if isinstance(s, (ast.Return, ast.Raise)):
        return True
    if isinstance(s, ast.If):
        return bool(s.orelse) and dead_end(s.body) and dead_end(s.orelse)
    return False


def own_stmts(stmts):
    """the statements of a body, nested blocks included, nested function / class bodies not"""
    for st in stmts:
        yield st
        if isinstance(st, (ast.FunctionDef, ast.AsyncFunctionDef, ast.ClassDef)):
            continue
        for f in ("body", "orelse", "finalbody"):
            sub = getattr(st, f, None)
            if isinstance(sub, list) and sub and isinstance(sub[0], ast.stmt):
                yield from own_stmts(sub)
        for h in getattr(st, "handlers", []) or []:
            yield from own_stmts(h.body)
        for c in getattr(st, "cases", []) or []:
            yield from own_stmts(c.body)


def has_node(stmts, kinds):
    return any(isinstance(n, kinds) for n in own_nodes(stmts))


def single_exit(stmts, kind, on_exit, final=()):
    """`stmts` with every exit statement of `kind` (Return / Continue) replaced by on_exit(stmt); the code after a
    conditional exit moves into the branches that do not exit.  Exits inside loops / try / with: Bail."""
    budget = [MAXSTMTS]

    def seq(ss, cont):
        if not ss:
            return [copy.deepcopy(c) for c in cont]
        s, rest = ss[0], ss[1:]
        budget[0] -= 1
        if budget[0] < 0:
            raise Bail("too large")
        if isinstance(s, kind):
            return on_exit(s)
        if isinstance(s, ast.If) and has_node([s], kind):
            tail = seq(rest, cont)
            m = copy.copy(s)
            m.body = seq(s.body, [] if terminates_plain(s.body, kind) else tail) or [ast.copy_location(ast.Pass(), s)]
            m.orelse = seq(s.orelse, [] if terminates_plain(s.orelse, kind) else tail)
            return [m]
        if has_node([s], kind):
            if isinstance(s, (ast.For, ast.While)) and kind is ast.Continue:
                return [copy.deepcopy(s)] + seq(rest, cont)       # a continue of an inner loop
            raise Bail("exit inside a compound statement")
        return [copy.deepcopy(s)] + seq(rest, cont)

    def terminates_plain(ss, kind):
        # a branch that always raises needs no tail either
        return bool(ss) and isinstance(ss[-1], ast.Raise)

    return seq(list(stmts), list(final))


# ----------------------------------------------------------------------------------------------- abstract values
class Rec:
    """a local dict with constant keys: key -> name of the variable holding the value"""
    def __init__(self, var, fields=None):
        self.var = var
        self.fields = dict(fields or {})

    def copy(self):
        return Rec(self.var, self.fields)


class Tup:
    """a local tuple / list of known length: names of the variables holding the items"""
    def __init__(self, var, items, kind):
        self.var = var
        self.items = list(items)
        self.kind = kind            # ast.Tuple | ast.List

    def copy(self):
        return Tup(self.var, self.items, self.kind)


class ObjCopy:
    """a local bound to base.model_copy(update={..}) / copy.copy(base) of an object whose attribute is not re-bound in the function:
    reading a field gives the update (one variable per key) or the base's field"""

    def __init__(self, var, base, fields):
        self.var, self.base, self.fields = var, base, dict(fields)

    def copy(self):
        return ObjCopy(self.var, self.base, self.fields)


class Con:
    def __init__(self, node):
        self.node = node

    def copy(self):
        return self


def tup_same(a, b):
    return len(a.items) == len(b.items) and all((x == y) if isinstance(x, str) or isinstance(y, str) else ast.dump(x) == ast.dump(y) for x, y in zip(a.items, b.items))


def env_copy(env):
    memo = {}
    out = {}
    for k, v in env.items():
        if id(v) not in memo:
            memo[id(v)] = v.copy()
        out[k] = memo[id(v)]
    return out


class NotConst(Exception):
    pass


STR_PURE = {"strip", "lstrip", "rstrip", "lower", "upper", "casefold", "title", "capitalize", "replace", "startswith", "endswith",
            "removeprefix", "removesuffix"}


def const_eval(n, consts, bound=None):
    """the value of an expression made of constants only: literals, known constant names, tuples with *spread, + of tuples / strings,
    f-strings, comprehensions over constant sequences, slices with constant bounds, tuple(..) / reversed(..) / sorted(..)"""
    bound = bound or {}
    if isinstance(n, ast.Constant):
        return n.value
    if isinstance(n, ast.UnaryOp) and isinstance(n.op, (ast.USub, ast.UAdd)):
        v = const_eval(n.operand, consts, bound)
        if isinstance(v, (int, float)) and not isinstance(v, bool):
            return -v if isinstance(n.op, ast.USub) else v
        raise NotConst
    if isinstance(n, ast.Name):
        if n.id in bound:
            return bound[n.id]
        if n.id in consts:
            return const_eval(consts[n.id], {}, {})
        raise NotConst
    if isinstance(n, (ast.Tuple, ast.List)):
        out = []
        for e in n.elts:
            if isinstance(e, ast.Starred):
                v = const_eval(e.value, consts, bound)
                if not isinstance(v, tuple):
                    raise NotConst
                out.extend(v)
            else:
                out.append(const_eval(e, consts, bound))
        return tuple(out)
    if isinstance(n, ast.BinOp) and isinstance(n.op, ast.Add):
        a, b = const_eval(n.left, consts, bound), const_eval(n.right, consts, bound)
        if (isinstance(a, tuple) and isinstance(b, tuple)) or (isinstance(a, str) and isinstance(b, str)):
            return a + b
        raise NotConst
    if isinstance(n, ast.JoinedStr):
        parts = []
        for v in n.values:
            if isinstance(v, ast.Constant):
                parts.append(str(v.value))
            elif isinstance(v, ast.FormattedValue) and v.conversion == -1 and v.format_spec is None:
                x = const_eval(v.value, consts, bound)
                if not isinstance(x, (str, int)) or isinstance(x, bool):
                    raise NotConst
                parts.append(str(x))
            else:
                raise NotConst
        return "".join(parts)
    if isinstance(n, (ast.GeneratorExp, ast.ListComp)) and len(n.generators) == 1:
        g = n.generators[0]
        it = const_eval(g.iter, consts, bound)
        if not isinstance(it, tuple) or g.is_async or not isinstance(g.target, ast.Name) or len(it) > 64:
            raise NotConst
        out = []
        for x in it:
            b2 = dict(bound, **{g.target.id: x})
            if all(const_eval(c, consts, b2) for c in g.ifs):
                out.append(const_eval(n.elt, consts, b2))
        return tuple(out)
    if isinstance(n, ast.Compare) and len(n.ops) == 1 and isinstance(n.ops[0], (ast.In, ast.NotIn, ast.Eq, ast.NotEq)):
        a, b = const_eval(n.left, consts, bound), const_eval(n.comparators[0], consts, bound)
        try:
            r = {ast.In: lambda: a in b, ast.NotIn: lambda: a not in b, ast.Eq: lambda: a == b, ast.NotEq: lambda: a != b}[type(n.ops[0])]()
        except TypeError:
            raise NotConst
        return r
    if isinstance(n, ast.Subscript) and isinstance(n.value, ast.Dict) and all(isinstance(k, ast.Constant) for k in n.value.keys):
        # {"a": x, ..}[key]: the entry (a key that is not there raises - no value)
        key = const_eval(n.slice, consts, bound)
        hit = [v for k, v in zip(n.value.keys, n.value.values) if type(k.value) is type(key) and k.value == key]
        if not hit:
            raise NotConst
        return const_eval(hit[-1], consts, bound)
    if isinstance(n, ast.Call) and isinstance(n.func, ast.Name) and n.func.id == "str" and len(n.args) == 1 and not n.keywords:
        v = const_eval(n.args[0], consts, bound)
        if isinstance(v, str):
            return v
        raise NotConst
    if isinstance(n, ast.Call) and isinstance(n.func, ast.Attribute) and n.func.attr in STR_PURE and not n.keywords:
        v = const_eval(n.func.value, consts, bound)
        args = [const_eval(a, consts, bound) for a in n.args]
        if isinstance(v, str) and all(isinstance(a, (str, int)) for a in args):
            try:
                r = getattr(v, n.func.attr)(*args)
            except Exception:
                raise NotConst
            if isinstance(r, (str, bool)):
                return r
        raise NotConst
    if isinstance(n, ast.Subscript):
        v = const_eval(n.value, consts, bound)
        if not isinstance(v, (tuple, str)):
            raise NotConst
        if isinstance(n.slice, ast.Slice):
            lo, hi, st = (None if x is None else const_eval(x, consts, bound) for x in (n.slice.lower, n.slice.upper, n.slice.step))
            if any(x is not None and (not isinstance(x, int) or isinstance(x, bool)) for x in (lo, hi, st)):
                raise NotConst
            return v[lo:hi:st]
        i = const_eval(n.slice, consts, bound)
        if isinstance(i, int) and not isinstance(i, bool) and -len(v) <= i < len(v):
            return v[i]
        raise NotConst
    if isinstance(n, ast.Call) and isinstance(n.func, ast.Name) and n.func.id in ("tuple", "reversed", "sorted", "list") and len(n.args) == 1 and not n.keywords:
        v = const_eval(n.args[0], consts, bound)
        if not isinstance(v, tuple):
            raise NotConst
        try:
            return {"tuple": tuple, "list": tuple, "reversed": lambda x: tuple(reversed(x)), "sorted": lambda x: tuple(sorted(x))}[n.func.id](v)
        except TypeError:
            raise NotConst
    raise NotConst


def lit_of(v, at=None):
    """the display of a constant value (nested tuples of str / int / float / bool / None)"""
    if isinstance(v, tuple):
        t = ast.Tuple(elts=[lit_of(x, at) for x in v], ctx=ast.Load())
        return ast.copy_location(t, at) if at is not None else t
    if isinstance(v, (int, float)) and not isinstance(v, bool) and v < 0:
        u = ast.UnaryOp(op=ast.USub(), operand=ast.Constant(value=-v))
        return ast.fix_missing_locations(ast.copy_location(u, at)) if at is not None else u
    c = ast.Constant(value=v)
    return ast.copy_location(c, at) if at is not None else c


NP_COMPARE = {"less": ast.Lt, "less_equal": ast.LtE, "greater": ast.Gt, "greater_equal": ast.GtE, "equal": ast.Eq, "not_equal": ast.NotEq}

RO_DICT_METHODS = {"get", "items", "keys", "values", "copy"}
RO_DICT_CALLS = {"dict", "len", "list", "sorted", "tuple", "set", "frozenset", "enumerate", "iter", "reversed", "zip"}


def const_dict_lit(val, fnames=()):
    """{"k": <literal>, ..} / dict(k=<literal>, ..) with string keys and constant values, as a Dict display; else None"""
    if isinstance(val, ast.Call) and isinstance(val.func, ast.Name) and val.func.id == "dict" and not val.args and val.keywords \
            and all(k.arg is not None and is_const_lit(k.value) for k in val.keywords):
        d = ast.Dict(keys=[ast.copy_location(ast.Constant(value=k.arg), val) for k in val.keywords], values=[k.value for k in val.keywords])
        return ast.copy_location(d, val)
    def ok(v):
        if is_const_lit(v) or closed_lambda(v):
            return True
        if isinstance(v, ast.Name):
            # a function / class / imported name of the module, bound once; or a builtin type used as a value
            return v.id in fnames or v.id in ("float", "int", "str", "bool", "complex", "list", "tuple", "dict", "object")
        if isinstance(v, ast.Tuple) and not any(isinstance(x, ast.Starred) for x in v.elts):
            return all(ok(x) for x in v.elts)
        if isinstance(v, ast.Dict) and all(k is not None and const_key(k) for k in v.keys):
            return all(ok(x) for x in v.values)
        return False
    if isinstance(val, ast.Dict) and val.keys and all(k is not None and const_key(k) for k in val.keys) and all(ok(v) for v in val.values):
        return val
    return None


def _has_mutable_entries(d):
    return isinstance(d, ast.Dict) and any(isinstance(v, (ast.Dict, ast.List, ast.Set)) for v in d.values)


def closed_lambda(v, stable=None):
    """a lambda with plain positional parameters whose body reads its parameters, constants and dotted library names (np.x) only
    (plus, with `stable`, names that are never re-bound where it is applied: self, module-level functions)"""
    if not isinstance(v, ast.Lambda):
        return False
    a = v.args
    if a.vararg or a.kwarg or a.kwonlyargs or a.defaults or a.posonlyargs:
        return False
    ps = {x.arg for x in a.args}
    for n in ast.walk(v.body):
        if isinstance(n, (ast.Lambda, ast.NamedExpr, ast.Yield, ast.YieldFrom, ast.Await, ast.ListComp, ast.SetComp, ast.DictComp, ast.GeneratorExp)):
            return False
        if isinstance(n, ast.Name) and n.id not in ps and n.id not in ("np", "numpy", "signal", "scipy", "math", "True", "False", "None", "int", "float", "len", "abs", "min", "max"):
            if stable is None or not stable(n.id):
                return False
    return True


def _enclosing_fn(parent, n):
    while n is not None and not isinstance(n, (ast.FunctionDef, ast.AsyncFunctionDef, ast.Lambda)):
        n = parent.get(id(n))
    return n


def _extracted_ro(x, parent, depth=0):
    """x is an expression that yields an ENTRY of a table whose entries are themselves dictionaries / lists (TABLE[k], TABLE.get(k, {}),
    an item of TABLE.values()): the entry is the table's own object, so the table is a constant only if the entry is only read too -
    indexed, looked up, iterated, copied (dict(x) / list(x) / {**x}), spread; bound to a name, every use of that name likewise"""
    p_ = parent.get(id(x))
    while isinstance(p_, (ast.IfExp, ast.BoolOp)) and (x is not getattr(p_, "test", None)):
        x, p_ = p_, parent.get(id(p_))
    g_ = parent.get(id(p_)) if p_ is not None else None
    if isinstance(p_, ast.Subscript) and p_.value is x and isinstance(p_.ctx, ast.Load):
        return True
    if isinstance(p_, ast.Attribute) and p_.value is x and p_.attr in RO_DICT_METHODS and isinstance(g_, ast.Call) and g_.func is p_:
        return True
    if isinstance(p_, ast.Compare):
        return True
    if isinstance(p_, (ast.For, ast.comprehension)) and p_.iter is x:
        return True
    if isinstance(p_, ast.Call) and isinstance(p_.func, ast.Name) and p_.func.id in RO_DICT_CALLS and any(a is x for a in p_.args):
        return True
    if isinstance(p_, ast.keyword) and p_.arg is None and p_.value is x:
        return True
    if isinstance(p_, (ast.FormattedValue, ast.Starred)):
        return True
    if isinstance(p_, ast.Dict) and any(k is None and v is x for k, v in zip(p_.keys, p_.values)):
        return True
    if isinstance(p_, ast.Call) and isinstance(p_.func, ast.Attribute) and p_.func.attr == "update" and any(a is x for a in p_.args) and p_.func.value is not x:
        return True
    if isinstance(p_, ast.Expr):
        return True
    if isinstance(p_, (ast.Assign, ast.AnnAssign)) and getattr(p_, "value", None) is x and depth < 2:
        tg = p_.targets if isinstance(p_, ast.Assign) else [p_.target]
        if len(tg) == 1 and isinstance(tg[0], ast.Name):
            fn = _enclosing_fn(parent, p_)
            if fn is None or isinstance(fn, ast.Lambda):
                return False
            nm = tg[0].id
            for n in ast.walk(fn):
                if isinstance(n, ast.Name) and n.id == nm and isinstance(n.ctx, ast.Load) and not _extracted_ro(n, parent, depth + 1):
                    return False
                if isinstance(n, ast.Name) and n.id == nm and isinstance(n.ctx, ast.Del):
                    return False
            return True
    return False


def read_only_refs(tree, is_ref, _depth=0, nested=False):
    """every node r of tree with is_ref(r) stands where the dictionary it names is only read: r[k], r.get/items/keys/values/copy(..),
    k in r, iteration, dict(r) / len(r) / sorted(r) .., **r, other.update(r), helper(r) where the helper only reads that parameter.
    nested: the table's entries are dictionaries / lists themselves - an entry taken out of it must only be read as well"""
    funcs = {n.name: n for n in getattr(tree, "body", []) if isinstance(n, ast.FunctionDef)}
    parent = {}
    for n in ast.walk(tree):
        for c in ast.iter_child_nodes(n):
            parent[id(c)] = n
    for r in ast.walk(tree):
        if not is_ref(r):
            continue
        p_ = parent.get(id(r))
        g_ = parent.get(id(p_)) if p_ is not None else None
        if isinstance(p_, ast.Subscript) and p_.value is r and isinstance(p_.ctx, ast.Load):
            if nested and not _extracted_ro(p_, parent):
                return False
            continue
        if isinstance(p_, ast.Attribute) and p_.value is r and p_.attr in RO_DICT_METHODS and isinstance(g_, ast.Call) and g_.func is p_:
            if nested and p_.attr in ("get", "values", "items", "copy"):
                if p_.attr == "get" and not _extracted_ro(g_, parent):
                    return False
                if p_.attr != "get":
                    # the entries reach loop variables / a shallow copy: followed only for the plain `for k, v in T.items()` whose v is read
                    gp = parent.get(id(g_))
                    if not (isinstance(gp, (ast.For, ast.comprehension)) and gp.iter is g_):
                        return False
                    fn = _enclosing_fn(parent, gp)
                    names = [t.id for t in ast.walk(gp.target) if isinstance(t, ast.Name)]
                    scope = fn if fn is not None and not isinstance(fn, ast.Lambda) else tree
                    for n in ast.walk(scope):
                        if isinstance(n, ast.Name) and n.id in names and isinstance(n.ctx, ast.Load) and not _extracted_ro(n, parent, 1):
                            return False
            continue
        if isinstance(p_, ast.Compare) and any(c is r for c in p_.comparators) and all(isinstance(o, (ast.In, ast.NotIn)) for o in p_.ops):
            continue
        if isinstance(p_, (ast.For, ast.comprehension)) and p_.iter is r:
            continue
        if isinstance(p_, ast.Call) and isinstance(p_.func, ast.Name) and p_.func.id in RO_DICT_CALLS and any(a is r for a in p_.args):
            if nested and p_.func.id in ("dict", "list", "tuple", "iter", "zip", "enumerate", "reversed", "sorted"):
                return False        # a shallow copy / iterator still hands out the table's own entries: not followed
            continue
        if isinstance(p_, ast.keyword) and p_.arg is None and p_.value is r:
            continue
        if isinstance(p_, ast.FormattedValue) and p_.value is r:
            continue            # printed in a message
        if isinstance(p_, ast.Starred) and p_.value is r and isinstance(p_.ctx, ast.Load):
            continue            # spread into a call / display
        if isinstance(p_, ast.Dict) and any(k is None and v is r for k, v in zip(p_.keys, p_.values)):
            continue
        if isinstance(p_, ast.Call) and isinstance(p_.func, ast.Attribute) and p_.func.attr == "update" and any(a is r for a in p_.args) and p_.func.value is not r:
            continue
        if isinstance(p_, ast.Call) and isinstance(p_.func, ast.Name) and p_.func.id in funcs and _depth < 2 and not any(isinstance(a, ast.Starred) for a in p_.args):
            # handed to a function of the same module: fine when that parameter is only read there
            fn = funcs[p_.func.id]
            a_ = fn.args
            pos = [x.arg for x in a_.posonlyargs + a_.args]
            i = next((k for k, a in enumerate(p_.args) if a is r), None)
            pname, spread = None, False
            if i is not None and i < len(pos):
                pname = pos[i]
            elif i is not None and a_.vararg is not None:
                pname, spread = a_.vararg.arg, True
            if pname is not None and _param_read_only(fn, pname, spread, _depth):
                continue
        return False
    return True


def _param_read_only(fn, pname, spread, depth):
    """the dictionary handed in as parameter pname (or as one of *pname) is only read in fn"""
    if any(isinstance(n, ast.Name) and n.id == pname and isinstance(n.ctx, (ast.Store, ast.Del)) for n in ast.walk(fn)):
        return False
    if not spread:
        return read_only_refs(fn, lambda r: isinstance(r, ast.Name) and r.id == pname and isinstance(r.ctx, ast.Load), depth + 1)
    # *pname: every use is `for x in pname` with x only read
    for n in ast.walk(fn):
        if isinstance(n, ast.Name) and n.id == pname and isinstance(n.ctx, ast.Load):
            loops = [l for l in ast.walk(fn) if isinstance(l, (ast.For, ast.comprehension)) and l.iter is n and isinstance(l.target, ast.Name)]
            if not loops:
                return False
            for l in loops:
                v = l.target.id
                if sum(1 for x in ast.walk(fn) if isinstance(x, ast.Name) and x.id == v and isinstance(x.ctx, (ast.Store, ast.Del))) != 1:
                    return False
                if not read_only_refs(fn, lambda r, v=v: isinstance(r, ast.Name) and r.id == v and isinstance(r.ctx, ast.Load), depth + 1):
                    return False
    return True


# ----------------------------------------------------------------------------------------------- module tables
class ModTab:
    def __init__(self, modname, tree):
        self.name = modname
        self.tree = tree
        self.funcs = {}
        self.classes = {}
        self.consts = {}
        self.counter = 0
        seen = {}
        for n in tree.body:
            if isinstance(n, (ast.FunctionDef,)):
                self.funcs[n.name] = n
            elif isinstance(n, ast.ClassDef):
                self.classes[n.name] = n
            tg = None
            if isinstance(n, ast.Assign) and len(n.targets) == 1 and isinstance(n.targets[0], ast.Name):
                tg, val = n.targets[0].id, n.value
            elif isinstance(n, ast.AnnAssign) and isinstance(n.target, ast.Name) and n.value is not None:
                tg, val = n.target.id, n.value
            if tg:
                seen[tg] = seen.get(tg, 0) + 1
                if is_const_lit(val) and isinstance(val, (ast.Tuple,)) or (isinstance(val, ast.Constant) and isinstance(val.value, str)):
                    self.consts[tg] = val
                elif isinstance(val, ast.Constant) and isinstance(val.value, (int, float)) and not isinstance(val.value, bool) and n in tree.body:
                    self.consts[tg] = val           # a named number (N_REQUIRED = 3)
                elif isinstance(val, ast.List) and val.elts and all(is_const_lit(x) for x in val.elts) and n in tree.body:
                    # a list of names / numbers that is only ever read: every use may as well see the display
                    if read_only_refs(tree, lambda r, tg=tg: isinstance(r, ast.Name) and r.id == tg and isinstance(r.ctx, ast.Load)):
                        self.consts[tg] = val
                        self.dict_consts = getattr(self, "dict_consts", set()) | {tg}
                elif isinstance(val, (ast.Tuple, ast.BinOp, ast.Subscript, ast.Call)) and n in tree.body and not isinstance(n, ast.AugAssign):
                    # a tuple of names put together from other constants: (*A, *(f"{x}_cov" for x in A), "Phi"), A + ("x",), A[:3]
                    try:
                        v_ = const_eval(val, self.consts)
                        if isinstance(v_, tuple) and all(isinstance(x, (str, int, float, bool, type(None), tuple)) for x in v_):
                            self.consts[tg] = ast.fix_missing_locations(lit_of(v_, val))
                    except (NotConst, RecursionError):
                        pass
                elif const_dict_lit(val, self._fnames(tree)) is not None and n in tree.body:
                    # a table that is only ever read (handing it to a function, storing into it, returning it: not a constant)
                    if read_only_refs(tree, lambda r, tg=tg: isinstance(r, ast.Name) and r.id == tg and isinstance(r.ctx, ast.Load),
                                      nested=_has_mutable_entries(const_dict_lit(val, self._fnames(tree)))):
                        self.consts[tg] = const_dict_lit(val, self._fnames(tree))
                        self.dict_consts = getattr(self, "dict_consts", set()) | {tg}
        for n in ast.walk(tree):
            if isinstance(n, ast.Global):
                for g in n.names:
                    seen[g] = 99
            elif isinstance(n, ast.Name) and isinstance(n.ctx, (ast.Store, ast.Del)) and n.id in self.consts:
                pass
        # bound more than once anywhere at module level (or through `global`) -> not a constant
        stores = {}
        for n in own_nodes(tree.body):
            if isinstance(n, ast.Name) and isinstance(n.ctx, (ast.Store, ast.Del)):
                stores[n.id] = stores.get(n.id, 0) + 1
        for k in list(self.consts):
            if seen.get(k, 0) != 1 or stores.get(k, 0) != 1 or k == "__all__":
                del self.consts[k]

    def imports(self):
        """names bound by import statements at module level (np, signal, gen, ...)"""
        if not hasattr(self, "_imports"):
            self._imports = set()
            for n in self.tree.body:
                if isinstance(n, (ast.Import, ast.ImportFrom)):
                    for a in n.names:
                        self._imports.add((a.asname or a.name).split(".")[0])
        return self._imports

    def _fnames(self, tree):
        """module-level functions bound exactly once (a dispatch table may name them)"""
        if not hasattr(self, "_fn_names"):
            cnt = {}
            for n in ast.walk(tree):
                if isinstance(n, (ast.FunctionDef, ast.AsyncFunctionDef, ast.ClassDef)):
                    cnt[n.name] = cnt.get(n.name, 0) + 1
                elif isinstance(n, ast.Name) and isinstance(n.ctx, (ast.Store, ast.Del)):
                    cnt[n.id] = cnt.get(n.id, 0) + 1
            self._fn_names = {n.name for n in tree.body if isinstance(n, (ast.FunctionDef, ast.ClassDef)) and cnt.get(n.name) == 1}
            # names bound by an import and nowhere else
            for n in tree.body:
                if isinstance(n, (ast.Import, ast.ImportFrom)):
                    for a in n.names:
                        nm_ = (a.asname or a.name).split(".")[0]
                        if cnt.get(nm_, 0) == 0:
                            self._fn_names.add(nm_)
        return self._fn_names

    def fresh(self, base):
        self.counter += 1
        return f"{base}{SEP}i{self.counter}"


# ----------------------------------------------------------------------------------------------- the normaliser
class Desugar:
    def __init__(self, trees):
        """trees: {modname: ast.Module}; they are rewritten in place"""
        self.mods = {k: ModTab(k, t) for k, t in trees.items()}
        self.stats = {"consts": 0, "folds": 0, "unrolled": 0, "inlined": 0, "records": 0, "bailed": 0}
        # a module-level table that another module gets hold of (import, module attribute) may be changed there: not a constant
        for m in self.mods.values():
            for nm in list(getattr(m, "dict_consts", ())):
                for o in self.mods.values():
                    if o is m:
                        continue
                    for n in ast.walk(o.tree):
                        if (isinstance(n, ast.ImportFrom) and any(a.name in (nm, "*") for a in n.names) and (n.module or "").split(".")[-1] == m.name.split(".")[-1]) \
                                or (isinstance(n, ast.Attribute) and n.attr == nm):
                            m.consts.pop(nm, None)
        self.done = {}          # id(original FunctionDef) -> desugared FunctionDef
        self.stack = []
        # every class of the program by bare name (override test for self-calls)
        self.all_classes = []
        for m in self.mods.values():
            for c in ast.walk(m.tree):
                if isinstance(c, ast.ClassDef):
                    self.all_classes.append(c)

    # ------------------------------------------------------------------ driver
    def run(self):
        for m in self.mods.values():
            self.module(m)
        return self.stats

    def module(self, m):
        def visit_body(body, cls):
            for i, n in enumerate(body):
                if isinstance(n, ast.FunctionDef):
                    body[i] = self.function(m, n, cls)
                elif isinstance(n, ast.ClassDef):
                    visit_body(n.body, n)
        visit_body(m.tree.body, None)

    def function(self, m, fn, cls):
        key = id(fn)
        if key in self.done:
            return self.done[key]
        if key in self.stack:
            return fn
        self.stack.append(key)
        try:
            new = copy.copy(fn)
            pe = FnPE(self, m, fn, cls)
            try:
                new.body = pe.run()
                ast.fix_missing_locations(new)
            except Bail:
                self.stats["bailed"] += 1
                new = fn
            except RecursionError:
                self.stats["bailed"] += 1
                new = fn
        finally:
            self.stack.pop()
        self.done[key] = new
        self.done[id(new)] = new
        return new

    # ------------------------------------------------------------------ callee lookup (same module only)
    def class_of(self, m, cname):
        return m.classes.get(cname)

    def mro_same_module(self, m, cls):
        out, todo = [], [cls]
        while todo:
            c = todo.pop(0)
            if c in out:
                continue
            out.append(c)
            for b in c.bases:
                if isinstance(b, ast.Name) and b.id in m.classes:
                    todo.append(m.classes[b.id])
                elif isinstance(b, ast.Subscript) and isinstance(b.value, ast.Name) and b.value.id in m.classes:
                    todo.append(m.classes[b.value.id])
        return out

    def method(self, m, cls, mname, after=False):
        chain = self.mro_same_module(m, cls)
        if after:
            chain = chain[1:]
        for c in chain:
            for n in c.body:
                if isinstance(n, ast.FunctionDef) and n.name == mname:
                    return c, n
        return None, None

    def class_const(self, m, cls, attr, exact=False):
        """literal of a class-level constant (NAME = ("a", "b") / "text", also annotated) looked up from `cls`; None unless it is bound exactly
        once in the same-module part of the MRO, never stored through an instance / class anywhere, and not re-defined in a subclass"""
        key = (id(cls), attr, exact)
        cache = self.__dict__.setdefault("_cc", {})
        if key in cache:
            return cache[key]
        found = None
        for c in self.mro_same_module(m, cls):
            hits = []
            for n in c.body:
                if isinstance(n, ast.Assign) and len(n.targets) == 1 and isinstance(n.targets[0], ast.Name) and n.targets[0].id == attr:
                    hits.append(n.value)
                elif isinstance(n, ast.AnnAssign) and isinstance(n.target, ast.Name) and n.target.id == attr and n.value is not None:
                    hits.append(n.value)
            if hits:
                v = hits[0]
                ok = len(hits) == 1 and ((isinstance(v, ast.Tuple) and is_const_lit(v)) or (isinstance(v, ast.Constant) and isinstance(v.value, str)))
                found = v if ok else None
                owner = c
                if len(hits) == 1 and not ok and isinstance(v, (ast.Tuple, ast.BinOp, ast.Subscript)):
                    # put together from other tables: FDD._OPTS + ("DF2", "cm"), (*Base._FIELDS, "Xi")
                    try:
                        val = self._class_const_eval(m, c, v)
                        if isinstance(val, tuple):
                            found = ast.fix_missing_locations(lit_of(val, v))
                    except (NotConst, RecursionError):
                        pass
                if len(hits) == 1 and not ok and const_dict_lit(v, m._fnames(m.tree)) is not None:
                    # a class-level table: a constant when every `<x>.NAME` / bare NAME in the class body anywhere in the program only reads it
                    def is_ref(r):
                        return (isinstance(r, ast.Attribute) and r.attr == attr and isinstance(r.ctx, ast.Load)) or \
                               (isinstance(r, ast.Name) and r.id == attr and isinstance(r.ctx, ast.Load))
                    if all(read_only_refs(mod.tree, is_ref, nested=_has_mutable_entries(const_dict_lit(v, m._fnames(m.tree)))) for mod in self.mods.values()):
                        found = const_dict_lit(v, m._fnames(m.tree))
                break
        if found is not None:
            # stored anywhere as an attribute (x.NAME = ..) or re-defined in a subclass: not a constant
            for mod in self.mods.values():
                for n in ast.walk(mod.tree):
                    if isinstance(n, ast.Attribute) and n.attr == attr and isinstance(n.ctx, (ast.Store, ast.Del)):
                        found = None
            # (for one exact class a re-definition further down does not matter - for tables; a plain label like `method = "EFDD"` stays
            # the attribute read it is, the rules name it that way)
            if found is not None and (not exact or isinstance(found, ast.Constant)):
                for c in self.all_classes:
                    if c is not owner and any((isinstance(n, ast.Assign) and any(isinstance(t, ast.Name) and t.id == attr for t in n.targets))
                                              or (isinstance(n, ast.AnnAssign) and isinstance(n.target, ast.Name) and n.target.id == attr) for n in c.body):
                        found = None
        cache[key] = found
        return found

    def plain_setter(self, mname):
        """the attribute a method called `mname` stores its only argument into, when exactly one class of the program defines a method of
        that name and its body is `self.<attr> = <parameter>` (+ `return self` / `return None`); else None"""
        cache = self.__dict__.setdefault("_setters", {})
        if mname in cache:
            return cache[mname]
        defs = [n for c in self.all_classes for n in c.body if isinstance(n, ast.FunctionDef) and n.name == mname]
        out = None
        if len(defs) == 1 and not defs[0].decorator_list:
            fn = defs[0]
            a = fn.args
            pos = [x.arg for x in a.posonlyargs + a.args]
            body = [b for b in fn.body if not (isinstance(b, ast.Expr) and isinstance(b.value, ast.Constant))]
            if len(pos) == 2 and not (a.vararg or a.kwarg or a.kwonlyargs or a.defaults) and body \
                    and isinstance(body[0], ast.Assign) and len(body[0].targets) == 1 and isinstance(body[0].targets[0], ast.Attribute) \
                    and isinstance(body[0].targets[0].value, ast.Name) and body[0].targets[0].value.id == pos[0] \
                    and isinstance(body[0].value, ast.Name) and body[0].value.id == pos[1] \
                    and all(isinstance(b, ast.Return) and (b.value is None or (isinstance(b.value, ast.Name) and b.value.id == pos[0]) or
                                                           (isinstance(b.value, ast.Constant) and b.value.value is None)) for b in body[1:]) and len(body) <= 2:
                out = body[0].targets[0].attr
        cache[mname] = out
        return out

    def _class_const_eval(self, m, cls, v):
        """value of a class-level expression over other class-level / module-level constants"""
        consts = dict(m.consts)

        class R(ast.NodeTransformer):
            def visit_Attribute(s2, n):
                if isinstance(n.value, ast.Name) and n.value.id in m.classes and isinstance(n.ctx, ast.Load):
                    lit = self.class_const(m, m.classes[n.value.id], n.attr, exact=True)
                    if lit is None:
                        raise NotConst
                    return copy.deepcopy(lit)
                return s2.generic_visit(n)

            def visit_Name(s2, n):
                # a bare name in a class body: an earlier attribute of the same class
                if isinstance(n.ctx, ast.Load) and n.id not in consts:
                    lit = self.class_const(m, cls, n.id, exact=True)
                    if lit is not None:
                        return copy.deepcopy(lit)
                return n
        return const_eval(R().visit(copy.deepcopy(v)), consts)

    def exact(self, modname, cls_node, mname):
        """the method `mname` as an instance of exactly `cls_node` executes it: looked up through the (same-module) bases of that class,
        with the class-level tables and the helper methods that class sees.  A new FunctionDef, or None when the method is not defined in
        this module"""
        m = self.mods.get(modname)
        if m is None or os.environ.get("VERIF_NODESUGAR"):
            return None
        owner, fn = self.method(m, cls_node, mname)
        if fn is None:
            return None
        key = ("exact", id(cls_node), mname)
        if key in self.done:
            return self.done[key]
        new = copy.copy(fn)
        try:
            pe = FnPE(self, m, fn, cls_node, exact=True)
            new.body = pe.run()
            ast.fix_missing_locations(new)
        except (Bail, RecursionError):
            new = None
        self.done[key] = new
        return new

    def overridden_below(self, cls, mname):
        """a class anywhere in the program that derives (by bare name, transitively) from cls and defines mname"""
        names, grew = {cls.name}, True
        subs = []
        while grew:
            grew = False
            for c in self.all_classes:
                if c.name in names or c is cls:
                    continue
                for b in c.bases:
                    bn = b.id if isinstance(b, ast.Name) else (b.value.id if isinstance(b, ast.Subscript) and isinstance(b.value, ast.Name) else
                                                               (b.attr if isinstance(b, ast.Attribute) else None))
                    if bn in names:
                        names.add(c.name)
                        subs.append(c)
                        grew = True
                        break
        for c in subs:
            for n in c.body:
                if isinstance(n, ast.FunctionDef) and n.name == mname:
                    return True
        return False


PLUMB_CALLS = {"setattr", "getattr"}


def plumbed_names(fn, m):
    """locals of fn that are used as records / name tuples: **t, *t, t["k"], t.update / items / values / keys / get / pop,
    dict(t, ...), {**t}, zip / enumerate over t, iteration over t, argument of a private helper of the module"""
    out = set()

    def nm(x):
        return x.id if isinstance(x, ast.Name) else None
    for n in ast.walk(fn):
        if isinstance(n, ast.Starred) and isinstance(n.ctx, ast.Load) and nm(n.value):
            out.add(n.value.id)
        elif isinstance(n, ast.keyword) and n.arg is None and nm(n.value):
            out.add(n.value.id)
        elif isinstance(n, ast.Dict):
            for k, v in zip(n.keys, n.values):
                if k is None and nm(v):
                    out.add(v.id)
        elif isinstance(n, ast.Subscript) and nm(n.value) and const_key(n.slice):
            out.add(n.value.id)
        elif isinstance(n, ast.Call):
            f = n.func
            if isinstance(f, ast.Attribute) and nm(f.value) and f.attr in ("update", "items", "values", "keys", "get", "pop", "setdefault"):
                out.add(f.value.id)
            if isinstance(f, ast.Attribute) and f.attr == "update":
                for a in n.args:
                    if nm(a):
                        out.add(a.id)           # what a record is updated with is a record
            if isinstance(f, ast.Name) and f.id in ("dict", "zip", "enumerate", "setattr", "getattr"):
                for a in n.args:
                    if nm(a):
                        out.add(a.id)
            private = (isinstance(f, ast.Name) and f.id.startswith("_") and f.id in m.funcs) or \
                      (isinstance(f, ast.Attribute) and f.attr.startswith("_") and not f.attr.startswith("__"))
            if private:
                for a in list(n.args) + [k.value for k in n.keywords]:
                    if nm(a):
                        out.add(a.id)
        elif isinstance(n, (ast.For, ast.comprehension)):
            it = n.iter
            if nm(it):
                out.add(it.id)
    # a plain copy of a record is the same record
    grew = True
    while grew:
        grew = False
        for n in ast.walk(fn):
            if isinstance(n, ast.Assign) and len(n.targets) == 1 and isinstance(n.targets[0], ast.Name) and isinstance(n.value, ast.Name):
                a, b = n.targets[0].id, n.value.id
                if a in out and b not in out:
                    out.add(b)
                    grew = True
                elif b in out and a not in out:
                    out.add(a)
                    grew = True
            elif isinstance(n, ast.Assign) and len(n.targets) == 1 and isinstance(n.targets[0], ast.Name) and n.targets[0].id in out \
                    and isinstance(n.value, ast.BinOp) and isinstance(n.value.op, ast.Add):
                # the operands of a concatenation that makes a name tuple are name tuples
                for x in ast.walk(n.value):
                    if isinstance(x, ast.Name) and isinstance(x.ctx, ast.Load) and x.id not in out:
                        out.add(x.id)
                        grew = True
    return out


class FnPE:
    """partial evaluation of one function body"""

    def __init__(self, D, m, fn, cls, exact=False):
        self.D = D
        self.m = m
        self.fn = fn
        self.cls = cls
        # exact: the function is looked at as executed by an instance of exactly `cls` (not of a subclass): class-level tables and
        # helper methods are those `cls` sees, whatever subclasses re-define
        self.exact = exact
        self.locals = bound_names(fn)
        self.generated = set()
        self.mutated = self._mutated_names(fn)
        self.local_defs = self._local_defs(fn)
        self.closure_used = self._closure_names(fn)
        self.plumbed = plumbed_names(fn, m)
        for d in self.local_defs.values():
            self.plumbed |= plumbed_names(d, m)
        self.starred_names = {n.value.id for n in ast.walk(fn) if isinstance(n, ast.Starred) and isinstance(n.ctx, ast.Load) and isinstance(n.value, ast.Name)}

    # ------------------------------------------------------------------ pre-scans
    def _mutated_names(self, fn):
        """local names whose list value may change in place (method calls other than read-only ones, subscript stores, aug-assign)"""
        out = set()
        ro = {"index", "count", "copy"}
        for n in own_nodes(fn.body):
            if isinstance(n, ast.Call) and isinstance(n.func, ast.Attribute) and isinstance(n.func.value, ast.Name):
                if n.func.attr not in ro:
                    out.add(("call", n.func.value.id))
            if isinstance(n, ast.Subscript) and isinstance(n.ctx, (ast.Store, ast.Del)) and isinstance(n.value, ast.Name):
                out.add(("store", n.value.id))
            if isinstance(n, ast.AugAssign) and isinstance(n.target, ast.Name):
                out.add(("aug", n.target.id))
        return out

    def _closure_names(self, fn):
        out = set()
        for n in own_nodes(fn.body):
            if isinstance(n, (ast.FunctionDef, ast.AsyncFunctionDef, ast.Lambda)):
                if any(n is d for d in getattr(self, "local_defs", {}).values()):
                    out |= self._closure_names(n)      # its body is going to be part of this function; what IT closes over stays closed over
                    continue
                for x in ast.walk(n):
                    if isinstance(x, ast.Name):
                        out.add(x.id)
        return out

    def _local_defs(self, fn):
        """local helper functions (closures) every use of which is a call that makes up a whole statement: they are written out at those
        calls - reading an enclosing variable at the time of the call is what the closure does as well"""
        if os.environ.get("VERIF_NOINLINE"):
            return {}
        out = {}
        for d in fn.body:
            if not isinstance(d, ast.FunctionDef) or d.decorator_list:
                continue
            nm = d.name
            binds = [n for n in ast.walk(fn) if (isinstance(n, ast.Name) and n.id == nm and isinstance(n.ctx, (ast.Store, ast.Del)))
                     or (isinstance(n, (ast.FunctionDef, ast.AsyncFunctionDef, ast.ClassDef)) and n is not fn and n.name == nm)
                     or (isinstance(n, ast.arg) and n.arg == nm) or (isinstance(n, (ast.Global, ast.Nonlocal)) and nm in n.names)]
            if len(binds) != 1 or binds[0] is not d:
                continue
            if has_node(d.body, (ast.Yield, ast.YieldFrom, ast.Nonlocal, ast.Global, ast.Await)):
                continue
            a = d.args
            if any(not is_const_lit(x) for x in list(a.defaults) + [k for k in a.kw_defaults if k is not None]):
                continue
            if any(isinstance(n, ast.Name) and n.id in (nm, "locals", "vars", "super", "__class__") for n in ast.walk(d)):
                continue
            rets = [n for n in own_nodes(d.body) if isinstance(n, ast.Return)]
            if not ((len(rets) == 1 and d.body[-1] is rets[0]) or not rets):
                continue
            out[nm] = d
        # every reference is the callee of a call that makes up a whole statement, after the definition, among this function's own
        # statements or those of another such helper (which is written out itself)

        def whole_calls(body, nm):
            w = set()
            for st in own_stmts(body):
                v = st.value if isinstance(st, (ast.Expr, ast.Return, ast.Assign, ast.AnnAssign)) else None
                if isinstance(v, ast.Call) and isinstance(v.func, ast.Name) and v.func.id == nm:
                    w.add(id(v.func))
            return w
        changed = True
        while changed:
            changed = False
            for nm, d in list(out.items()):
                whole = whole_calls(fn.body, nm)
                for nm2, d2 in out.items():
                    if d2 is not d:
                        whole |= whole_calls(d2.body, nm)
                refs = [n for n in ast.walk(fn) if isinstance(n, ast.Name) and n.id == nm and isinstance(n.ctx, ast.Load)]
                if not refs or any(id(r) not in whole for r in refs) or any(getattr(r, "lineno", 0) <= d.lineno for r in refs):
                    del out[nm]
                    changed = True
        return out

    def list_is_frozen(self, nm):
        return not any(k[1] == nm for k in self.mutated)

    # ------------------------------------------------------------------ entry
    def run(self):
        env = {}
        body = self.block(self.fn.body, env)
        if getattr(self, "dropped_defs", None) and any(isinstance(n, ast.Name) and n.id in self.dropped_defs for st in body for n in ast.walk(st)):
            raise Bail("a call of a local helper could not be written out")
        body = cleanup(body, self.generated, set(params_of(self.fn)), lambda n_: n_ in self.locals)
        body = param_aliases(body, set(params_of(self.fn)))
        return body or [ast.copy_location(ast.Pass(), self.fn)]

    def stat(self, k):
        self.D.stats[k] += 1

    # ------------------------------------------------------------------ blocks and statements
    def block(self, stmts, env):
        out = []
        for s in stmts:
            out.extend(self.stmt(s, env))
            if len(out) > MAXSTMTS * 4:
                raise Bail("too large")
        return out

    def field(self, var, key):
        k = "".join(ch if ch.isalnum() or ch == "_" else "_" for ch in str(key))
        f = f"{var}{SEP}{k}"
        self.fieldkeys = getattr(self, "fieldkeys", {})
        n = 0
        while self.fieldkeys.setdefault(f, (var, key)) != (var, key) or (f in self.locals and f not in self.generated):
            n += 1
            f = f"{var}{SEP}{k}_{n}"
        self.generated.add(f)
        self.locals.add(f)
        return f

    def fresh(self, base):
        t = self.m.fresh(base)
        self.generated.add(t)
        self.locals.add(t)
        return t

    def materialise(self, v, at):
        if isinstance(v, Rec):
            d = ast.Dict(keys=[const(k, at) for k in v.fields], values=[name(f, at=at) for f in v.fields.values()])
            d._from = v.var
            return ast.copy_location(d, at)
        if isinstance(v, Tup):
            t = v.kind(elts=[name(f, at=at) if isinstance(f, str) else ast.copy_location(copy.deepcopy(f), at) for f in v.items], ctx=ast.Load())
            t._lit = True
            return ast.copy_location(t, at)
        if isinstance(v, Con):
            return ast.copy_location(copy.deepcopy(v.node), at)
        if isinstance(v, ObjCopy):
            n = name(v.var, at=at)       # the object itself exists (its assignment is kept); whole uses end the tracking
            n._objcopy = v.var
            return n
        raise Bail("materialise")

    def put_back(self, nm, env, at):
        """re-create the dict / tuple object of a tracked local and stop tracking it"""
        v = env.pop(nm, None)
        if v is None or isinstance(v, (Con, ObjCopy)):
            return []
        lit = self.materialise(v, at)
        if isinstance(lit, ast.Dict):
            lit._from = None
        out = [ast.copy_location(ast.Assign(targets=[name(nm, ast.Store(), at)], value=lit), at)]
        for other in [k for k, w in env.items() if w is v]:
            env.pop(other)
            out.append(ast.copy_location(ast.Assign(targets=[name(other, ast.Store(), at)], value=name(nm, at=at)), at))
        return out

    def forget_stores(self, s, env, out):
        """names re-bound by a statement we do not model are dropped from the environment"""
        for n in own_nodes([s]):
            if isinstance(n, ast.Name) and isinstance(n.ctx, (ast.Store, ast.Del)) and n.id in env:
                env.pop(n.id)

    def stmt(self, s, env):
        """a record that is still whole after the rewrite of a simple statement escapes there: it is put back together
        before the statement and no longer tracked (its keys could change behind our back)"""
        if isinstance(s, (ast.Assign, ast.Expr, ast.AugAssign, ast.AnnAssign, ast.Raise, ast.Assert, ast.Delete)) \
                and any(isinstance(n, ast.Name) and isinstance(env.get(n.id), (Rec, ObjCopy)) for n in own_nodes([s])):
            trial = env_copy(env)
            cnt = self.m.counter
            out = self.stmt_core(s, trial)
            esc = []
            for o in out:
                for n in ast.walk(o):
                    if isinstance(n, ast.Dict) and getattr(n, "_from", None) and n._from in env and n._from not in esc:
                        esc.append(n._from)
                    if isinstance(n, ast.Name) and getattr(n, "_objcopy", None) and n._objcopy in env and n._objcopy not in esc:
                        esc.append(n._objcopy)
            if not esc:
                env.clear()
                env.update(trial)
                return out
            pre = []
            for nm in esc:
                pre += self.put_back(nm, env, s)
            return pre + self.stmt_core(s, env)
        return self.stmt_core(s, env)

    def stmt_core(self, s, env):
        pre = []
        if isinstance(s, ast.Assign):
            return self.assign(s, env)
        if isinstance(s, ast.Expr):
            return self.expr_stmt(s, env)
        if isinstance(s, ast.Return):
            m = copy.copy(s)
            if s.value is not None:
                m.value = self.expr(s.value, env, pre, top=True)
                inl = self.try_inline_stmt(m.value, env, lambda v: [ast.copy_location(ast.Return(value=v), s)], s, tail=True)
                if inl is not None:
                    return pre + inl
            return pre + [m]
        if isinstance(s, ast.If):
            return self.if_stmt(s, env)
        if isinstance(s, ast.For):
            return self.for_stmt(s, env)
        if isinstance(s, (ast.While,)):
            return self.loop_generic(s, env)
        if isinstance(s, (ast.With, ast.AsyncWith)):
            m = copy.copy(s)
            items = []
            for it in s.items:
                it2 = copy.copy(it)
                it2.context_expr = self.expr(it.context_expr, env, pre)
                items.append(it2)
                if it.optional_vars is not None:
                    self.forget_stores(it.optional_vars, env, pre)
            m.items = items
            m.body = self.block(s.body, env)
            return pre + [m]
        if isinstance(s, ast.Try):
            return self.try_stmt(s, env)
        if isinstance(s, ast.FunctionDef) and self.local_defs.get(s.name) is s:
            self.dropped_defs = getattr(self, "dropped_defs", set()) | {s.name}
            return []
        if isinstance(s, (ast.FunctionDef, ast.AsyncFunctionDef, ast.ClassDef)):
            out = []
            used = {x.id for x in ast.walk(s) if isinstance(x, ast.Name)}
            for nm in list(env):
                if nm in used and not isinstance(env[nm], Con):
                    out += self.put_back(nm, env, s)
            env.pop(s.name, None)
            return out + [copy.deepcopy(s)]
        if isinstance(s, ast.AugAssign):
            m = copy.copy(s)
            m.value = self.expr(s.value, env, pre)
            out = []
            if isinstance(s.target, ast.Name):
                out += self.put_back(s.target.id, env, s) if not isinstance(env.get(s.target.id), Con) else []
                env.pop(s.target.id, None)
                m.target = copy.deepcopy(s.target)
            else:
                m.target = self.target(s.target, env, pre)
            return pre + out + [m]
        if isinstance(s, ast.AnnAssign):
            if s.value is not None and isinstance(s.target, ast.Name) and (s.target.id in self.plumbed or s.target.id in self.generated):
                a = ast.copy_location(ast.Assign(targets=[s.target], value=s.value), s)
                return self.assign(a, env)
            m = copy.copy(s)
            if s.value is not None:
                m.value = self.expr(s.value, env, pre)
            if isinstance(s.target, ast.Name):
                env.pop(s.target.id, None)
                m.target = copy.deepcopy(s.target)
            else:
                m.target = self.target(s.target, env, pre)
            return pre + [m]
        if isinstance(s, ast.Delete):
            out = []
            keep = []
            for t in s.targets:
                if isinstance(t, ast.Subscript) and isinstance(t.value, ast.Name) and isinstance(env.get(t.value.id), Rec) and const_key(t.slice):
                    r = env[t.value.id]
                    if t.slice.value not in r.fields:
                        raise Bail("del of a missing key")
                    del r.fields[t.slice.value]
                    continue
                keep.append(t)
            if keep:
                m = copy.copy(s)
                m.targets = [self.target(t, env, pre) if not isinstance(t, ast.Name) else copy.deepcopy(t) for t in keep]
                for t in keep:
                    if isinstance(t, ast.Name):
                        env.pop(t.id, None)
                out.append(m)
            return pre + out
        if isinstance(s, (ast.Raise, ast.Assert)):
            m = copy.copy(s)
            for f in ("exc", "cause", "test", "msg"):
                if getattr(s, f, None) is not None:
                    setattr(m, f, self.expr(getattr(s, f), env, pre))
            return pre + [m]
        # pass, break, continue, import, global, nonlocal, match ...
        self.forget_stores(s, env, pre)
        return [copy.deepcopy(s)]

    # ------------------------------------------------------------------ assignment
    def assign(self, s, env):
        pre = []
        value = self.expr(s.value, env, pre, top=True)
        # tuple target = tuple literal of the same length without interference: one assignment per item
        if len(s.targets) == 1 and isinstance(s.targets[0], (ast.Tuple, ast.List)) and is_seq_lit(value) \
                and not any(isinstance(t, ast.Starred) for t in s.targets[0].elts) and len(s.targets[0].elts) == len(value.elts):
            tnames = {x.id for t in s.targets[0].elts for x in ast.walk(t) if isinstance(x, ast.Name)}
            vnames = {x.id for v in value.elts for x in ast.walk(v) if isinstance(x, ast.Name)}
            nested = any(isinstance(t, (ast.Tuple, ast.List)) for t in s.targets[0].elts)
            if not (tnames & vnames) and len(s.targets[0].elts) > 0 and all(isinstance(t, (ast.Name, ast.Subscript, ast.Attribute, ast.Tuple, ast.List)) for t in s.targets[0].elts) \
                    and (nested or any(self.interesting(v, t, env) for t, v in zip(s.targets[0].elts, value.elts))
                         or any(isinstance(t, ast.Name) and t.id in self.generated for t in s.targets[0].elts)):
                out = list(pre)
                for t, v in zip(s.targets[0].elts, value.elts):
                    a = ast.copy_location(ast.Assign(targets=[copy.deepcopy(t)], value=v), s)
                    a._split_shape = isinstance(t, (ast.Tuple, ast.List))       # a nested target: its own unpacking is written out too
                    out += self.assign(a, env)
                return out
        # (r, n) = X.shape as a nested target / with generated names: one assignment per dimension
        if len(s.targets) == 1 and isinstance(s.targets[0], (ast.Tuple, ast.List)) and isinstance(value, ast.Attribute) and value.attr == "shape" and is_atom(value.value) \
                and s.targets[0].elts and all(isinstance(t, ast.Name) for t in s.targets[0].elts) and getattr(s, "_split_shape", False):
            root = value.value
            while isinstance(root, ast.Attribute):
                root = root.value
            if isinstance(root, ast.Name) and root.id not in {t.id for t in s.targets[0].elts}:
                out = list(pre)
                for i, t in enumerate(s.targets[0].elts):
                    sub = ast.Subscript(value=copy.deepcopy(value), slice=const(i, s), ctx=ast.Load())
                    out += self.assign(ast.fix_missing_locations(ast.copy_location(ast.Assign(targets=[copy.deepcopy(t)], value=sub), s)), env)
                return out
        # a, b = zip(f(x), g(y)) with f, g returning pairs: the transposition written out  a = (f(x)[0], g(y)[0]); b = (f(x)[1], g(y)[1])
        if len(s.targets) == 1 and isinstance(s.targets[0], (ast.Tuple, ast.List)) and isinstance(value, ast.Call) and isinstance(value.func, ast.Name) \
                and value.func.id == "zip" and "zip" not in self.locals and value.args and not value.keywords \
                and not any(isinstance(t, ast.Starred) for t in s.targets[0].elts) and all(isinstance(a, ast.Call) for a in value.args):
            n_t = len(s.targets[0].elts)
            ars = [self.ret_arity(a) for a in value.args]
            if all(a == n_t for a in ars):
                out = list(pre)
                temps = []
                for a in value.args:
                    t = self.fresh("_z")
                    out += self.assign(ast.copy_location(ast.Assign(targets=[name(t, ast.Store(), s)], value=a), s), env)
                    temps.append(t)
                for i, tg in enumerate(s.targets[0].elts):
                    col = ast.Tuple(elts=[ast.Subscript(value=name(t, at=s), slice=const(i, s), ctx=ast.Load()) for t in temps], ctx=ast.Load())
                    out += self.assign(ast.copy_location(ast.Assign(targets=[copy.deepcopy(tg)], value=ast.copy_location(col, s)), s), env)
                self.stat("folds")
                return out
        # starred unpacking of a call with a known return arity / of a literal
        if len(s.targets) == 1 and isinstance(s.targets[0], (ast.Tuple, ast.List)) and any(isinstance(t, ast.Starred) for t in s.targets[0].elts):
            r = self.star_unpack(s, value, env, pre)
            if r is not None:
                return r
        # helper call: inline
        if isinstance(value, ast.Call):
            targets = s.targets

            def on_ret(v, targets=targets):
                return [ast.copy_location(ast.Assign(targets=[copy.deepcopy(t) for t in targets], value=v if v is not None else const(None, s)), s)]
            inl = self.try_inline_stmt(value, env, on_ret, s)
            if inl is not None:
                return pre + inl
        out = list(pre)
        m = copy.copy(s)
        m.value = value
        if len(s.targets) == 1 and isinstance(s.targets[0], ast.Name):
            nm = s.targets[0].id
            env_before = dict(env)
            env.pop(nm, None)
            tracked = nm in self.locals and nm not in self.closure_used and (nm in self.generated or nm in self.plumbed)
            if tracked and isinstance(value, ast.Dict) and getattr(value, "_from", None) in env_before and isinstance(env_before[value._from], Rec):
                env[nm] = env_before[value._from]           # another name for the same dict object
                return out
            if tracked and is_rec_lit(value) and value.keys is not None:
                r = Rec(nm)
                for k, v in zip(value.keys, value.values):
                    f = self.field(nm, k.value)
                    out.append(ast.copy_location(ast.Assign(targets=[name(f, ast.Store(), s)], value=v), s))
                    r.fields[k.value] = f
                    if closed_lambda(v, lambda nm_: nm_ not in self.rebound_names() and nm_ not in self.closure_rebound()):
                        env[f] = Con(v)         # a small function kept in a table: applied where it is looked up
                # evaluation order / aliasing: a field value that reads an earlier field variable is fine (assigned in order)
                env[nm] = r
                self.stat("records")
                return out
            if tracked and is_seq_lit(value) and (isinstance(value, ast.Tuple) or self.list_is_frozen(nm)) and len(value.elts) <= MAXUNROLL:
                items = []
                for i, v in enumerate(value.elts):
                    if is_const_lit(v) or self.stable_ref(v):
                        items.append(v)             # a literal / a module-level function or library routine: stands for itself
                        continue
                    f = self.field(nm, i)
                    a_ = ast.copy_location(ast.Assign(targets=[name(f, ast.Store(), s)], value=v), s)
                    if (is_seq_lit(v) or is_rec_lit(v)) and f not in self.closure_used:
                        self.locals.add(f)
                        out += self.assign(a_, env)          # a tuple / record inside the tuple is followed as well
                    else:
                        out.append(a_)
                    items.append(f)
                env[nm] = Tup(nm, items, type(value))
                # the tuple itself stays available under its own name as well (cheap, keeps unmodelled uses valid)
                out.append(ast.copy_location(ast.Assign(targets=[name(nm, ast.Store(), s)], value=self.materialise(env[nm], s)), s))
                return out
            if tracked and nm in self.generated and isinstance(value, ast.Constant) and isinstance(value.value, (str, bool, type(None))):
                env[nm] = Con(value)
            elif isinstance(value, ast.Constant) and isinstance(value.value, str) and nm in self.locals and nm not in self.closure_used \
                    and self.store_count(nm) == 1 and nm not in params_of(self.fn):
                env[nm] = Con(value)            # a name label bound once (attr = "pole_ind"): getattr / setattr with it are written out
            if isinstance(value, ast.Name) and getattr(value, "_objcopy", None) in env_before and nm in self.locals and nm not in self.closure_used:
                env[nm] = env_before[value._objcopy]        # another name for the same copy
                value._objcopy = None
                out.append(m)
                return out
            oc = self.objcopy_of(nm, value, out, s)
            if oc is not None:
                env[nm] = oc
                return out
            if tracked and isinstance(value, ast.Call) and nm in self.starred_names and self.list_is_frozen(nm):
                # t = f(...) with f returning an n-tuple, t later spread with *t: the items get names
                n_ = self.ret_arity(value)
                if n_ is not None and 0 < n_ <= MAXUNROLL:
                    items = [self.field(nm, i) for i in range(n_)]
                    tg = ast.Tuple(elts=[name(f_, ast.Store(), s) for f_ in items], ctx=ast.Store())
                    out.append(ast.copy_location(ast.Assign(targets=[tg], value=value), s))
                    env[nm] = Tup(nm, items, ast.Tuple)
                    out.append(ast.copy_location(ast.Assign(targets=[name(nm, ast.Store(), s)], value=self.materialise(env[nm], s)), s))
                    self.stat("folds")
                    return out
            m.targets = [copy.deepcopy(s.targets[0])]
            return out + [m]
        # general targets
        tg = []
        for t in s.targets:
            tg.append(self.target(t, env, out))
        m.targets = tg
        return out + [m]

    def objcopy_of(self, nm, value, out, at):
        """ObjCopy for `nm = base.model_copy(update={..literal keys..})` / `base.model_copy()` / `copy.copy(base)`, base an attribute chain
        of a never re-bound name whose attributes are not re-bound in this function"""
        if nm not in self.locals or nm in self.closure_used:
            return None
        if getattr(value, "_objcopy", None):
            return None
        base, upd = None, None
        if isinstance(value, ast.Call) and isinstance(value.func, ast.Attribute) and value.func.attr == "model_copy" and not value.args:
            kws = {k.arg: k.value for k in value.keywords}
            if set(kws) <= {"update"}:
                base = value.func.value
                upd = kws.get("update", ast.Dict(keys=[], values=[]))
        elif isinstance(value, ast.Call) and isinstance(value.func, ast.Attribute) and isinstance(value.func.value, ast.Name) and value.func.value.id == "copy" \
                and value.func.attr == "copy" and len(value.args) == 1 and not value.keywords:
            base, upd = value.args[0], ast.Dict(keys=[], values=[])
        if base is None or not is_rec_lit(upd) or not (isinstance(base, ast.Attribute) and is_atom(base)):
            return None
        root = base
        while isinstance(root, ast.Attribute):
            root = root.value
        if not isinstance(root, ast.Name) or root.id in self.rebound_names():
            return None
        text = ast.unparse(base)
        if any(t_ == text or t_.startswith(text + ".") and False for t_ in self.attr_store_texts()):
            return None
        fields = {}
        for k, v in zip(upd.keys, upd.values):
            f = self.field(nm, k.value)
            out.append(ast.copy_location(ast.Assign(targets=[name(f, ast.Store(), at)], value=v), at))
            fields[k.value] = f
        keep = copy.deepcopy(value)
        if fields:
            keep.keywords = [ast.keyword(arg="update", value=ast.Dict(keys=[const(k, at) for k in fields], values=[name(f, at=at) for f in fields.values()]))]
        out.append(ast.fix_missing_locations(ast.copy_location(ast.Assign(targets=[name(nm, ast.Store(), at)], value=keep), at)))
        self.stat("records")
        return ObjCopy(nm, base, fields)

    def stable_ref(self, v):
        """np.less_equal, gen.HC_damp, MPC: a dotted name rooted in a module-level name that this function never binds"""
        root = v
        while isinstance(root, ast.Attribute):
            root = root.value
        if not isinstance(root, ast.Name) or not isinstance(v, (ast.Name, ast.Attribute)):
            return False
        if root.id in self.locals or root.id in ("self", "cls"):
            return False
        if isinstance(v, ast.Name):
            return v.id in self.m.funcs or v.id in self.m.classes
        return root.id in self.m.imports() if hasattr(self.m, "imports") else False

    def store_count(self, nm):
        if not hasattr(self, "_store_counts"):
            self._store_counts = {}
            for n in ast.walk(self.fn):
                if isinstance(n, ast.Name) and isinstance(n.ctx, (ast.Store, ast.Del)):
                    self._store_counts[n.id] = self._store_counts.get(n.id, 0) + 1
        return self._store_counts.get(nm, 0)

    def closure_rebound(self):
        """names a nested function / lambda of this function may re-bind (nonlocal) - none in practice; parameters count as bound once"""
        if not hasattr(self, "_clo_rebound"):
            self._clo_rebound = {nm for n in ast.walk(self.fn) if isinstance(n, (ast.Nonlocal, ast.Global)) for nm in n.names}
        return self._clo_rebound

    def rebound_names(self):
        if not hasattr(self, "_rebound"):
            self._rebound = {n.id for n in own_nodes(self.fn.body) if isinstance(n, ast.Name) and isinstance(n.ctx, (ast.Store, ast.Del))}
        return self._rebound

    def attr_store_texts(self):
        """texts of the attributes this function (and the helpers inlined into it so far) re-binds: self.run_params = ..."""
        if not hasattr(self, "_attr_stores"):
            self._attr_stores = set()
            self._scan_attr_stores(self.fn.body, {})
        return self._attr_stores

    def _scan_attr_stores(self, body, ren):
        for n in own_nodes(body):
            if isinstance(n, ast.Attribute) and isinstance(n.ctx, (ast.Store, ast.Del)):
                t = ast.unparse(n)
                self._attr_stores.add(t)
                # a helper's `self` / object parameter is the caller's
                root = n
                while isinstance(root, ast.Attribute):
                    root = root.value
                if isinstance(root, ast.Name) and root.id in ren:
                    self._attr_stores.add(ren[root.id] + t[len(root.id):])
            elif isinstance(n, ast.Call) and isinstance(n.func, ast.Name) and n.func.id == "setattr" and len(n.args) == 3:
                self._attr_stores.add(ast.unparse(n.args[0]) + ".*")

    def interesting(self, v, t, env):
        """is splitting a tuple assignment worth it: the value is a literal record / tuple / string or the target is a record field"""
        if isinstance(t, ast.Name) and (t.id in self.plumbed or t.id in self.generated) and (is_rec_lit(v) or is_seq_lit(v) or isinstance(v, ast.Constant)):
            return True
        if isinstance(t, ast.Subscript) and isinstance(t.value, ast.Name) and isinstance(env.get(t.value.id), Rec):
            return False
        return False

    def target(self, t, env, pre):
        """rewrite an assignment target; stores to names drop them from the environment"""
        if isinstance(t, ast.Name):
            if t.id in env and not isinstance(env[t.id], Con):
                # re-bound to something dynamic
                env.pop(t.id)
            env.pop(t.id, None)
            return copy.deepcopy(t)
        if isinstance(t, (ast.Tuple, ast.List)):
            m = copy.copy(t)
            m.elts = [self.target(e, env, pre) for e in t.elts]
            return m
        if isinstance(t, ast.Starred):
            m = copy.copy(t)
            m.value = self.target(t.value, env, pre)
            return m
        if isinstance(t, ast.Subscript):
            if isinstance(t.value, ast.Name) and isinstance(env.get(t.value.id), Rec):
                r = env[t.value.id]
                sl_ = t.slice if const_key(t.slice) else self.expr(t.slice, env, None)      # TABLE[label] with a known label is a key too
                if const_key(sl_):
                    f = r.fields.get(sl_.value) or self.field(r.var, sl_.value)
                    r.fields[sl_.value] = f
                    return name(f, ast.Store(), t)
                pre.extend(self.put_back(t.value.id, env, t))
            if isinstance(t.value, ast.Name) and isinstance(env.get(t.value.id), Tup):
                pre.extend(self.put_back(t.value.id, env, t))
            m = copy.copy(t)
            m.value = self.expr(t.value, env, pre)
            m.slice = self.expr(t.slice, env, pre)
            return m
        if isinstance(t, ast.Attribute):
            m = copy.copy(t)
            m.value = self.expr(t.value, env, pre)
            return m
        return copy.deepcopy(t)

    def star_unpack(self, s, value, env, pre):
        tg = s.targets[0].elts
        si = [i for i, t in enumerate(tg) if isinstance(t, ast.Starred)]
        if len(si) != 1 or not isinstance(tg[si[0]].value, ast.Name):
            return None
        star = tg[si[0]].value.id
        n = None
        if is_seq_lit(value):
            n = len(value.elts)
        elif isinstance(value, ast.Call):
            n = self.ret_arity(value)
        if n is None or n < len(tg) - 1 or n > MAXUNROLL:
            return None
        k = n - (len(tg) - 1)
        if not (star in self.locals and star not in self.closure_used and self.list_is_frozen(star) and (star in self.plumbed or star in self.generated)):
            return None
        items = [self.field(star, i) for i in range(k)]
        new_t = []
        for i, t in enumerate(tg):
            if i == si[0]:
                new_t += [name(f, ast.Store(), s) for f in items]
            else:
                new_t.append(self.target(t, env, pre))
        out = list(pre)
        a = ast.Assign(targets=[ast.Tuple(elts=new_t, ctx=ast.Store())], value=value)
        out.append(ast.copy_location(a, s))
        env[star] = Tup(star, items, ast.List)
        out.append(ast.copy_location(ast.Assign(targets=[name(star, ast.Store(), s)], value=self.materialise(env[star], s)), s))
        self.stat("folds")
        return out

    # ------------------------------------------------------------------ expression statements
    def expr_stmt(self, s, env):
        pre = []
        v = s.value
        if isinstance(v, ast.Call):
            f = v.func
            # setattr(o, "name", value)
            if isinstance(f, ast.Name) and f.id == "setattr" and len(v.args) == 3 and not v.keywords and "setattr" not in self.locals:
                o, nm, val = (self.expr(a, env, pre) for a in v.args)
                if const_key(nm) and nm.value.isidentifier():
                    a = ast.Assign(targets=[ast.copy_location(ast.Attribute(value=o, attr=nm.value, ctx=ast.Store()), s)], value=val)
                    self.stat("folds")
                    return pre + [ast.copy_location(a, s)]
                m = copy.copy(s)
                m.value = ast.copy_location(ast.Call(func=copy.deepcopy(f), args=[o, nm, val], keywords=[]), v)
                return pre + [m]
            # self.set_x(value) with a plain setter (`self.x = value; return self`) defined once in the program: the store it makes
            if isinstance(f, ast.Attribute) and isinstance(f.value, ast.Name) and f.value.id == "self" and "self" in params_of(self.fn)[:1] \
                    and len(v.args) + len(v.keywords) == 1 and not any(isinstance(a, ast.Starred) for a in v.args) and all(k.arg is not None for k in v.keywords):
                attr = self.D.plain_setter(f.attr)
                if attr is not None:
                    arg = v.args[0] if v.args else v.keywords[0].value
                    a = ast.Assign(targets=[ast.copy_location(ast.Attribute(value=name("self", at=s), attr=attr, ctx=ast.Store()), s)], value=arg)
                    self.stat("folds")
                    return self.stmt_core(ast.fix_missing_locations(ast.copy_location(a, s)), env)
            # record methods
            if isinstance(f, ast.Attribute) and isinstance(f.value, ast.Name) and isinstance(env.get(f.value.id), Rec):
                r = env[f.value.id]
                if f.attr == "update":
                    items = self.update_items(v, env, pre)
                    if items is not None:
                        out = list(pre)
                        for k, val in items:
                            fld = r.fields.get(k) or self.field(r.var, k)
                            out.append(ast.copy_location(ast.Assign(targets=[name(fld, ast.Store(), s)], value=val), s))
                            r.fields[k] = fld
                        self.stat("folds")
                        return out
                    # not all keys are written out: the dict becomes an ordinary object again
                    back = self.put_back(f.value.id, env, s)
                    return back + self.stmt_core(s, env)
                if f.attr == "pop" and len(v.args) >= 1 and const_key(v.args[0]):
                    k = v.args[0].value
                    if k in r.fields:
                        del r.fields[k]
                        return []
                    if len(v.args) == 2:
                        return []
                    raise Bail("pop of a missing key")
                if f.attr == "clear" and not v.args:
                    r.fields.clear()
                    return []
                if f.attr == "setdefault" and len(v.args) == 2 and const_key(v.args[0]):
                    k = v.args[0].value
                    if k in r.fields:
                        return []
                    fld = self.field(r.var, k)
                    val = self.expr(v.args[1], env, pre)
                    r.fields[k] = fld
                    return pre + [ast.copy_location(ast.Assign(targets=[name(fld, ast.Store(), s)], value=val), s)]
        value = self.expr(v, env, pre, top=True)
        if isinstance(value, ast.Call):
            inl = self.try_inline_stmt(value, env, lambda r: ([ast.copy_location(ast.Expr(value=r), s)] if r is not None and not is_atom(r) and not is_rec_lit(r) and not is_seq_lit(r) else []), s)
            if inl is not None:
                return pre + inl
        m = copy.copy(s)
        m.value = value
        return pre + [m]

    def update_items(self, call, env, pre):
        """(key, value expr) pairs of d.update(...) when they are all explicit"""
        items = []
        if len(call.args) > 1:
            return None
        if call.args:
            a = self.expr(call.args[0], env, pre)
            if is_rec_lit(a):
                items += [(k.value, v) for k, v in zip(a.keys, a.values)]
            elif isinstance(a, ast.Call) and isinstance(a.func, ast.Name) and a.func.id == "zip" and len(a.args) == 2 and self.iter_elems(a) is None:
                pairs = self.zip_call_pairs(a, pre)
                if pairs is None or (isinstance(pairs, tuple) and pairs and pairs[0] == "lambda"):
                    return None
                items += [(k.value, v) for k, v in pairs]
            else:
                el = self.iter_elems(a)
                if el is None or not all(isinstance(e, ast.Tuple) and len(e.elts) == 2 and const_key(e.elts[0]) for e in el):
                    return None
                items += [(e.elts[0].value, e.elts[1]) for e in el]
        for kw in call.keywords:
            if kw.arg is None:
                d = self.expr(kw.value, env, pre)
                if not is_rec_lit(d):
                    return None
                items += [(k.value, v) for k, v in zip(d.keys, d.values)]
            else:
                items.append((kw.arg, self.expr(kw.value, env, pre)))
        return items

    # ------------------------------------------------------------------ control flow
    def merge(self, env, envs):
        """environment after a branch: what all continuing branches agree on; returns per-branch put-back statements"""
        tails = [[] for _ in envs]
        keys = set()
        for e in envs:
            keys |= set(e)
        new = {}
        for k in keys:
            vals = [e.get(k) for e in envs]
            ok = all(v is not None for v in vals)
            if ok and all(isinstance(v, Rec) for v in vals) and all(v.fields == vals[0].fields for v in vals):
                new[k] = vals[0]
                continue
            if ok and all(isinstance(v, Tup) for v in vals) and all(tup_same(v, vals[0]) for v in vals):
                new[k] = vals[0]
                continue
            if ok and all(isinstance(v, Con) for v in vals) and all(ast.dump(v.node) == ast.dump(vals[0].node) for v in vals):
                new[k] = vals[0]
                continue
            if ok and all(isinstance(v, ObjCopy) for v in vals) and all(v.fields == vals[0].fields and ast.dump(v.base) == ast.dump(vals[0].base) for v in vals):
                new[k] = vals[0]
                continue
            for i, v in enumerate(vals):
                if isinstance(v, Rec):
                    tails[i].append((k, v))
        env.clear()
        env.update(new)
        return tails

    def if_stmt(self, s, env):
        pre = []
        test = self.expr(s.test, env, pre)
        if isinstance(test, ast.Constant):
            self.stat("folds")
            return pre + self.block(s.body if test.value else s.orelse, env)
        e1, e2 = env_copy(env), env_copy(env)
        b1 = self.block(s.body, e1)
        b2 = self.block(s.orelse, e2)
        live = []
        if not dead_end(b1):
            live.append((e1, b1))
        if not dead_end(b2):
            live.append((e2, b2))
        if not live:
            env.clear()
        else:
            tails = self.merge(env, [e for e, _ in live])
            for (e, b), tl in zip(live, tails):
                for k, v in tl:
                    lit = self.materialise(v, s)
                    lit._from = None
                    a = ast.copy_location(ast.Assign(targets=[name(k, ast.Store(), s)], value=lit), s)
                    if b and isinstance(b[-1], (ast.Break, ast.Continue)):
                        b.insert(len(b) - 1, a)
                    else:
                        b.append(a)
        m = copy.copy(s)
        m.test = test
        m.body = b1 or [ast.copy_location(ast.Pass(), s)]
        m.orelse = b2
        return pre + [m]

    def stable_loop(self, body_fn, env, at):
        """process a loop body whose effect on the tracked values must be an invariant: names whose tracked value
        changes in the body are put back before the loop"""
        out = []
        for _ in range(3):
            trial = env_copy(env)
            try:
                body = body_fn(trial)
            except Bail:
                raise
            changed = []
            for k, v in env.items():
                w = trial.get(k)
                same = type(w) is type(v) and (
                    (isinstance(v, Rec) and v.fields == w.fields) or (isinstance(v, Tup) and tup_same(v, w))
                    or (isinstance(v, Con) and ast.dump(v.node) == ast.dump(w.node)))
                if not same:
                    changed.append(k)
            if not changed:
                # values created inside the body do not survive it
                return out, body
            for k in changed:
                out += self.put_back(k, env, at)
                env.pop(k, None)
        raise Bail("loop does not stabilise")

    def loop_generic(self, s, env):
        def body_fn(e):
            m = copy.copy(s)
            m.test = self.expr(s.test, e, None)
            m.body = self.block(s.body, e)
            m.orelse = self.block(s.orelse, e)
            return m
        out, m = self.stable_loop(body_fn, env, s)
        return out + [m]

    def for_stmt(self, s, env):
        pre = []
        it = self.expr(s.iter, env, pre)
        elems = self.iter_elems(it)
        if elems is not None and len(elems) <= MAXUNROLL and not s.orelse and not has_node(s.body, ast.Break) \
                and self.worth_unrolling(s, it, elems):
            trial = env_copy(env)
            try:
                if has_node(s.body, ast.Continue):
                    body = single_exit(s.body, ast.Continue, lambda x: [])
                else:
                    body = s.body
                tnames = [x.id for x in ast.walk(s.target) if isinstance(x, ast.Name)]
                rebound = {n.id for n in own_nodes(body) if isinstance(n, ast.Name) and isinstance(n.ctx, (ast.Store, ast.Del))}
                stmts = []
                for e in elems:
                    mp = None
                    if isinstance(e, ast.Name) and isinstance(trial.get(e.id), Tup) and isinstance(s.target, (ast.Tuple, ast.List)):
                        e = self.materialise(trial[e.id], e)        # an element that is itself a tuple we know item by item
                    if not (set(tnames) & rebound) and not (set(tnames) & self.closure_used):
                        if isinstance(s.target, ast.Name) and (is_atom(e) or is_const_lit(e)):
                            mp = {s.target.id: e}
                        elif isinstance(s.target, (ast.Tuple, ast.List)) and isinstance(e, (ast.Tuple, ast.List)) and len(e.elts) == len(s.target.elts) \
                                and all(isinstance(t, ast.Name) for t in s.target.elts) and all(is_atom(x) or is_const_lit(x) for x in e.elts):
                            mp = {t.id: x for t, x in zip(s.target.elts, e.elts)}
                    if mp is not None:
                        # the loop variable is an alias of something that has a name: use that name
                        stmts += [subst(b, mp) for b in body]
                        # the variable keeps its last value after the loop
                        stmts.append(ast.copy_location(ast.Assign(targets=[copy.deepcopy(s.target)], value=load(e)), s)) if e is elems[-1] else None
                    else:
                        stmts.append(ast.copy_location(ast.Assign(targets=[copy.deepcopy(s.target)], value=e), s))
                        stmts += [copy.deepcopy(b) for b in body]
                out = self.block(stmts, trial)
                env.clear()
                env.update(trial)
                self.stat("unrolled")
                return pre + out
            except Bail:
                pass
        s2 = copy.copy(s)
        s2.iter = it
        return pre + self.loop_generic_for(s2, env)

    def loop_generic_for(self, s, env):
        def body_fn(e):
            m = copy.copy(s)
            p2 = []
            m.target = self.target(s.target, e, p2)
            m.body = self.block(s.body, e)
            m.orelse = self.block(s.orelse, e)
            return m
        out, m = self.stable_loop(body_fn, env, s)
        return out + [m]

    def worth_unrolling(self, s, it, elems):
        """unroll loops over name tuples / records / heterogeneous literals, not numeric loops"""
        if isinstance(it, ast.Call) and isinstance(it.func, ast.Name) and it.func.id == "range":
            return False
        return True

    def try_stmt(self, s, env):
        # names whose tracked value changes anywhere inside are put back first
        def body_fn(e):
            m = copy.copy(s)
            m.body = self.block(s.body, e)
            hs = []
            for h in s.handlers:
                h2 = copy.copy(h)
                e2 = env_copy(e)
                h2.body = self.block(h.body, e2)
                hs.append(h2)
                for k in list(e):
                    w = e2.get(k)
                    if w is None or type(w) is not type(e[k]) or (isinstance(w, Rec) and w.fields != e[k].fields):
                        e.pop(k)
            m.handlers = hs
            m.orelse = self.block(s.orelse, e)
            m.finalbody = self.block(s.finalbody, e)
            return m
        out, m = self.stable_loop(body_fn, env, s)
        # values created inside stay unknown
        return out + [m]

    # ------------------------------------------------------------------ expressions
    def iter_elems(self, n, small_range=False):
        """the elements an iteration over `n` yields, when that is written in the source"""
        if small_range and isinstance(n, ast.Call) and isinstance(n.func, ast.Name) and n.func.id == "range" and "range" not in self.locals \
                and len(n.args) == 1 and not n.keywords and isinstance(n.args[0], ast.Constant) and isinstance(n.args[0].value, int) and 0 <= n.args[0].value <= 8:
            return [const(i, n) for i in range(n.args[0].value)]
        if is_seq_lit(n) or (isinstance(n, ast.Set) and not any(isinstance(e, ast.Starred) for e in n.elts) and len(n.elts) <= 1):
            return list(n.elts)
        if is_rec_lit(n):
            return [copy.deepcopy(k) for k in n.keys]
        if isinstance(n, ast.Call) and not n.keywords:
            f = n.func
            if isinstance(f, ast.Attribute) and is_rec_lit(f.value) and not n.args:
                d = f.value
                if f.attr == "items":
                    return [ast.copy_location(ast.Tuple(elts=[copy.deepcopy(k), v], ctx=ast.Load()), n) for k, v in zip(d.keys, d.values)]
                if f.attr == "keys":
                    return [copy.deepcopy(k) for k in d.keys]
                if f.attr == "values":
                    return list(d.values)
            if isinstance(f, ast.Name) and f.id not in self.locals:
                if f.id == "zip" and n.args:
                    cols = [self.iter_elems(a) for a in n.args]
                    known = [c for c in cols if c is not None]
                    if not known:
                        return None
                    k = min(len(c) for c in known)
                    rows = []
                    for i in range(k):
                        row = []
                        for a, c in zip(n.args, cols):
                            if c is not None:
                                row.append(c[i])
                            elif isinstance(a, ast.Name):
                                row.append(ast.copy_location(ast.Subscript(value=load(a), slice=const(i, a), ctx=ast.Load()), a))
                            else:
                                return None
                        rows.append(ast.copy_location(ast.Tuple(elts=row, ctx=ast.Load()), n))
                    if len(known) != len(cols) and not all(len(c) == k for c in known):
                        return None
                    return rows
                if f.id == "enumerate" and len(n.args) in (1, 2):
                    c = self.iter_elems(n.args[0])
                    st = 0
                    if len(n.args) == 2:
                        if not (isinstance(n.args[1], ast.Constant) and isinstance(n.args[1].value, int)):
                            return None
                        st = n.args[1].value
                    if c is None:
                        return None
                    return [ast.copy_location(ast.Tuple(elts=[const(st + i, n), e], ctx=ast.Load()), n) for i, e in enumerate(c)]
                if f.id in ("list", "tuple", "iter") and len(n.args) == 1:
                    return self.iter_elems(n.args[0])
                if f.id == "reversed" and len(n.args) == 1:
                    c = self.iter_elems(n.args[0])
                    return None if c is None else list(reversed(c))
        return None

    def expr(self, e, env, pre, top=False):
        """fold an expression bottom-up; `pre` receives statements that must run before the one being rewritten
        (None: nothing may be hoisted out of this position)"""
        if e is None:
            return None
        if top and isinstance(e, ast.Call):
            return self.x_Call(e, env, pre, top=True)
        mth = getattr(self, "x_" + type(e).__name__, None)
        if mth is not None:
            return mth(e, env, pre)
        return self.generic(e, env, pre)

    def generic(self, e, env, pre):
        m = copy.copy(e)
        for f, v in ast.iter_fields(e):
            if isinstance(v, list):
                setattr(m, f, [self.expr(x, env, pre) if isinstance(x, ast.expr) else (self.generic(x, env, pre) if isinstance(x, ast.AST) else x) for x in v])
            elif isinstance(v, ast.expr):
                setattr(m, f, self.expr(v, env, pre))
            elif isinstance(v, ast.AST):
                setattr(m, f, self.generic(v, env, pre) if not isinstance(v, (ast.expr_context, ast.operator, ast.unaryop, ast.cmpop, ast.boolop)) else v)
        return m

    def x_Name(self, e, env, pre):
        if isinstance(e.ctx, ast.Load):
            v = env.get(e.id)
            if v is not None:
                return self.materialise(v, e)
            if e.id not in self.locals and e.id in self.m.consts:
                self.stat("consts")
                return ast.copy_location(copy.deepcopy(self.m.consts[e.id]), e)
        return copy.copy(e)

    def x_Attribute(self, e, env, pre):
        if isinstance(e.ctx, ast.Load) and isinstance(e.value, ast.Name) and isinstance(env.get(e.value.id), ObjCopy):
            oc = env[e.value.id]
            if e.attr in oc.fields:
                return name(oc.fields[e.attr], at=e)
            if e.attr not in ("model_copy", "model_dump", "dict", "copy", "json", "model_dump_json", "model_fields"):
                self.stat("folds")
                return ast.copy_location(ast.Attribute(value=load(oc.base), attr=e.attr, ctx=ast.Load()), e)
        m = self.generic(e, env, pre)
        # self.NAME / cls.NAME / Class.NAME with NAME = <literal tuple / string> in the class body, never stored elsewhere
        if isinstance(e.ctx, ast.Load) and isinstance(m.value, ast.Name) and self.cls is not None:
            cls = None
            if m.value.id in ("self", "cls") and m.value.id in params_of(self.fn)[:1]:
                cls = self.cls
            elif m.value.id in self.m.classes and m.value.id not in self.locals:
                cls = self.m.classes[m.value.id]
            if cls is not None:
                lit = self.D.class_const(self.m, cls, m.attr, exact=getattr(self, "exact", False) and m.value.id in ("self", "cls"))
                if lit is not None:
                    self.stat("consts")
                    return ast.copy_location(copy.deepcopy(lit), e)
        return m

    def x_Lambda(self, e, env, pre):
        inner = {k: v for k, v in env.items() if k not in bound_names(e)}
        m = copy.copy(e)
        sub = FnPE.__new__(FnPE)
        sub.__dict__.update(self.__dict__)
        sub.locals = self.locals | bound_names(e)
        m.body = sub.expr(e.body, {k: v for k, v in inner.items() if isinstance(v, Con)}, None)
        return m

    def x_JoinedStr(self, e, env, pre):
        m = self.generic(e, env, pre)
        parts = []
        for v in m.values:
            if isinstance(v, ast.Constant) and isinstance(v.value, str):
                parts.append(v.value)
            elif isinstance(v, ast.FormattedValue) and v.conversion == -1 and v.format_spec is None and isinstance(v.value, ast.Constant) and isinstance(v.value.value, str):
                parts.append(v.value.value)
            else:
                return m
        self.stat("folds")
        return const("".join(parts), e)

    def x_BinOp(self, e, env, pre):
        m = self.generic(e, env, pre)
        if isinstance(m.op, ast.Add):
            l, r = m.left, m.right
            if const_key(l) and const_key(r):
                return const(l.value + r.value, e)
            if isinstance(l, ast.Tuple) and isinstance(r, ast.Tuple) and is_seq_lit(l) and is_seq_lit(r):
                return ast.copy_location(ast.Tuple(elts=l.elts + r.elts, ctx=ast.Load()), e)
            if isinstance(l, ast.List) and isinstance(r, ast.List) and is_seq_lit(l) and is_seq_lit(r) and (getattr(l, "_lit", False) or getattr(r, "_lit", False)):
                return ast.copy_location(ast.List(elts=l.elts + r.elts, ctx=ast.Load()), e)
        return m

    def x_Compare(self, e, env, pre):
        m = self.generic(e, env, pre)
        if len(m.ops) == 1:
            l, r, op = m.left, m.comparators[0], m.ops[0]
            if isinstance(op, (ast.In, ast.NotIn)) and const_key(l):
                keys = None
                if is_rec_lit(r):
                    keys = [k.value for k in r.keys]
                elif is_seq_lit(r) and all(isinstance(x, ast.Constant) for x in r.elts):
                    keys = [x.value for x in r.elts]
                if keys is not None:
                    self.stat("folds")
                    return const((l.value in keys) == isinstance(op, ast.In), e)
                if const_key(r):
                    # "Fn" in "Fn_cov": between two strings `in` looks for a piece of text
                    self.stat("folds")
                    return const((l.value in r.value) == isinstance(op, ast.In), e)
            if isinstance(op, (ast.Eq, ast.NotEq)) and isinstance(l, ast.Constant) and isinstance(r, ast.Constant) \
                    and isinstance(l.value, (str, bool, type(None))) and isinstance(r.value, (str, bool, type(None))):
                self.stat("folds")
                return const((l.value == r.value) == isinstance(op, ast.Eq), e)
            if isinstance(op, (ast.Is, ast.IsNot)) and isinstance(r, ast.Constant) and r.value is None and isinstance(l, (ast.Dict, ast.Tuple, ast.List)):
                self.stat("folds")
                return const(isinstance(op, ast.IsNot), e)          # a dict / tuple / list display is never None
            if isinstance(op, (ast.Is, ast.IsNot)) and isinstance(l, ast.Constant) and isinstance(r, ast.Constant) \
                    and (l.value is None or r.value is None) and isinstance(l.value, (str, bool, type(None))) and isinstance(r.value, (str, bool, type(None))):
                return const((l.value is r.value) == isinstance(op, ast.Is), e)
        return m

    def x_IfExp(self, e, env, pre):
        t = self.expr(e.test, env, pre)
        if isinstance(t, ast.Constant):
            return self.expr(e.body if t.value else e.orelse, env, pre)
        m = copy.copy(e)
        m.test = t
        m.body = self.expr(e.body, env, None)
        m.orelse = self.expr(e.orelse, env, None)
        # (a, b) if c else (x, y)  ->  (a if c else x, b if c else y)     (c a name: evaluating it again is harmless)
        if isinstance(t, ast.Name) and is_seq_lit(m.body) and is_seq_lit(m.orelse) and type(m.body) is type(m.orelse) and isinstance(m.body, ast.Tuple) \
                and len(m.body.elts) == len(m.orelse.elts) and 0 < len(m.body.elts) <= MAXUNROLL:
            elts = [ast.copy_location(ast.IfExp(test=load(t), body=a, orelse=b), e) for a, b in zip(m.body.elts, m.orelse.elts)]
            return ast.copy_location(ast.Tuple(elts=elts, ctx=ast.Load()), e)
        return m

    def x_BoolOp(self, e, env, pre):
        m = copy.copy(e)
        vals = [self.expr(e.values[0], env, pre)]
        for v in e.values[1:]:
            vals.append(self.expr(v, env, None))

        def lit_truth(v):
            """truth value of a display whose emptiness is written out: () [] {} "" are false, non-empty displays are true"""
            if isinstance(v, (ast.Tuple, ast.List, ast.Set)) and not any(isinstance(x, ast.Starred) for x in v.elts):
                return len(v.elts) > 0
            if isinstance(v, ast.Dict) and all(k is not None for k in v.keys):
                return len(v.keys) > 0
            if isinstance(v, ast.Constant) and (v.value is None or isinstance(v.value, (str, bool))):
                return bool(v.value)
            return None
        # `() or DEFAULT` -> DEFAULT ; `("a",) or DEFAULT` -> ("a",)   (operands without effects only)
        out = []
        for i, v in enumerate(vals):
            t = lit_truth(v)
            last = i == len(vals) - 1
            if t is None or last:
                out.append(v)
                if t is None:
                    out += vals[i + 1:]
                break
            if isinstance(e.op, ast.Or):
                if t:
                    out.append(v)
                    break
                continue            # a false literal in `or`: skipped
            if not t:
                out.append(v)
                break
            continue                # a true literal in `and`: skipped
        if len(out) == 1:
            self.stat("folds")
            return out[0]
        m.values = out
        return m

    def x_Subscript(self, e, env, pre):
        if not isinstance(e.ctx, ast.Load):
            return self.generic(e, env, pre)
        v = self.expr(e.value, env, pre)
        sl = self.expr(e.slice, env, pre)
        if is_rec_lit(v) and const_key(sl):
            for k, val in zip(v.keys, v.values):
                if k.value == sl.value:
                    self.stat("folds")
                    if isinstance(val, ast.Name) and isinstance(env.get(val.id), Con):
                        return self.materialise(env[val.id], val)
                    return val
            if all(is_const_lit(x) or isinstance(x, (ast.Lambda, ast.Name)) for x in v.values):
                # a table without that key: the look-up raises KeyError (written as an expression that does just that)
                self.stat("folds")
                thrower = ast.parse(f"(_ for _ in ()).throw(KeyError({sl.value!r}))", mode="eval").body
                return ast.fix_missing_locations(ast.copy_location(thrower, e))
            raise Bail("missing key")
        if is_seq_lit(v) and all(is_atom(x) for x in v.elts):
            if isinstance(sl, ast.Constant) and isinstance(sl.value, int) and -len(v.elts) <= sl.value < len(v.elts):
                return v.elts[sl.value]
            if isinstance(sl, ast.Slice) and all(x is None or (isinstance(x, ast.Constant) and isinstance(x.value, int)) for x in (sl.lower, sl.upper, sl.step)):
                idx = slice(*(None if x is None else x.value for x in (sl.lower, sl.upper, sl.step)))
                return ast.copy_location(type(v)(elts=v.elts[idx], ctx=ast.Load()), e)
        m = copy.copy(e)
        m.value, m.slice = v, sl
        return m

    def x_Dict(self, e, env, pre):
        keys, vals = [], []
        for k, v in zip(e.keys, e.values):
            v2 = self.expr(v, env, pre)
            if k is None:
                if is_rec_lit(v2):
                    for kk, vv in zip(v2.keys, v2.values):
                        keys.append(kk)
                        vals.append(vv)
                    continue
                keys.append(None)
                vals.append(v2)
            else:
                keys.append(self.expr(k, env, pre))
                vals.append(v2)
        # later duplicates win
        if all(k is not None and const_key(k) for k in keys):
            seen = {}
            for k, v in zip(keys, vals):
                seen[k.value] = (k, v)
            keys = [kv[0] for kv in seen.values()]
            vals = [kv[1] for kv in seen.values()]
        m = copy.copy(e)
        m.keys, m.values = keys, vals
        return m

    def x_Tuple(self, e, env, pre):
        return self.seq(e, env, pre)

    def x_List(self, e, env, pre):
        m = self.seq(e, env, pre)
        m._lit = True
        return m

    def seq(self, e, env, pre):
        if not isinstance(e.ctx, ast.Load):
            return copy.deepcopy(e)
        elts = []
        for x in e.elts:
            if isinstance(x, ast.Starred):
                v = self.expr(x.value, env, pre)
                el = self.iter_elems(v)
                if el is not None:
                    elts += el
                    continue
                s2 = copy.copy(x)
                s2.value = v
                elts.append(s2)
            else:
                elts.append(self.expr(x, env, pre))
        m = copy.copy(e)
        m.elts = elts
        return m

    def x_ListComp(self, e, env, pre):
        return self.comp(e, env, pre, lambda items: ast.List(elts=items, ctx=ast.Load()))

    def x_GeneratorExp(self, e, env, pre):
        return self.comp(e, env, pre, lambda items: ast.Tuple(elts=items, ctx=ast.Load()))

    def x_SetComp(self, e, env, pre):
        return self.comp(e, env, pre, None)

    def x_DictComp(self, e, env, pre):
        def mk(items):
            d = ast.Dict(keys=[k for k, _ in items], values=[v for _, v in items])
            if all(const_key(k) for k in d.keys):
                seen = {}
                for k, v in zip(d.keys, d.values):
                    seen[k.value] = (k, v)
                d.keys = [kv[0] for kv in seen.values()]
                d.values = [kv[1] for kv in seen.values()]
            return d
        return self.comp(e, env, pre, mk)

    def comp(self, e, env, pre, build):
        """a comprehension whose iterables are written out is unrolled; otherwise its parts are folded in place"""
        m = copy.copy(e)
        gens = []
        inner_env = {k: v for k, v in env.items() if k not in comp_targets(e)}
        first = True
        for g in e.generators:
            g2 = copy.copy(g)
            g2.iter = self.expr(g.iter, env if first else inner_env, pre if first else None)
            g2.ifs = [self.expr_nohoist(i, inner_env) for i in g.ifs]
            gens.append(g2)
            first = False
        m.generators = gens
        unrolled = self.unroll_comp(e, gens, inner_env, build) if build is not None else None
        if unrolled is not None:
            self.stat("unrolled")
            return ast.copy_location(unrolled, e)
        for f in ("elt", "key", "value"):
            if hasattr(e, f):
                setattr(m, f, self.expr_nohoist(getattr(e, f), inner_env))
        return m

    def expr_nohoist(self, e, env):
        return self.expr(e, env, None)

    def unroll_comp(self, e, gens, env, build):
        if any(g.is_async for g in gens):
            return None
        items = []

        def rec(i, mp):
            if i == len(gens):
                if isinstance(e, ast.DictComp):
                    k = self.expr_nohoist(subst(e.key, mp), env)
                    v = self.expr_nohoist(subst(e.value, mp), env)
                    items.append((k, v))
                else:
                    items.append(self.expr_nohoist(subst(e.elt, mp), env))
                return True
            g = gens[i]
            it = self.expr_nohoist(subst(g.iter, mp), env) if i else g.iter
            # a generator / list over range(<small literal>) whose items are taken apart again (tuple-unpacked) is a family of named values
            el = self.iter_elems(it, small_range=isinstance(e, ast.GeneratorExp))
            if el is None or len(el) > MAXUNROLL:
                return False
            for x in el:
                mp2 = dict(mp)
                if isinstance(g.target, ast.Name):
                    mp2[g.target.id] = x
                elif isinstance(g.target, (ast.Tuple, ast.List)) and isinstance(x, (ast.Tuple, ast.List)) and len(x.elts) == len(g.target.elts) \
                        and all(isinstance(t, ast.Name) for t in g.target.elts):
                    for t, xv in zip(g.target.elts, x.elts):
                        mp2[t.id] = xv
                else:
                    return False
                # element expressions are duplicated by substitution: they must be cheap and pure
                if not all(is_atom(v) or is_const_lit(v) for v in mp2.values()):
                    return False
                ok = True
                for c in g.ifs:
                    t = self.expr_nohoist(subst(c, mp2), env)
                    if isinstance(t, ast.Constant):
                        if not t.value:
                            ok = False
                            break
                    else:
                        return False
                if not ok:
                    continue
                if not rec(i + 1, mp2):
                    return False
            return True
        try:
            if not rec(0, {}):
                return None
        except Bail:
            return None
        if len(items) > MAXUNROLL:
            return None
        return build(items)

    # ------------------------------------------------------------------ calls
    def x_Call(self, e, env, pre, top=False):
        f = e.func
        if isinstance(f, ast.Attribute) and isinstance(f.value, ast.Name) and isinstance(env.get(f.value.id), Rec) and f.attr == "pop" \
                and 1 <= len(e.args) <= 2 and const_key(e.args[0]) and not e.keywords:
            r = env[f.value.id]
            k = e.args[0].value
            if k in r.fields:
                fld = r.fields.pop(k)
                return name(fld, at=e)
            if len(e.args) == 2:
                return self.expr(e.args[1], env, pre)
            raise Bail("pop of a missing key")
        func = self.expr(f, env, pre)
        args = []
        for a in e.args:
            if isinstance(a, ast.Starred):
                v = self.expr(a.value, env, pre)
                el = self.iter_elems(v)
                if el is not None:
                    args += el
                    self.stat("folds")
                    continue
                s2 = copy.copy(a)
                s2.value = v
                args.append(s2)
            else:
                args.append(self.expr(a, env, pre))
        kws = []
        for k in e.keywords:
            v = self.expr(k.value, env, pre)
            if k.arg is None and is_rec_lit(v) and all(kk.value.isidentifier() for kk in v.keys):
                for kk, vv in zip(v.keys, v.values):
                    kws.append(ast.copy_location(ast.keyword(arg=kk.value, value=vv), k))
                self.stat("folds")
                continue
            k2 = copy.copy(k)
            k2.value = v
            kws.append(k2)
        m = copy.copy(e)
        m.func, m.args, m.keywords = func, args, kws
        if isinstance(func, ast.Lambda) and closed_lambda(func, lambda nm_: nm_ not in self.rebound_names() and nm_ not in self.closure_rebound()) \
                and not kws and not any(isinstance(a, ast.Starred) for a in args) \
                and len(args) == len(func.args.args) and all(is_atom(a) or isinstance(a, ast.Constant) for a in args):
            # (lambda a, b: body)(x, y) with plain arguments: body with a, b replaced
            self.stat("folds")
            return self.expr(subst(func.body, {p_.arg: a for p_, a in zip(func.args.args, args)}), env, pre)
        r = self.fold_call(m, env, pre)
        if r is not None:
            return r
        if not top and pre is not None and self.inlinable(m) is not None:
            # a helper call inside a larger expression: its result gets a name first (earlier siblings of the
            # expression are then evaluated after it - immaterial for the facts the rules decide)
            t = self.fresh("_r")
            self.locals.add(t)
            stmts = self.assign(ast.copy_location(ast.Assign(targets=[name(t, ast.Store(), e)], value=m), e), env)
            pre.extend(stmts)
            return self.x_Name(name(t, at=e), env, pre)
        return m

    def fold_call(self, c, env, pre):
        f = c.func
        nargs, kws = c.args, c.keywords
        plain = not any(isinstance(a, ast.Starred) for a in nargs) and not any(k.arg is None for k in kws)
        # np.less_equal(a, b) and friends are the comparison operators (element by element, as `a <= b` is for arrays)
        if plain and not kws and len(nargs) == 2 and isinstance(f, ast.Attribute) and isinstance(f.value, ast.Name) and f.value.id in ("np", "numpy") \
                and f.value.id not in self.locals and f.attr in NP_COMPARE:
            self.stat("folds")
            return ast.copy_location(ast.Compare(left=nargs[0], ops=[NP_COMPARE[f.attr]()], comparators=[nargs[1]]), c)
        if isinstance(f, ast.Name) and f.id not in self.locals and plain:
            if f.id == "sum" and len(nargs) == 2 and not kws and isinstance(nargs[1], ast.Tuple) and not nargs[1].elts and is_seq_lit(nargs[0]) and nargs[0].elts:
                # sum([(a, b), (c, d)], ()) == (a, b, c, d)
                parts = [self.materialise(env[x.id], x) if isinstance(x, ast.Name) and isinstance(env.get(x.id), Tup) else x for x in nargs[0].elts]
                if all(isinstance(x, ast.Tuple) and not any(isinstance(y, ast.Starred) for y in x.elts) for x in parts):
                    self.stat("folds")
                    t = ast.Tuple(elts=[y for x in parts for y in x.elts], ctx=ast.Load())
                    t._lit = True
                    return ast.copy_location(t, c)
            if f.id == "getattr" and len(nargs) == 2 and not kws and const_key(nargs[1]) and nargs[1].value.isidentifier():
                self.stat("folds")
                return ast.copy_location(ast.Attribute(value=nargs[0], attr=nargs[1].value, ctx=ast.Load()), c)
            if f.id == "dict":
                base = None
                if not nargs:
                    base = []
                elif len(nargs) == 1 and is_rec_lit(nargs[0]):
                    base = list(zip(nargs[0].keys, nargs[0].values))
                elif len(nargs) == 1:
                    el = self.iter_elems(nargs[0])
                    if el is not None and all(isinstance(x, ast.Tuple) and len(x.elts) == 2 and const_key(x.elts[0]) for x in el):
                        base = [(x.elts[0], x.elts[1]) for x in el]
                    elif isinstance(nargs[0], ast.Call) and isinstance(nargs[0].func, ast.Name) and nargs[0].func.id == "zip" and len(nargs[0].args) == 2:
                        base = self.zip_call_pairs(nargs[0], pre)
                        if isinstance(base, tuple) and base and base[0] == "lambda":
                            # nothing can be hoisted here (inside a comprehension / conditional): the call result gets its name as the
                            # parameter of an immediately applied lambda   dict(zip(K, f(x))) == (lambda t: {K0: t[0], ...})(f(x))
                            if kws:
                                base = None
                            else:
                                _, lkeys, lsrc = base
                                t = self.fresh("_t")
                                body = ast.Dict(keys=[copy.deepcopy(k) for k in lkeys],
                                                values=[ast.Subscript(value=name(t), slice=const(i), ctx=ast.Load()) for i in range(len(lkeys))])
                                lam = ast.Lambda(args=ast.arguments(posonlyargs=[], args=[ast.arg(arg=t)], kwonlyargs=[], kw_defaults=[], defaults=[]), body=body)
                                self.stat("folds")
                                return ast.fix_missing_locations(ast.copy_location(ast.Call(func=lam, args=[lsrc], keywords=[]), c))
                if base is not None:
                    seen = {}
                    for k, v in base:
                        seen[k.value] = (k, v)
                    for k in kws:
                        seen[k.arg] = (const(k.arg, k), k.value)
                    self.stat("folds")
                    return ast.copy_location(ast.Dict(keys=[kv[0] for kv in seen.values()], values=[kv[1] for kv in seen.values()]), c)
            if f.id == "len" and len(nargs) == 1 and not kws and (is_rec_lit(nargs[0]) or is_seq_lit(nargs[0])) and getattr(nargs[0], "_from", None):
                return const(len(nargs[0].keys if isinstance(nargs[0], ast.Dict) else nargs[0].elts), c)
            if f.id in ("tuple", "list") and len(nargs) == 1 and not kws:
                el = self.iter_elems(nargs[0])
                if el is not None:
                    cls = ast.Tuple if f.id == "tuple" else ast.List
                    r = ast.copy_location(cls(elts=el, ctx=ast.Load()), c)
                    r._lit = True
                    return r
        if isinstance(f, ast.Attribute) and is_rec_lit(f.value) and plain:
            d = f.value
            if f.attr == "get" and 1 <= len(nargs) <= 2 and const_key(nargs[0]) and not kws:
                for k, v in zip(d.keys, d.values):
                    if k.value == nargs[0].value:
                        return v
                return nargs[1] if len(nargs) == 2 else const(None, c)
            if f.attr in ("items", "values", "keys") and not nargs and not kws:
                el = self.iter_elems(c)
                r = ast.copy_location(ast.Tuple(elts=el, ctx=ast.Load()), c)
                r._lit = True
                return r
            if f.attr == "copy" and not nargs and not kws:
                return d
        return None

    def zip_call_pairs(self, z, pre):
        """dict(zip(LIT, <call or tuple with a starred call>)): name the call result and index it"""
        keys = self.iter_elems(z.args[0])
        if keys is None or not all(const_key(k) for k in keys):
            return None
        src = z.args[1]
        if isinstance(src, ast.Call):
            ar = self.ret_arity(src)
            if ar is not None and ar < len(keys):
                keys = keys[:ar]
            if pre is None:
                return ("lambda", keys, src)
            t = self.fresh("_t")
            pre.append(ast.copy_location(ast.Assign(targets=[name(t, ast.Store(), z)], value=src), z))
            self.locals.add(t)
            return [(k, ast.copy_location(ast.Subscript(value=name(t, at=z), slice=const(i, z), ctx=ast.Load()), z)) for i, k in enumerate(keys)]
        if isinstance(src, (ast.Tuple, ast.List)):
            stars = [x for x in src.elts if isinstance(x, ast.Starred)]
            if len(stars) == 1 and isinstance(stars[0].value, (ast.Call, ast.Name)):
                need = len(keys) - (len(src.elts) - 1)
                if need < 0:
                    return None
                sv = stars[0].value
                if isinstance(sv, ast.Call):
                    if pre is None:
                        return None
                    ar = self.ret_arity(sv)
                    if ar is not None:
                        need = min(need, ar)
                    t = self.fresh("_t")
                    pre.append(ast.copy_location(ast.Assign(targets=[name(t, ast.Store(), z)], value=sv), z))
                    self.locals.add(t)
                    base = name(t, at=z)
                else:
                    base = sv
                vals = []
                for x in src.elts:
                    if x is stars[0]:
                        vals += [ast.copy_location(ast.Subscript(value=load(base), slice=const(i, z), ctx=ast.Load()), z) for i in range(need)]
                    else:
                        vals.append(x)
                return list(zip(keys, vals))
        return None

    # ------------------------------------------------------------------ helper inlining
    def resolve(self, call):
        """(callee FunctionDef, class, receiver expr | None, kind) for a private helper of the same module"""
        f = call.func
        if isinstance(f, ast.Name):
            if f.id in getattr(self, "local_defs", {}):
                return self.local_defs[f.id], None, None, "closure"
            if f.id in self.locals or f.id not in self.m.funcs:
                return None
            return self.m.funcs[f.id], None, None, "function"
        if isinstance(f, ast.Attribute):
            recv = f.value
            cls = None
            after = False
            if isinstance(recv, ast.Name) and recv.id in ("self", "cls") and self.cls is not None and recv.id in params_of(self.fn)[:1]:
                cls = self.cls
            elif isinstance(recv, ast.Call) and isinstance(recv.func, ast.Name) and recv.func.id == "super" and not recv.args and self.cls is not None:
                cls, after = self.cls, True
            elif isinstance(recv, ast.Name) and recv.id in self.m.classes and recv.id not in self.locals:
                cls = self.m.classes[recv.id]
            if cls is None:
                return None
            owner, fn = self.D.method(self.m, cls, f.attr, after=after)
            if fn is None:
                return None
            decos = [ast.unparse(d) for d in fn.decorator_list]
            if any(d not in ("staticmethod", "classmethod") for d in decos):
                return None
            ex = getattr(self, "exact", False)
            if not ex and isinstance(recv, ast.Name) and recv.id == "self" and self.D.overridden_below(owner if not after else cls, f.attr) and not after:
                return None
            if not ex and isinstance(recv, ast.Name) and recv.id == "self" and owner is not self.cls and self.D.overridden_below(self.cls, f.attr):
                return None
            kind = "static" if "staticmethod" in decos else ("classmethod" if "classmethod" in decos else "method")
            if kind == "method" and not (isinstance(recv, ast.Name) and recv.id == "self") and not after:
                return None
            if kind == "classmethod":
                return None
            return fn, owner, (name("self", at=call) if kind == "method" else None), kind
        return None

    def ret_arity(self, call):
        r = self.resolve_any(call)
        if r is None:
            return None
        fn = r
        n = None
        for x in own_nodes(fn.body):
            if isinstance(x, ast.Return):
                if x.value is None or not isinstance(x.value, ast.Tuple) or any(isinstance(e, ast.Starred) for e in x.value.elts):
                    return None
                if n is not None and n != len(x.value.elts):
                    return None
                n = len(x.value.elts)
        return n

    def resolve_any(self, call):
        """desugared FunctionDef of a repo callee (this module's functions / methods, or module.function of an imported repo module)"""
        r = self.resolve(call)
        if r is not None:
            fn, owner = r[0], r[1]
            return self.D.function(self.m, fn, owner)
        f = call.func
        if isinstance(f, ast.Attribute) and isinstance(f.value, ast.Name) and f.value.id not in self.locals:
            for mod in self.D.mods.values():
                if mod.name.split(".")[-1] == f.value.id and f.attr in mod.funcs and self.imports_module(f.value.id, mod):
                    return self.D.function(mod, mod.funcs[f.attr], None)
        return None

    def imports_module(self, alias, mod):
        for n in self.m.tree.body:
            if isinstance(n, ast.ImportFrom):
                for al in n.names:
                    if (al.asname or al.name) == alias and al.name == mod.name.split(".")[-1]:
                        return True
        return False

    def is_plumbing(self, fn, call):
        a = fn.args
        if a.kwarg or a.vararg:
            return True
        if any(isinstance(x, ast.Starred) for x in call.args) or any(k.arg is None for k in call.keywords):
            return True
        if any(is_rec_lit(x) or (is_seq_lit(x) and getattr(x, "_lit", False)) for x in call.args) or any(is_rec_lit(k.value) for k in call.keywords):
            return True
        if any(isinstance(x, (ast.Dict, ast.Tuple, ast.List)) and getattr(x, "_from", None) for x in list(call.args) + [k.value for k in call.keywords]):
            return True
        ps = set(params_of(fn))
        for n in own_nodes(fn.body):
            if isinstance(n, ast.Call) and isinstance(n.func, ast.Name) and n.func.id in PLUMB_CALLS:
                return True
            if isinstance(n, ast.Return) and n.value is not None and (isinstance(n.value, ast.Dict) or (isinstance(n.value, ast.Call) and isinstance(n.value.func, ast.Name) and n.value.func.id == "dict")):
                return True
            if isinstance(n, ast.Call) and isinstance(n.func, ast.Attribute) and n.func.attr in ("items", "values", "keys", "update") and isinstance(n.func.value, ast.Name) and n.func.value.id in ps:
                return True
            if isinstance(n, ast.Subscript) and isinstance(n.value, ast.Name) and n.value.id in ps and const_key(n.slice) and isinstance(n.ctx, ast.Store):
                return True
            if isinstance(n, ast.keyword) and n.arg is None:
                return True
        return False

    def inlinable(self, call):
        """(callee as written, desugared callee, receiver, kind) when `call` is a private same-module helper that moves records around"""
        if not isinstance(call, ast.Call) or os.environ.get("VERIF_NOINLINE"):
            return None
        r = self.resolve(call)
        if r is None:
            return None
        fn, owner, recv, kind = r
        if kind == "closure":
            try:
                single_exit(fn.body, ast.Return, lambda s: [])
            except Bail:
                return None
            return fn, fn, None, "function"
        if not fn.name.startswith("_") or fn.name.startswith("__"):
            return None
        if any(ast.unparse(d.func if isinstance(d, ast.Call) else d).split(".")[-1] not in ("staticmethod", "classmethod") for d in fn.decorator_list):
            return None             # a decorated helper (memoised, wrapped ..) is not its body: a call of it stays a call
        if id(fn) in self.D.stack or fn is self.fn or any(x is fn for x in getattr(self, "inline_stack", [])):
            return None
        # (exact class: the helper is rewritten in place, in the context of that class - not its class-independent normal form)
        callee = self.D.function(self.m, fn, owner) if not (getattr(self, "exact", False) and kind == "method") else fn
        plumbing = self.is_plumbing(fn, call) or self.is_plumbing(callee, call)
        if not plumbing:
            # other helpers are inlined when that needs no restructuring: one return, at the end (early returns would have to be
            # turned into if/else chains whose merges hide the correlation between the helper's paths and the caller's tests)
            rets = [n for n in own_nodes(callee.body) if isinstance(n, ast.Return)]
            simple = (len(rets) == 1 and callee.body and callee.body[-1] is rets[0]) or not rets
            if INLINE_POLICY == "plumbing" or not (simple or INLINE_POLICY == "all"):
                return None
        if has_node(callee.body, (ast.Yield, ast.YieldFrom, ast.Nonlocal, ast.Global, ast.Await)):
            return None
        for n in own_nodes(callee.body):
            if isinstance(n, ast.Call) and isinstance(n.func, ast.Name) and n.func.id in ("super", "locals", "vars"):
                return None
            if isinstance(n, ast.Name) and n.id == "__class__":
                return None
            if isinstance(n, ast.Attribute) and n.attr.startswith("__") and not n.attr.endswith("__") and owner is not self.cls:
                return None         # name mangling depends on the class the code is written in
        try:
            single_exit(callee.body, ast.Return, lambda s: [])
        except Bail:
            return None
        return fn, callee, recv, kind

    def try_inline_stmt(self, call, env, on_ret, at, tail=False):
        """statements replacing `<on_ret>(call)` when `call` is an inlinable helper, else None"""
        r = self.inlinable(call)
        if r is None:
            return None
        fn, callee, recv, kind = r
        try:
            binds = self.bind(callee, call, recv, kind)
        except Bail:
            return None
        if binds is None:
            return None
        # the callee's locals get fresh names
        suffix = self.m.fresh("")
        mp = {nm: f"{nm}{suffix}" for nm in bound_names(callee)}
        pstmts = []
        rebound = {n.id for n in own_nodes(callee.body) if isinstance(n, ast.Name) and isinstance(n.ctx, (ast.Store, ast.Del))}
        for p_, v in binds:
            if isinstance(v, ast.Name) and v.id == "self" and p_ == "self":
                mp.pop("self", None)
                continue
            if isinstance(v, ast.Name) and v.id not in env and p_ not in rebound and (v.id == "self" or v.id in params_of(self.fn)) \
                    and v.id not in {n.id for n in own_nodes(self.fn.body) if isinstance(n, ast.Name) and isinstance(n.ctx, (ast.Store, ast.Del))}:
                # the parameter is just another name for a never re-bound parameter of the caller (self, algo): use that name
                mp[p_] = v.id
                continue
            pstmts.append(ast.copy_location(ast.Assign(targets=[name(mp[p_], ast.Store(), at)], value=v), at))
        cbody = callee.body
        if cbody and isinstance(cbody[0], ast.Expr) and isinstance(cbody[0].value, ast.Constant) and isinstance(cbody[0].value.value, str):
            cbody = cbody[1:]
        body = [rename(x, mp) for x in cbody]
        try:
            body = single_exit(body, ast.Return, lambda x: on_ret(x.value), final=on_ret(None))
        except Bail:
            return None
        own_params = set(params_of(self.fn)) | {"self"}
        for nm in mp.values():
            self.locals.add(nm)
            if nm not in own_params:
                self.generated.add(nm)
        for n_ in ast.walk(callee):
            if isinstance(n_, ast.Starred) and isinstance(n_.ctx, ast.Load) and isinstance(n_.value, ast.Name) and n_.value.id in mp:
                self.starred_names.add(mp[n_.value.id])
        self.plumbed |= {mp[k_] for k_ in plumbed_names(callee, self.m) if k_ in mp}
        self.attr_store_texts()
        self._scan_attr_stores(callee.body, dict(mp))
        for k in self._mutated_names(callee):
            if k[1] in mp:
                self.mutated.add((k[0], mp[k[1]]))
        for k in self._closure_names(callee):
            if k in mp:
                self.closure_used.add(mp[k])
        self.inline_stack = getattr(self, "inline_stack", []) + [fn]
        try:
            out = self.block(pstmts + body, env)
        finally:
            self.inline_stack = self.inline_stack[:-1]
        self.stat("inlined")
        return out

    def bind(self, fn, call, recv, kind):
        a = fn.args
        pos = [x.arg for x in a.posonlyargs + a.args]
        if kind == "method":
            if not pos:
                return None
            binds = [(pos[0], recv)]
            pos = pos[1:]
        else:
            binds = []
        if any(isinstance(x, ast.Starred) for x in call.args) or any(k.arg is None for k in call.keywords):
            return None
        given = {}
        extra_pos = []
        for i, v in enumerate(call.args):
            if i < len(pos):
                given[pos[i]] = v
            else:
                extra_pos.append(v)
        if extra_pos and not a.vararg:
            return None
        extra_kw = []
        kwonly = [x.arg for x in a.kwonlyargs]
        posonly = {x.arg for x in a.posonlyargs}
        for k in call.keywords:
            if (k.arg in pos and k.arg not in posonly) or k.arg in kwonly:
                if k.arg in given:
                    return None
                given[k.arg] = k.value
            elif a.kwarg:
                extra_kw.append(k)
            else:
                return None
        # defaults
        allpos = [x.arg for x in a.posonlyargs + a.args]
        dflt = {}
        for nm, d in zip(allpos[len(allpos) - len(a.defaults):], a.defaults):
            dflt[nm] = d
        for x, d in zip(a.kwonlyargs, a.kw_defaults):
            if d is not None:
                dflt[x.arg] = d
        for p in pos + kwonly:
            if p in given:
                binds.append((p, given[p]))
            elif p in dflt:
                if not (is_const_lit(dflt[p]) or isinstance(dflt[p], ast.Constant)):
                    return None
                binds.append((p, copy.deepcopy(dflt[p])))
            else:
                return None
        if a.vararg:
            t = ast.Tuple(elts=extra_pos, ctx=ast.Load())
            t._lit = True
            binds.append((a.vararg.arg, ast.copy_location(t, call)))
        if a.kwarg:
            d = ast.Dict(keys=[const(k.arg, k) for k in extra_kw], values=[k.value for k in extra_kw])
            binds.append((a.kwarg.arg, ast.copy_location(d, call)))
        return binds


def param_aliases(body, params):
    """`x = p` as a statement of the function's own block, p a parameter that is never re-bound, x bound nowhere else: x IS p - every
    read of x is written as p and the statement dropped (a second name for an argument tells the rules nothing)"""
    stores = {}
    for n in ast.walk(ast.Module(body=list(body), type_ignores=[])):
        if isinstance(n, ast.Name) and isinstance(n.ctx, (ast.Store, ast.Del)):
            stores[n.id] = stores.get(n.id, 0) + 1
        elif isinstance(n, (ast.Global, ast.Nonlocal)):
            for g in n.names:
                stores[g] = 99
        elif isinstance(n, ast.arg):
            stores[n.arg] = stores.get(n.arg, 0) + 1        # a parameter of a nested function / lambda shadows
    ren = {}
    keep = []
    for s in body:
        if isinstance(s, ast.Assign) and len(s.targets) == 1 and isinstance(s.targets[0], ast.Name) and isinstance(s.value, ast.Name):
            x, p_ = s.targets[0].id, ren.get(s.value.id, s.value.id)
            if p_ in params and stores.get(p_, 0) == 0 and stores.get(x, 0) == 1 and x not in params:
                ren[x] = p_
                continue
        keep.append(s)
    if not ren:
        return body
    return [subst(s, {x: ast.Name(id=p_, ctx=ast.Load()) for x, p_ in ren.items()}) for s in keep]


def cleanup(body, generated, params, is_local=None):
    """copy propagation and dead-store removal restricted to the names this pass created:
       g = <name>   with g and <name> both bound exactly once in the function (or <name> a never re-bound parameter),
                    the binding of g not inside a loop         ->  g is replaced by <name>
       g = <literal> with g bound exactly once, not inside a loop       ->  g is replaced by the literal
       g = <atom>   with g never read                                  ->  dropped"""
    for _ in range(6):
        stores, loads = {}, {}
        inloop = set()

        def scan(stmts, loop):
            for s in stmts:
                for n in own_nodes([s]):
                    if isinstance(n, ast.Name):
                        if isinstance(n.ctx, ast.Load):
                            loads[n.id] = loads.get(n.id, 0) + 1
                        else:
                            stores[n.id] = stores.get(n.id, 0) + 1
                            if loop:
                                inloop.add(n.id)
                    elif isinstance(n, (ast.FunctionDef, ast.AsyncFunctionDef, ast.Lambda, ast.ClassDef)):
                        for x in ast.walk(n):
                            if isinstance(x, ast.Name):
                                loads[x.id] = loads.get(x.id, 0) + 2
                                if not isinstance(x.ctx, ast.Load):
                                    stores[x.id] = stores.get(x.id, 0) + 2
                    elif isinstance(n, (ast.For, ast.While, ast.ListComp, ast.SetComp, ast.DictComp, ast.GeneratorExp)) and not loop:
                        pass
        # loops: everything bound under a For / While / comprehension
        def mark(stmts, loop):
            for s in stmts:
                if isinstance(s, (ast.For, ast.While)):
                    for n in own_nodes([s]):
                        if isinstance(n, ast.Name) and not isinstance(n.ctx, ast.Load):
                            inloop.add(n.id)
                else:
                    for f in ("body", "orelse", "finalbody", "handlers"):
                        sub = getattr(s, f, None)
                        if isinstance(sub, list):
                            mark([x for x in sub if isinstance(x, ast.stmt)] + [y for x in sub if isinstance(x, ast.ExceptHandler) for y in x.body], loop)
        scan(body, False)
        mark(body, False)
        once = lambda nm: (stores.get(nm, 0) == 1 and nm not in params) or (nm in params and stores.get(nm, 0) == 0) \
            or (is_local is not None and stores.get(nm, 0) == 0 and not is_local(nm))          # a module-level function / constant
        mp = {}
        dead = set()

        def find(stmts):
            for s in stmts:
                if isinstance(s, ast.Assign) and len(s.targets) == 1 and isinstance(s.targets[0], ast.Name) and s.targets[0].id in generated:
                    g = s.targets[0].id
                    if stores.get(g, 0) == 1 and g not in inloop:
                        if isinstance(s.value, ast.Name) and once(s.value.id) and s.value.id not in inloop and s.value.id != g:
                            mp[g] = s.value
                        elif isinstance(s.value, ast.Constant) and (s.value.value is None or isinstance(s.value.value, (str, bool, int, float))):
                            mp[g] = s.value         # a field / parameter holding a literal
                        elif is_local is not None and isinstance(s.value, ast.Attribute) and _global_ref(s.value, is_local):
                            mp[g] = s.value         # a function of an imported module handed over as a value (estimator = fdd.SD_est)
                        elif loads.get(g, 0) == 0 and (is_atom(s.value) or is_const_lit(s.value) or isinstance(s.value, ast.Lambda)
                                                       or (isinstance(s.value, (ast.Tuple, ast.List)) and all(is_atom(x) for x in s.value.elts))):
                            dead.add(g)             # (making a function object has no effect either)
                    elif loads.get(g, 0) == 0 and is_atom(s.value) and not isinstance(s.value, (ast.Subscript,)):
                        dead.add(g)
                for f in ("body", "orelse", "finalbody"):
                    sub = getattr(s, f, None)
                    if isinstance(sub, list):
                        find(sub)
                for h in getattr(s, "handlers", []) or []:
                    find(h.body)
        find(body)
        if not mp and not dead:
            break
        # resolve chains
        def root(n):
            seen = set()
            while isinstance(n, ast.Name) and n.id in mp and n.id not in seen:
                seen.add(n.id)
                n = mp[n.id]
            return n
        mp2 = {k: root(v) for k, v in mp.items()}

        def drop(stmts):
            out = []
            for s in stmts:
                if isinstance(s, ast.Assign) and len(s.targets) == 1 and isinstance(s.targets[0], ast.Name) and (s.targets[0].id in mp2 or s.targets[0].id in dead):
                    continue
                for f in ("body", "orelse", "finalbody"):
                    sub = getattr(s, f, None)
                    if isinstance(sub, list) and sub and isinstance(sub[0], ast.stmt):
                        new = drop(sub)
                        if not new and f == "body":
                            new = [ast.copy_location(ast.Pass(), s)]
                        setattr(s, f, new)
                for h in getattr(s, "handlers", []) or []:
                    h.body = drop(h.body) or [ast.copy_location(ast.Pass(), h)]
                out.append(s)
            return out
        body = drop(body)
        body = [subst(s, mp2) for s in body]
    body = _local_copies(body, generated, params)
    return _fuse_tests(body, generated)


def _local_copies(body, generated, params):
    """inside one statement list (a loop body, a branch):  g = <name>  followed, in the same list, by every use of g  ->  the name itself
    (g a name of this pass bound once; <name> bound once in the function or a never re-bound parameter)"""
    stores, loads = {}, {}
    for n in own_nodes(body):
        if isinstance(n, ast.Name):
            d = loads if isinstance(n.ctx, ast.Load) else stores
            d[n.id] = d.get(n.id, 0) + 1
        elif isinstance(n, (ast.FunctionDef, ast.AsyncFunctionDef, ast.Lambda, ast.ClassDef)):
            for x in ast.walk(n):
                if isinstance(x, ast.Name):
                    loads[x.id] = loads.get(x.id, 0) + 2
                    stores[x.id] = stores.get(x.id, 0) + 2

    def count(stmts, nm):
        return sum(1 for n in own_nodes(stmts) if isinstance(n, ast.Name) and n.id == nm and isinstance(n.ctx, ast.Load))

    def once(nm):
        return (stores.get(nm, 0) == 1 and nm not in params) or (nm in params and stores.get(nm, 0) == 0)

    def go(stmts):
        i = 0
        stmts = list(stmts)
        while i < len(stmts):
            s = stmts[i]
            if isinstance(s, ast.Assign) and len(s.targets) == 1 and isinstance(s.targets[0], ast.Name) and s.targets[0].id in generated \
                    and isinstance(s.value, ast.Name) and s.value.id != s.targets[0].id:
                g, src_ = s.targets[0].id, s.value.id
                if stores.get(g, 0) == 1 and once(src_) and count(stmts[i + 1:], g) == loads.get(g, 0):
                    stmts[i + 1:] = [subst(x, {g: s.value}) for x in stmts[i + 1:]]
                    loads[src_] = loads.get(src_, 0) + loads.get(g, 0) - 1
                    del stmts[i]
                    continue
            for f in ("body", "orelse", "finalbody"):
                sub = getattr(s, f, None)
                if isinstance(sub, list) and sub and isinstance(sub[0], ast.stmt):
                    setattr(s, f, go(sub) or [ast.copy_location(ast.Pass(), s)] if f == "body" else go(sub))
            for h in getattr(s, "handlers", []) or []:
                h.body = go(h.body) or [ast.copy_location(ast.Pass(), h)]
            i += 1
        return stmts
    return go(body)


def _fuse_tests(body, generated):
    """g = <expr>; if g: ...   with g a name of this pass that is read nowhere else  ->  if <expr>: ..."""
    loads = {}
    for n in own_nodes(body):
        if isinstance(n, ast.Name) and isinstance(n.ctx, ast.Load):
            loads[n.id] = loads.get(n.id, 0) + 1
        elif isinstance(n, (ast.FunctionDef, ast.AsyncFunctionDef, ast.Lambda)):
            for x in ast.walk(n):
                if isinstance(x, ast.Name):
                    loads[x.id] = loads.get(x.id, 0) + 2

    def fuse(stmts):
        out = []
        for s in stmts:
            for f in ("body", "orelse", "finalbody"):
                sub = getattr(s, f, None)
                if isinstance(sub, list) and sub and isinstance(sub[0], ast.stmt):
                    setattr(s, f, fuse(sub))
            for h in getattr(s, "handlers", []) or []:
                h.body = fuse(h.body)
            prev = out[-1] if out else None
            if isinstance(s, ast.If) and isinstance(prev, ast.Assign) and len(prev.targets) == 1 and isinstance(prev.targets[0], ast.Name) \
                    and prev.targets[0].id in generated and loads.get(prev.targets[0].id, 0) == 1:
                g = prev.targets[0].id
                t = s.test
                if isinstance(t, ast.Name) and t.id == g:
                    s.test = prev.value
                    out.pop()
                elif isinstance(t, ast.UnaryOp) and isinstance(t.op, ast.Not) and isinstance(t.operand, ast.Name) and t.operand.id == g:
                    t.operand = prev.value
                    out.pop()
            out.append(s)
        return out
    return fuse(body)


def _global_ref(e, is_local):
    while isinstance(e, ast.Attribute):
        e = e.value
    return isinstance(e, ast.Name) and not is_local(e.id) and e.id not in ("self", "cls")


def terminates_all(stmts):
    """every path through stmts ends in return / raise"""
    if not stmts:
        return False
    s = stmts[-1]
    if isinstance(s, (ast.Return, ast.Raise)):
        return True
    if isinstance(s, ast.If):
        return bool(s.orelse) and terminates_all(s.body) and terminates_all(s.orelse)
    if isinstance(s, (ast.With,)):
        return terminates_all(s.body)
    return False


class _DropFloat(ast.NodeTransformer):
    """float(e) -> e (a conversion of type that keeps every number; float("nan") and the like stay); `x = float(x)` then reads
    `x = x` and is dropped"""

    def visit_Call(self, n):
        self.generic_visit(n)
        if isinstance(n.func, ast.Name) and n.func.id == "float" and len(n.args) == 1 and not n.keywords and not isinstance(n.args[0], (ast.Constant, ast.JoinedStr, ast.Starred)):
            return n.args[0]
        return n

    def _block(self, stmts):
        out = []
        for s_ in stmts:
            if isinstance(s_, ast.Assign) and len(s_.targets) == 1 and isinstance(s_.targets[0], ast.Name) and isinstance(s_.value, ast.Name) and s_.value.id == s_.targets[0].id:
                continue
            out.append(s_)
        return out

    def generic_visit(self, node):
        super().generic_visit(node)
        for f_ in ("body", "orelse", "finalbody"):
            b = getattr(node, f_, None)
            if isinstance(b, list) and b and isinstance(b[0], ast.stmt):
                nb = self._block(b)
                setattr(node, f_, nb or ([ast.copy_location(ast.Pass(), b[0])] if f_ == "body" else []))
        return node


class _Spelling(ast.NodeTransformer):
    """spellings of one operation brought to the one the rules are written in: np.transpose(x) -> x.T (no axes given);
    `v = e; return v` -> `return e` (outside try blocks); a module-level function that only hands its own parameters, in order, to
    another function of the module with the same parameters gets that function's body"""

    def __init__(self, tree):
        self.np = {a.asname or a.name for s_ in tree.body if isinstance(s_, ast.Import) for a in s_.names if a.name == "numpy"}
        self.in_try = 0

    def visit_Call(self, n):
        self.generic_visit(n)
        if isinstance(n.func, ast.Name) and n.func.id == "dict" and not n.args and n.keywords and all(k.arg is not None for k in n.keywords):
            # dict(a=1, b=2) is {"a": 1, "b": 2}
            return ast.copy_location(ast.Dict(keys=[ast.Constant(value=k.arg) for k in n.keywords], values=[k.value for k in n.keywords]), n)
        if isinstance(n.func, ast.Attribute) and n.func.attr == "transpose" and isinstance(n.func.value, ast.Name) and n.func.value.id in self.np \
                and len(n.args) == 1 and not n.keywords and not isinstance(n.args[0], ast.Starred):
            return ast.copy_location(ast.Attribute(value=n.args[0], attr="T", ctx=ast.Load()), n)
        return n

    def visit_Compare(self, n):
        self.generic_visit(n)
        flip = {ast.Lt: ast.Gt, ast.Gt: ast.Lt, ast.LtE: ast.GtE, ast.GtE: ast.LtE}
        if len(n.ops) == 1 and type(n.ops[0]) in flip and isinstance(n.left, ast.Constant) and isinstance(n.left.value, (int, float)) \
                and not isinstance(n.comparators[0], ast.Constant):
            return ast.copy_location(ast.Compare(left=n.comparators[0], ops=[flip[type(n.ops[0])]()], comparators=[n.left]), n)     # 0 > x  ->  x < 0
        return n

    def visit_UnaryOp(self, n):
        self.generic_visit(n)
        # not (x is None) -> x is not None;  not (a in b) -> a not in b   (identity and membership: exact)
        flip = {ast.Is: ast.IsNot, ast.IsNot: ast.Is, ast.In: ast.NotIn, ast.NotIn: ast.In}
        if isinstance(n.op, ast.Not) and isinstance(n.operand, ast.Compare) and len(n.operand.ops) == 1 and type(n.operand.ops[0]) in flip:
            c = n.operand
            return ast.copy_location(ast.Compare(left=c.left, ops=[flip[type(c.ops[0])]()], comparators=c.comparators), n)
        return n

    def visit_Try(self, n):
        self.in_try += 1
        self.generic_visit(n)
        self.in_try -= 1
        return n

    def _block(self, stmts):
        if self.in_try or len(stmts) < 2:
            return stmts
        a, r = stmts[-2], stmts[-1]
        if isinstance(r, ast.Return) and isinstance(r.value, ast.Name) and isinstance(a, ast.Assign) and len(a.targets) == 1 \
                and isinstance(a.targets[0], ast.Name) and a.targets[0].id == r.value.id:
            return stmts[:-2] + [ast.copy_location(ast.Return(value=a.value), a)]
        return stmts

    def generic_visit(self, node):
        super().generic_visit(node)
        for f_ in ("body", "orelse", "finalbody"):
            b = getattr(node, f_, None)
            if isinstance(b, list) and b and isinstance(b[0], ast.stmt):
                setattr(node, f_, self._block(b))
        return node


def _append_loops(tree):
    """x = []; for v in it: [if c:] x.append(e)   ->   x = [e for v in it if c]      when neither x nor v is used by it / c / e
    resp. anywhere else in the function: the loop spelling of a comprehension"""
    for fn in [n for n in ast.walk(tree) if isinstance(n, (ast.FunctionDef, ast.AsyncFunctionDef))]:
        counts = {}
        for x in ast.walk(fn):
            if isinstance(x, ast.Name):
                counts[x.id] = counts.get(x.id, 0) + 1

        bound = {}          # name -> its occurrences inside the loops / comprehensions that bind it
        for x in ast.walk(fn):
            if isinstance(x, (ast.For, ast.ListComp, ast.SetComp, ast.GeneratorExp, ast.DictComp)):
                tgs = [x.target] if isinstance(x, ast.For) else [g_.target for g_ in x.generators]
                for v in {z.id for t_ in tgs for z in ast.walk(t_) if isinstance(z, ast.Name)}:
                    bound[v] = bound.get(v, 0) + sum(1 for z in ast.walk(x) if isinstance(z, ast.Name) and z.id == v)

        def block(stmts):
            out = []
            for s_ in stmts:
                for f_ in ("body", "orelse", "finalbody"):
                    b = getattr(s_, f_, None)
                    if isinstance(b, list) and b and isinstance(b[0], ast.stmt) and not isinstance(s_, (ast.FunctionDef, ast.AsyncFunctionDef, ast.ClassDef)):
                        setattr(s_, f_, block(b))
                for h in getattr(s_, "handlers", None) or []:
                    h.body = block(h.body)
                prev = out[-1] if out else None
                if isinstance(s_, ast.For) and not s_.orelse and len(s_.body) == 1 and isinstance(prev, ast.Assign) and len(prev.targets) == 1 \
                        and isinstance(prev.targets[0], ast.Name) and isinstance(prev.value, ast.List) and not prev.value.elts:
                    x = prev.targets[0].id
                    inner, conds = s_.body[0], []
                    while isinstance(inner, ast.If) and not inner.orelse and len(inner.body) == 1:
                        conds.append(inner.test)
                        inner = inner.body[0]
                    tn = [z.id for z in ast.walk(s_.target) if isinstance(z, ast.Name)]
                    if isinstance(inner, ast.Expr) and isinstance(inner.value, ast.Call) and isinstance(inner.value.func, ast.Attribute) and inner.value.func.attr == "append" \
                            and isinstance(inner.value.func.value, ast.Name) and inner.value.func.value.id == x and len(inner.value.args) == 1 and not inner.value.keywords \
                            and not isinstance(inner.value.args[0], ast.Starred) and all(isinstance(z, (ast.Name, ast.Tuple, ast.List)) for z in ast.walk(s_.target) if isinstance(z, ast.expr)):
                        e = inner.value.args[0]
                        inside = {}
                        for z in ast.walk(s_):
                            if isinstance(z, ast.Name):
                                inside[z.id] = inside.get(z.id, 0) + 1
                        uses_x = sum(1 for part in [e, s_.iter] + conds for z in ast.walk(part) if isinstance(z, ast.Name) and z.id == x)
                        free = all(bound.get(v, 0) == counts.get(v, 0) for v in tn)
                        nested = any(isinstance(z, (ast.Lambda, ast.Yield, ast.YieldFrom, ast.Await, ast.NamedExpr)) for z in ast.walk(s_))
                        if not uses_x and free and tn and not nested:
                            comp = ast.ListComp(elt=e, generators=[ast.comprehension(target=s_.target, iter=s_.iter, ifs=conds, is_async=0)])
                            out[-1] = ast.copy_location(ast.Assign(targets=[prev.targets[0]], value=ast.copy_location(comp, s_)), prev)
                            continue
                out.append(s_)
            return out
        fn.body = block(fn.body)
    return tree


def _completed_before(stmt, use):
    """the Call / Subscript-store / comprehension nodes of a simple statement whose evaluation is complete before the name node `use` is
    read (fields in evaluation order; the value of an assignment before its targets), or None when `use` sits where evaluation is
    conditional, repeated or in another scope (conditional expression, boolean operator, comprehension, lambda)"""
    done = []
    found = [False]
    bad = [False]

    def walk(n, guarded):
        if found[0]:
            return
        if n is use:
            found[0] = True
            bad[0] = guarded
            return
        if isinstance(n, ast.Assign):
            walk(n.value, guarded)
            for t_ in n.targets:
                walk(t_, guarded)
            return
        g = guarded or isinstance(n, (ast.IfExp, ast.BoolOp, ast.ListComp, ast.SetComp, ast.DictComp, ast.GeneratorExp, ast.Lambda)) or \
            (isinstance(n, ast.Compare) and len(n.ops) > 1)
        for c in ast.iter_child_nodes(n):
            walk(c, g)
            if found[0]:
                return
        if isinstance(n, (ast.Call, ast.Await, ast.Yield, ast.YieldFrom, ast.NamedExpr)):
            done.append(n)
    walk(stmt, False)
    if not found[0] or bad[0]:
        return None
    return done


def _single_use_temps(tree):
    """t = E; <simple statement reading t once>  ->  the statement with E written in place of t, when t occurs nowhere else in the
    function and nothing with an effect (no call) is evaluated between E and the place t is read: a value held in a name for one line"""
    for fn in [n for n in ast.walk(tree) if isinstance(n, (ast.FunctionDef, ast.AsyncFunctionDef))]:
        if any(isinstance(x, (ast.Global, ast.Nonlocal)) for x in ast.walk(fn)) or \
                any(isinstance(x, ast.Call) and isinstance(x.func, ast.Name) and x.func.id in ("locals", "vars", "eval", "exec") for x in ast.walk(fn)):
            continue
        counts = {}
        for x in ast.walk(fn):
            if isinstance(x, ast.Name):
                counts[x.id] = counts.get(x.id, 0) + 1
        params = {a.arg for a in ast.walk(fn.args) if isinstance(a, ast.arg)}

        def block(stmts):
            out = []
            for s_ in stmts:
                for f_ in ("body", "orelse", "finalbody"):
                    b = getattr(s_, f_, None)
                    if isinstance(b, list) and b and isinstance(b[0], ast.stmt) and not isinstance(s_, (ast.FunctionDef, ast.AsyncFunctionDef, ast.ClassDef)):
                        setattr(s_, f_, block(b))
                for h in getattr(s_, "handlers", None) or []:
                    h.body = block(h.body)
                prev = out[-1] if out else None
                if isinstance(prev, ast.Assign) and len(prev.targets) == 1 and isinstance(prev.targets[0], ast.Name) and isinstance(s_, (ast.Assign, ast.Expr, ast.Return, ast.AugAssign)):
                    t = prev.targets[0].id
                    uses = [x for x in ast.walk(s_) if isinstance(x, ast.Name) and x.id == t]
                    if counts.get(t) == 2 and t not in params and len(uses) == 1 and isinstance(uses[0].ctx, ast.Load) \
                            and isinstance(prev.value, (ast.Call, ast.BinOp, ast.Subscript, ast.Attribute, ast.UnaryOp, ast.Compare)) \
                            and not any(isinstance(z, (ast.Yield, ast.YieldFrom, ast.Await, ast.NamedExpr, ast.Lambda)) for z in ast.walk(prev.value)):
                        before = _completed_before(s_, uses[0])
                        if before is not None and not before:
                            use = uses[0]

                            class _S(ast.NodeTransformer):
                                def visit_Name(self, x):
                                    return prev.value if x is use else x
                            out[-1] = ast.copy_location(_S().visit(s_), prev)
                            continue
                out.append(s_)
            return out
        fn.body = block(fn.body)
    return tree


def _sans_doc(body):
    if body and isinstance(body[0], ast.Expr) and isinstance(body[0].value, ast.Constant) and isinstance(body[0].value.value, str):
        return body[:1], body[1:]
    return [], body


def _thin_wrappers(tree):
    fns = {s_.name: s_ for s_ in tree.body if isinstance(s_, ast.FunctionDef)}
    for f in list(fns.values()):
        doc, body = _sans_doc(f.body)
        if len(body) != 1 or not isinstance(body[0], ast.Return) or not isinstance(body[0].value, ast.Call) or f.decorator_list or f.args.vararg or f.args.kwarg:
            continue
        c = body[0].value
        g = fns.get(c.func.id) if isinstance(c.func, ast.Name) else None
        if g is None or g is f or g.decorator_list or g.args.vararg or g.args.kwarg:
            continue
        pos = [a.arg for a in f.args.posonlyargs + f.args.args]
        kwo = [a.arg for a in f.args.kwonlyargs]
        if pos != [a.arg for a in g.args.posonlyargs + g.args.args] or kwo != [a.arg for a in g.args.kwonlyargs]:
            continue
        if [a.id if isinstance(a, ast.Name) else None for a in c.args] != pos:
            continue
        if sorted((k.arg, k.value.id if isinstance(k.value, ast.Name) else None) for k in c.keywords) != sorted((k, k) for k in kwo):
            continue
        g_locals = {x.id for x in ast.walk(g) if isinstance(x, ast.Name) and isinstance(x.ctx, ast.Store)}
        if f.name not in g_locals and any(isinstance(x, ast.Name) and x.id == f.name for x in ast.walk(g)):
            continue            # the inner function calls the outer one: left as written
        f.body = doc + copy.deepcopy(_sans_doc(g.body)[1])
    return tree


def _alias_prepass(tree):
    """param_aliases for every function, whether or not the partial evaluator gets through it afterwards"""
    for fn in [n for n in ast.walk(tree) if isinstance(n, (ast.FunctionDef, ast.AsyncFunctionDef))]:
        ps = {a.arg for a in fn.args.posonlyargs + fn.args.args + fn.args.kwonlyargs}
        try:
            fn.body = param_aliases(fn.body, ps) or fn.body
        except Exception:
            pass
    return tree


def desugar(trees):
    """normalise {modname: ast.Module} in place; returns the statistics"""
    if os.environ.get("VERIF_NODESUGAR"):
        return {}
    for k_, t_ in trees.items():
        _alias_prepass(t_)
        if not any(isinstance(n_, (ast.FunctionDef, ast.ClassDef)) and n_.name == "float" for n_ in ast.walk(t_)):
            trees[k_] = ast.fix_missing_locations(_DropFloat().visit(t_))
        trees[k_] = ast.fix_missing_locations(_append_loops(_single_use_temps(_thin_wrappers(_Spelling(trees[k_]).visit(trees[k_])))))
    d = Desugar(trees)
    st = d.run()
    st["_desugarer"] = d
    return st


def respecialise(d, modname, fnode, cls_node=None):
    """the normaliser applied again to a function whose branches have been decided (sa/astq.PrunedFn): records that differed
    between the branches are now literal.  Returns a new FunctionDef (or the given one when nothing can be done)."""
    if d is None or os.environ.get("VERIF_NODESUGAR"):
        return fnode
    m = d.mods.get(modname)
    if m is None:
        return fnode
    try:
        pe = FnPE(d, m, fnode, cls_node)
        new = copy.copy(fnode)
        new.body = pe.run()
        return ast.fix_missing_locations(new)
    except (Bail, RecursionError):
        return fnode
