"""Element kind (bool / int / float) of the criterion masks, and how they are used.

numpy treats a BOOLEAN array used as an index (`X[m]`, `X[~m] = nan`) as a selection, an INTEGER array as a list of positions, and
`~` as logical negation for booleans but as bitwise complement (0 -> -1, 1 -> -2) for integers.  The hard-criteria functions return
some masks as 0/1 integers (`.astype(int)`): they are meant for `np.where` / multiplication (gen.applymask).  This module infers the
kind of every mask returned by the gen.HC_* functions from their own code and follows the masks through the algorithm modules
(assignments, loops over a returned tuple, private helpers); an integer mask that is inverted with `~` or used as an index is a
definite defect (rows -1/-2 or 0/1 are selected instead of the rejected poles).  Unknown kinds are never reported."""
import ast

from . import astq
from .program import FuncInfo

BOOL_FUNCS = {"numpy.logical_and", "numpy.logical_or", "numpy.logical_not", "numpy.isnan", "numpy.isinf", "numpy.isfinite", "numpy.isclose", "numpy.isin", "numpy.any", "numpy.all"}
SHAPE_FUNCS = {"numpy.reshape", "numpy.expand_dims", "numpy.repeat", "numpy.tile", "numpy.squeeze", "numpy.ravel", "numpy.transpose", "numpy.moveaxis", "numpy.copy",
               "numpy.ascontiguousarray", "numpy.broadcast_to", "numpy.atleast_2d"}
SHAPE_METH = {"reshape", "ravel", "flatten", "copy", "squeeze", "transpose", "T", "repeat"}


def join(a, b):
    if a is None:
        return b
    if b is None:
        return a
    if a == b:
        return a
    order = {"bool": 0, "int": 1, "float": 2}
    return a if order.get(a, 3) >= order.get(b, 3) else b


def dtype_kind(e):
    t = astq.src(e).replace("numpy.", "np.").strip("'\"")
    if t in ("bool", "np.bool_", "np.bool", "?", "b1"):
        return "bool"
    if t in ("int", "np.int64", "np.int32", "np.intp", "i8", "i4", "int64", "int32", "np.int8", "np.uint8"):
        return "int"
    if t in ("float", "np.float64", "np.float32", "f8", "float64", "complex", "np.complex128"):
        return "float"
    return None


class Kinds:
    def __init__(self, prog):
        self.prog = prog
        self._ret = {}

    # ------------------------------------------------------------------ expressions
    def kind(self, fi, e, env, depth=0):
        if depth > 12:
            return None
        if isinstance(e, ast.Constant):
            if isinstance(e.value, bool):
                return "bool"
            if isinstance(e.value, int):
                return "int"
            if isinstance(e.value, float):
                return "float"
            return None
        if isinstance(e, (ast.Compare, ast.BoolOp)):
            return "bool"
        if isinstance(e, ast.Name):
            return env.get(e.id)
        if isinstance(e, ast.UnaryOp):
            if isinstance(e.op, ast.Not):
                return "bool"
            return self.kind(fi, e.operand, env, depth + 1)
        if isinstance(e, ast.BinOp):
            a, b = self.kind(fi, e.left, env, depth + 1), self.kind(fi, e.right, env, depth + 1)
            if isinstance(e.op, (ast.BitAnd, ast.BitOr, ast.BitXor)):
                return join(a, b) if a and b else None
            if isinstance(e.op, ast.Div):
                return "float"
            if a and b:
                k = join(a, b)
                return "int" if k == "bool" else k      # arithmetic on booleans gives integers
            return None
        if isinstance(e, ast.Attribute) and e.attr in SHAPE_METH:
            return self.kind(fi, e.value, env, depth + 1)
        if isinstance(e, ast.Subscript):
            v = self.kind(fi, e.value, env, depth + 1)
            return v
        if isinstance(e, ast.Call):
            nm = astq.callee_name(self.prog, fi, e)
            dt = astq.kwarg(e, "dtype")
            if isinstance(e.func, ast.Attribute) and e.func.attr == "astype" and e.args:
                return dtype_kind(e.args[0])
            if nm in BOOL_FUNCS:
                return "bool"
            if nm in ("numpy.zeros", "numpy.ones", "numpy.empty", "numpy.full", "numpy.zeros_like", "numpy.ones_like", "numpy.full_like"):
                if dt is not None:
                    return dtype_kind(dt)
                if nm.endswith("_like") and e.args:
                    return self.kind(fi, e.args[0], env, depth + 1)
                if nm == "numpy.full" and len(e.args) > 1:
                    return self.kind(fi, e.args[1], env, depth + 1)
                return "float"
            if nm in ("numpy.array", "numpy.asarray") and e.args:
                if dt is not None:
                    return dtype_kind(dt)
                return self.kind(fi, e.args[0], env, depth + 1)
            if nm in SHAPE_FUNCS and e.args:
                return self.kind(fi, e.args[0], env, depth + 1)
            if isinstance(e.func, ast.Attribute) and e.func.attr in SHAPE_METH and nm.startswith("."):
                return self.kind(fi, e.func.value, env, depth + 1)
            if nm == "numpy.where" and len(e.args) == 3:
                return join(self.kind(fi, e.args[1], env, depth + 1), self.kind(fi, e.args[2], env, depth + 1))
            if nm in ("bool",):
                return "bool"
            if nm in ("int",):
                return "int"
            return None
        if isinstance(e, (ast.List, ast.Tuple)) and e.elts:
            k = None
            for x in e.elts:
                kx = self.kind(fi, x, env, depth + 1)
                if kx is None:
                    return None
                k = join(k, kx)
            return k
        return None

    # ------------------------------------------------------------------ what a package function returns
    def returns(self, r):
        """[kind of element k of the returned tuple] (or [kind] for a single value), from the function's own statements"""
        if r.qual in self._ret:
            return self._ret[r.qual]
        self._ret[r.qual] = None
        env = self.flow(r, {})
        out = None
        for n in ast.walk(r.node):
            if isinstance(n, ast.Return) and n.value is not None:
                elts = n.value.elts if isinstance(n.value, ast.Tuple) else [n.value]
                ks = [self.kind(r, x, env) for x in elts]
                out = ks if out is None else [join(a, b) if a and b else None for a, b in zip(out, ks)]
        self._ret[r.qual] = out
        return out

    def flow(self, fi, env0):
        """names -> kind after a forward pass over the function (lists take the join of what is appended)"""
        env = dict(env0)
        lists = {}

        def visit(stmts):
            for s in stmts:
                if isinstance(s, ast.Assign) and len(s.targets) == 1:
                    t, v = s.targets[0], s.value
                    if isinstance(t, ast.Name):
                        if isinstance(v, ast.List) and not v.elts:
                            lists[t.id] = None
                            env[t.id] = None
                        else:
                            env[t.id] = self.kind(fi, v, env)
                    elif isinstance(t, (ast.Tuple, ast.List)):
                        ks = None
                        if isinstance(v, ast.Call):
                            try:
                                rr = self.prog.resolve_call(fi, v)
                            except Exception:
                                rr = None
                            if isinstance(rr, FuncInfo):
                                ks = self.returns(rr)
                        elif isinstance(v, (ast.Tuple, ast.List)) and len(v.elts) == len(t.elts):
                            ks = [self.kind(fi, x, env) for x in v.elts]
                        for k, el in enumerate(t.elts):
                            if isinstance(el, ast.Name):
                                env[el.id] = ks[k] if ks is not None and k < len(ks) else None
                elif isinstance(s, ast.AugAssign) and isinstance(s.target, ast.Name):
                    # an in-place operator keeps the element type of its target (numpy refuses a cast that would change the kind)
                    a, b = env.get(s.target.id), self.kind(fi, s.value, env)
                    env[s.target.id] = a if a else None
                elif isinstance(s, ast.Expr) and isinstance(s.value, ast.Call) and isinstance(s.value.func, ast.Attribute) and s.value.func.attr == "append" \
                        and isinstance(s.value.func.value, ast.Name) and s.value.func.value.id in lists and s.value.args:
                    nm = s.value.func.value.id
                    k = self.kind(fi, s.value.args[0], env)
                    lists[nm] = k if lists[nm] is None and "_seen_" + nm not in lists else (join(lists[nm], k) if lists[nm] and k else None)
                    lists["_seen_" + nm] = True
                    env[nm] = lists[nm]
                elif isinstance(s, ast.For):
                    if isinstance(s.target, ast.Name):
                        k = None
                        if isinstance(s.iter, ast.Call):
                            try:
                                rr = self.prog.resolve_call(fi, s.iter)
                            except Exception:
                                rr = None
                            if isinstance(rr, FuncInfo):
                                ks = self.returns(rr)
                                if ks and all(x is not None for x in ks):
                                    k = None
                                    for x in ks:
                                        k = join(k, x)
                        elif isinstance(s.iter, (ast.Tuple, ast.List)):
                            k = self.kind(fi, s.iter, env)
                        env[s.target.id] = k
                    visit(s.body)
                elif isinstance(s, ast.If):
                    visit(s.body)
                    visit(s.orelse)
                elif isinstance(s, ast.Try):
                    visit(s.body)
                    for h in s.handlers:
                        visit(h.body)
                elif isinstance(s, (ast.With, ast.While)):
                    visit(s.body)
        visit(fi.node.body)
        return env


def misuse(prog, modules, mask_sources=("HC_conj", "HC_damp", "HC_phi_comp", "HC_cov")):
    """[(function, node, text)] for every integer-kind criterion mask that is inverted with `~` or used as an index in the functions
    of the given modules (masks are followed into private helpers through their arguments); and the number of mask uses examined"""
    K = Kinds(prog)
    out = []
    examined = [0]
    funcs = [fi for fi in prog.functions.values() if fi.mod in modules]
    # kinds of helper parameters: join over the call sites
    param_kinds = {}
    envs = {}
    for _round in range(2):
        for fi in funcs:
            env0 = dict(param_kinds.get(fi.qual, {}))
            env = K.flow(fi, env0)
            envs[fi.qual] = env
            for c, r in prog.calls_in(fi):
                if isinstance(r, FuncInfo) and r.mod in modules and r.node is not fi.node:
                    bound = r.cls is not None and isinstance(c.func, ast.Attribute) and not getattr(r, "is_static", False)
                    m, errs = astq.bind_args(r.node, c, bound=bound)
                    for p_, a_ in m.items():
                        if isinstance(a_, ast.AST):
                            k = K.kind(fi, a_, env)
                            if k is not None:
                                cur = param_kinds.setdefault(r.qual, {}).get(p_)
                                param_kinds[r.qual][p_] = join(cur, k)

    def from_masks(fi, e, env):
        """does the expression involve a value whose kind is known (a mask that was followed)?"""
        return any(isinstance(n, ast.Name) and env.get(n.id) in ("int", "bool") for n in ast.walk(e))
    for fi in funcs:
        env = envs[fi.qual]
        for n in ast.walk(fi.node):
            if isinstance(n, ast.UnaryOp) and isinstance(n.op, ast.Invert) and from_masks(fi, n.operand, env):
                examined[0] += 1
                if K.kind(fi, n.operand, env) == "int":
                    out.append((fi, n, f"`{astq.src(n, 40)}`: bitwise complement of a 0/1 INTEGER mask gives -1/-2, not the logical negation"))
            if isinstance(n, ast.Subscript) and not isinstance(n.slice, (ast.Slice, ast.Constant)):
                for x in astq.index_elts(n):
                    if isinstance(x, (ast.Slice, ast.Constant)):
                        continue
                    if from_masks(fi, x, env):
                        examined[0] += 1
                        k = K.kind(fi, x, env)
                        inv = any(isinstance(z, ast.UnaryOp) and isinstance(z.op, ast.Invert) for z in ast.walk(x))
                        if k == "int" and not inv:
                            out.append((fi, n, f"`{astq.src(n, 50)}`: a 0/1 INTEGER mask used as an index selects positions 0 and 1, not the flagged poles"))
    return out, examined[0], K


def obligations(prog, run, rule, modules):
    """one obligation per misuse, one summary obligation otherwise"""
    from .program import rel
    out, n, K = misuse(prog, set(modules))
    kinds = {}
    for q in ("functions.gen.HC_conj", "functions.gen.HC_damp", "functions.gen.HC_phi_comp", "functions.gen.HC_cov"):
        try:
            kinds[q.split(".")[-1]] = K.returns(prog.func(q))
        except Exception:
            pass
    for fi, node, text in out:
        run.ob(rule, fi.qual, "criterion masks are inverted / used as an index only when boolean", False, text, witness=text[:80], file=rel(prog.mods[fi.mod].path), node=node)
    if not out:
        run.ob(rule, "+".join(sorted(m.split(".")[-1] for m in modules)), "criterion masks are inverted / used as an index only when boolean", True,
               f"{n} inversion / index use(s) of followed masks, none on an integer mask; element kinds returned by the criteria: {kinds}")
