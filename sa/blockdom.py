"""Channel-group typing of block matrices (built on the sequence interpreter, sa/seqdom.py).

For the multi-setup spectral merge every matrix is typed by the channel groups that label its rows and columns:

    group    ("g", kind, s)            kind = 'ref' | 'mov', s = setup index (poly) or '*' (the common reference sensors)
    rows / columns                     tuple of items: a group, or ("forg", v, lo, hi, items) = the items for v = lo .. hi-1

and carries a *factor form* that records how it was computed from the raw spectra:

    ("S", s, rowkinds, colkinds)       the block (rowkinds x colkinds) of the spectrum of setup s
    ("mean", v, X)                     mean over the setups v of X
    ("prod", (factor, ...))            matrix product, factor = (X, inverted, transposed)
    ("vstack", (X, ...)) ("for", v, lo, hi, X) ("scaled", X) ("opq", why)

Typing rules: SD_est(A, B) has rows(A) x rows(B); hstack / vstack join columns / rows and require the other dimension to agree;
a slice must fall on group boundaries (|ref| = nr for every setup, |mov s| = nm[s]); a product requires the inner groups to agree
(reference groups of different setups are the same physical sensors and agree); inv requires a square block.  A violated typing
rule is recorded in `Interp.type_errors` - it is a definite defect (blocks of different sensors multiplied / stacked)."""
import ast

from . import astq
from .poly import P
from . import seqdom
from .seqdom import ObjVal, Val, I, K, E, Sq, Tup, psubs, normalise, tsubs


# ----------------------------------------------------------------------------- groups
def g(kind, s):
    return ("g", kind, s if isinstance(s, str) else P.lift(s))


def gsubs(items, name, val):
    out = []
    for it in items:
        if it[0] == "g":
            out.append(("g", it[1], it[2] if isinstance(it[2], str) else psubs(it[2], name, val)))
        else:
            out.append(("forg", it[1], psubs(it[2], name, val), psubs(it[3], name, val), gsubs(it[4], name, val) if it[1] != name else it[4]))
    return tuple(out)


def gshow(items):
    out = []
    for it in items:
        if it[0] == "g":
            out.append(f"{it[1]}[{it[2] if isinstance(it[2], str) else repr(it[2])}]")
        else:
            out.append(f"for {it[1]} in {it[2]!r}..{it[3]!r}: " + gshow(it[4]))
    return "(" + " ; ".join(out) + ")"


def gcanon(items):
    """reference groups of every setup are the same sensors: unify them; bound variables renamed"""
    def u(items, ren):
        out = []
        for it in items:
            if it[0] == "g":
                if it[1] == "ref":
                    out.append("ref")
                else:
                    s = it[2] if isinstance(it[2], str) else repr(it[2])
                    for a, b in ren.items():
                        s = __import__("re").sub(r"\b" + a + r"\b", b, s)
                    out.append(f"{it[1]}[{s}]")
            else:
                r2 = dict(ren)
                r2[it[1]] = f"k{len(ren)}"
                out.append(f"for {r2[it[1]]} in {it[2]!r}..{it[3]!r}: " + u(it[4], r2))
        return "(" + " ; ".join(out) + ")"
    return u(items, {})


def glen(items):
    """total length polynomial, or None"""
    tot = P.c(0)
    for it in items:
        if it[0] != "g":
            return None
        tot = tot + (P.s("nr") if it[1] == "ref" else P.s(f"nm[{it[2] if isinstance(it[2], str) else repr(it[2])}]"))
    return tot


def gslice(items, lo, hi):
    """items[lo:hi] if both bounds fall on group boundaries, else None"""
    acc = P.c(0)
    bounds = [acc]
    for it in items:
        if it[0] != "g":
            return None
        acc = acc + (P.s("nr") if it[1] == "ref" else P.s(f"nm[{it[2] if isinstance(it[2], str) else repr(it[2])}]"))
        bounds.append(acc)
    lo = P.c(0) if lo is None else lo
    hi = bounds[-1] if hi is None else hi
    try:
        i, j = bounds.index(lo), bounds.index(hi)
    except ValueError:
        return None
    return tuple(items[i:j]) if i <= j else None


# ----------------------------------------------------------------------------- factor forms
def fsubs(x, name, val):
    k = x[0]
    if k == "S":
        return ("S", x[1] if isinstance(x[1], str) else psubs(x[1], name, val), x[2], x[3])
    if k == "mean":
        return ("mean", x[1], fsubs(x[2], name, val) if x[1] != name else x[2])
    if k == "prod":
        return ("prod", tuple((fsubs(f, name, val), i, t) for f, i, t in x[1]))
    if k == "vstack":
        return ("vstack", tuple(fsubs(f, name, val) for f in x[1]))
    if k == "for":
        return ("for", x[1], psubs(x[2], name, val), psubs(x[3], name, val), fsubs(x[4], name, val) if x[1] != name else x[4])
    if k == "scaled":
        return ("scaled", fsubs(x[1], name, val))
    return x


def fshow(x, ren=None):
    import re
    ren = ren or {}

    def rn(s):
        for a, b in ren.items():
            s = re.sub(r"\b" + a + r"\b", b, s)
        return s
    k = x[0]
    if k == "S":
        s = x[1] if isinstance(x[1], str) else repr(x[1])
        return f"S[{rn(s)}]<{'+'.join(x[2])}|{'+'.join(x[3])}>"
    if k == "mean":
        r2 = dict(ren)
        r2[x[1]] = f"k{len(ren)}"
        return f"mean_{r2[x[1]]}({fshow(x[2], r2)})"
    if k == "prod":
        return " . ".join(fshow(f, ren) + ("^-1" if i else "") + ("^T" if t else "") for f, i, t in x[1])
    if k == "vstack":
        return "[" + " ; ".join(fshow(f, ren) for f in x[1]) + "]"
    if k == "for":
        r2 = dict(ren)
        r2[x[1]] = f"k{len(ren)}"
        return f"for {r2[x[1]]} in {x[2]!r}..{x[3]!r}: {fshow(x[4], r2)}"
    if k == "scaled":
        return fshow(x[1], ren)
    return f"<?{x[1]}>"


def fprod(a, b):
    fa = list(a[1]) if a[0] == "prod" else [(a, False, False)]
    fb = list(b[1]) if b[0] == "prod" else [(b, False, False)]
    return ("prod", tuple(fa + fb))


def finv(a):
    if a[0] == "prod":
        return ("prod", tuple((f, not i, t) for f, i, t in reversed(a[1])))
    return ("prod", ((a, True, False),))


def ftrans(a):
    if a[0] == "prod":
        return ("prod", tuple((f, i, not t) for f, i, t in reversed(a[1])))
    return ("prod", ((a, False, True),))


def fopaque(x):
    if x[0] == "opq":
        return [x[1]]
    out = []
    if x[0] in ("mean", "scaled"):
        out += fopaque(x[2] if x[0] == "mean" else x[1])
    elif x[0] == "prod":
        for f, i, t in x[1]:
            out += fopaque(f)
    elif x[0] == "vstack":
        for f in x[1]:
            out += fopaque(f)
    elif x[0] == "for":
        out += fopaque(x[4])
    return out


# ----------------------------------------------------------------------------- values
class Setups(Val):
    def __init__(self, lo=P.c(0)):
        self.lo = lo


class SetupRec(Val):
    def __init__(self, s):
        self.s = s


class Rec(ObjVal):
    """a record array (channels x samples) whose rows are the given channel groups (carried through lists: np.vstack([ref, mov]))"""

    def __init__(self, groups, chan_axis=0):
        self.groups, self.chan_axis = tuple(groups), chan_axis

    def subs(self, name, val):
        return Rec(gsubs(self.groups, name, val), self.chan_axis)

    def show(self):
        return f"Rec{gshow(self.groups)}"

    def __repr__(self):
        return self.show()


STD_LAY = (0, 1, 2)


class Mat(ObjVal):
    """rows x cols block (x frequency lines).  lay = (axis of the rows, axis of the columns, axis of the frequency lines or None for
    one line): which array axis carries what.  The estimator returns (0, 1, 2); the row axis always precedes the column axis
    (a transposed array is expressed by swapping the labels and transposing the factor form)."""

    def __init__(self, rows, cols, form, lay=STD_LAY):
        self.rows, self.cols, self.form, self.lay = tuple(rows), tuple(cols), form, tuple(lay)

    @property
    def ndim(self):
        return sum(1 for a in self.lay if a is not None)

    def subs(self, name, val):
        return Mat(gsubs(self.rows, name, val), gsubs(self.cols, name, val), fsubs(self.form, name, val), self.lay)

    def with_lay(self, lay):
        """same data, axes re-arranged; normalised so that the row axis precedes the column axis"""
        r, c, f = lay
        if r > c:
            return Mat(self.cols, self.rows, ftrans(self.form), (c, r, f))
        return Mat(self.rows, self.cols, self.form, lay)

    def logical(self, axis):
        """'r' / 'c' / 'f' for a (possibly negative) numpy axis number, None if out of range"""
        n = self.ndim
        if axis < 0:
            axis += n
        for name, a in zip("rcf", self.lay):
            if a == axis:
                return name
        return None

    def matrix_last(self):
        """the channel axes are the last two, rows before columns (what matmul / inv / solve operate on)"""
        n = self.ndim
        return self.lay[0] == n - 2 and self.lay[1] == n - 1

    def show(self):
        return f"Mat{gshow(self.rows)}x{gshow(self.cols)}" + ("" if self.lay in (STD_LAY, (0, 1, None)) else f"@axes{self.lay}")

    def __repr__(self):
        return self.show() + " = " + fshow(self.form)


def _permute(m, order):
    """new axis i carries old axis order[i]"""
    lay = tuple(None if a is None else order.index(a) for a in m.lay)
    return m.with_lay(lay)


class Freq(ObjVal):
    """the frequency grid returned by the spectral estimator"""

    def __init__(self, origin):
        self.origin = origin

    def show(self):
        return f"Freq<{self.origin}>"

    def __repr__(self):
        return self.show()


class Asm(ObjVal):
    """an array allocated first (np.empty / np.zeros of a 3-tuple) and filled block of rows by block of rows: the stores in program order.
    blocks: [(lower bound text, upper bound text, value, enclosing loops, statement)]"""

    def __init__(self, node):
        self.node = node
        self.blocks = []

    def show(self):
        return f"array filled by {len(self.blocks)} stores"

    def __repr__(self):
        return f"Asm({len(self.blocks)})"

    def key(self):
        return ("Asm", id(self))


class Interp(seqdom.Interp):
    """seqdom interpreter + block typing.  roles: {param: ('setups',)}; estimator: qualified name suffix of the spectral estimator
    (rows = channels of its first argument, columns = channels of its second)"""

    estimator = ".SD_est"

    def __init__(self, prog, roles=None, types=None, depth=0, shared=None):
        super().__init__(prog, roles, types, depth, shared)
        self.sh.setdefault("type_errors", [])
        self.type_errors = self.sh["type_errors"]

    def run(self, fi, args=None):
        args = dict(args or {})
        for p_, r in self.roles.items():
            if r[0] == "setups" and p_ not in args:
                args[p_] = Setups()
        return super().run(fi, args)

    def err(self, node, msg):
        self.type_errors.append((node, msg))

    # -- an array filled by stores into row ranges
    def assign(self, t, v, env, node):
        if isinstance(t, ast.Subscript) and isinstance(t.value, ast.Name) and isinstance(env.get(t.value.id), Asm):
            a = env[t.value.id]
            el = astq.index_elts(t)
            first = el[0] if el else None
            rest_full = all(astq.is_full_slice(x) or (isinstance(x, ast.Constant) and x.value is Ellipsis) for x in el[1:])
            loops_ = list(self.loops)
            lvp = self.topoly(env.get(el[2].id)) if len(el) == 3 and isinstance(el[2], ast.Name) and isinstance(env.get(el[2].id), Val) else None
            lvar = next((l_[1] for l_ in loops_ if lvp is not None and lvp == P.s(l_[1])), None)
            if isinstance(first, ast.Slice) and first.step is None and len(el) == 3 and astq.is_full_slice(el[1]) and lvar is not None and isinstance(v, Mat) and v.lay[2] is None:
                # X[a:b, :, ff] = <block of one line> inside the loop over the lines: the block of all lines, line by line
                v = Mat(v.rows, v.cols, v.form, STD_LAY)
                loops_ = [l_ for l_ in loops_ if l_[1] != lvar]
                rest_full = True
            if isinstance(first, ast.Slice) and first.step is None and rest_full:
                a.blocks.append((astq.src(first.lower) if first.lower is not None else "0", astq.src(first.upper) if first.upper is not None else None, v, loops_, node))
            else:
                a.blocks.append((None, None, v, list(self.loops), node))
            return
        return super().assign(t, v, env, node)

    def assembled(self, a, fnode):
        """the typed matrix an Asm stands for: its blocks of rows one below the other - when every store goes to the row range that
        starts where the one before ended (literal bounds, or a running counter `row` advanced by the height of each block)"""
        if not a.blocks:
            return Mat((), (), ("opq", "allocated array that is never filled"))
        rows, forms, cols, lay = [], [], None, None
        end = "0"
        for lo, hi, v, loops, st in a.blocks:
            if not isinstance(v, Mat):
                return Mat((), (), ("opq", f"`{astq.src(st, 50)}` stores a value that was not typed"))
            if lo is None:
                return Mat((), (), ("opq", f"`{astq.src(st, 50)}` is not a store into a range of rows"))
            ok_place = lo == end
            if not ok_place and lo.isidentifier() and hi is not None and hi.replace(" ", "").startswith(lo + "+"):
                # a running counter: bound to the end of the block before, advanced by the height just stored
                step = hi.replace(" ", "")[len(lo) + 1:]
                init = [x for x in ast.walk(fnode) if isinstance(x, ast.Assign) and len(x.targets) == 1 and isinstance(x.targets[0], ast.Name) and x.targets[0].id == lo
                        and x.lineno < st.lineno]
                adv = [x for x in ast.walk(fnode) if isinstance(x, ast.AugAssign) and isinstance(x.target, ast.Name) and x.target.id == lo and isinstance(x.op, ast.Add)
                       and astq.src(x.value).replace(" ", "") == step and x.lineno > st.lineno]
                ok_place = bool(init) and astq.src(init[-1].value).replace(" ", "") == end.replace(" ", "") and bool(adv)
                if ok_place:
                    hi = None           # the end is the counter itself from here on
            if not ok_place:
                return Mat((), (), ("opq", f"`{astq.src(st, 50)}`: the row range does not start where the block before it ended ({lo} vs {end})"))
            if cols is None:
                cols, lay = v.cols, v.lay
            elif not self.same(cols, v.cols):
                self.err(st, f"`{astq.src(st, 60)}` stores a block with other columns")
            if loops:
                kind, var, l0, l1 = loops[-1][:4]
                rows.append(("forg", var, l0, l1, v.rows))
                forms.append(("for", var, l0, l1, v.form))
                end = "?"
            else:
                rows += list(v.rows)
                forms.append(v.form)
                end = hi if hi is not None else "?"
        return Mat(rows, cols, ("vstack", tuple(forms)), lay)

    # -- iteration over the setups
    def seq_domain(self, val):
        if isinstance(val, Setups):
            return ("idx", val.lo, P.s("N"), lambda i: SetupRec(i))
        if isinstance(val, Mat) and val.ndim == 3 and val.logical(0) == "f":
            # iterating a (frequency, channel, channel) stack: the block of one line, the same typed block for every line
            lay = tuple(None if a == 0 else (a - 1 if a is not None else None) for a in val.lay)
            line = Mat(val.rows, val.cols, val.form, lay)
            return ("idx", P.c(0), P.s("nf"), lambda i: line)
        return super().seq_domain(val)

    def index_hook(self, base, idx, node):
        if isinstance(base, Setups) and len(idx) == 1:
            x = idx[0]
            if isinstance(x, tuple) and x[0] == "slice" and x[2] is None and x[3] is None:
                lo = self.topoly(x[1]) if x[1] is not None else P.c(0)
                return Setups(base.lo + lo) if lo is not None else None
            p = self.topoly(x) if isinstance(x, Val) else None
            if p is not None:
                if p.is_const() and p.const() < 0:
                    p = P.s("N") + p
                return SetupRec(base.lo + p)
        if isinstance(base, SetupRec) and len(idx) == 1 and isinstance(idx[0], K) and idx[0].v in ("ref", "mov"):
            return Rec([g(idx[0].v, base.s)])
        if isinstance(base, Mat):
            return self.mat_index(base, idx, node)
        return None

    def mat_index(self, m, idx, node):
        if any(isinstance(x, tuple) and x[0] == "ellipsis" for x in idx):
            return m
        n = m.ndim
        if len(idx) > n:
            return Mat(m.rows, m.cols, ("opq", f"too many indices in `{astq.src(node, 50)}`"), m.lay)
        sl = {"r": (None, None), "c": (None, None)}
        drop = None
        for pos_, x in enumerate(idx):
            what = m.logical(pos_)
            is_slice = isinstance(x, tuple) and x[0] == "slice"
            if what == "f":
                if is_slice:
                    continue        # a range of frequency lines: the channel structure is unchanged
                if isinstance(x, Val) and not isinstance(x, (Sq, Tup, Mat)):
                    drop = pos_     # one frequency line
                    continue
                return Mat(m.rows, m.cols, ("opq", f"index on the frequency axis in `{astq.src(node, 50)}`"), m.lay)
            if is_slice and x[3] is None:
                lo = self.topoly(x[1]) if x[1] is not None else None
                hi = self.topoly(x[2]) if x[2] is not None else None
                if (x[1] is not None and lo is None) or (x[2] is not None and hi is None):
                    return Mat(m.rows, m.cols, ("opq", f"slice bound of `{astq.src(node, 50)}` not evaluable"), m.lay)
                sl[what] = (lo, hi)
            else:
                return Mat(m.rows, m.cols, ("opq", f"non-slice index on a channel axis in `{astq.src(node, 50)}`"), m.lay)
        rows = gslice(m.rows, *sl["r"])
        cols = gslice(m.cols, *sl["c"])
        if (rows is None or cols is None) and (fopaque(m.form) or not m.rows or not m.cols):
            # the matrix itself was not typed: nothing can be said about where the cut falls
            return Mat((), (), ("opq", f"`{astq.src(node, 50)}` of a matrix that was not typed"), m.lay)
        if rows is None or cols is None:
            self.err(node, f"`{astq.src(node, 60)}` cuts {m.show()} inside a channel group (bounds {sl['r']}, {sl['c']})")
            return Mat(m.rows, m.cols, ("opq", "slice across a group boundary"), m.lay)
        lay = m.lay
        if drop is not None:
            lay = tuple(None if a == drop else (a - 1 if a is not None and a > drop else a) for a in lay)
        if rows == m.rows and cols == m.cols:
            return Mat(m.rows, m.cols, m.form, lay)
        form = m.form
        if form[0] == "S":
            form = ("S", form[1], tuple(x[1] for x in rows), tuple(x[1] for x in cols))
        elif form[0] == "scaled" and form[1][0] == "S":
            form = ("scaled", ("S", form[1][1], tuple(x[1] for x in rows), tuple(x[1] for x in cols)))
        else:
            form = ("opq", f"block of a computed matrix `{astq.src(node, 40)}`")
        return Mat(rows, cols, form, lay)

    def attr_hook(self, base, name, node):
        if isinstance(base, Rec) and name == "ndim":
            return I(P.c(2))                # the records of a setup are (channels x samples) arrays
        if isinstance(base, Rec) and name == "shape":
            n = glen(base.groups)
            return Tup([I(n) if n is not None else E(node), E(ast.Name(id="n_samples", ctx=ast.Load()))]) if base.chan_axis == 0 else None
        if isinstance(base, Mat):
            if name in ("T", "mT"):
                n = base.ndim
                if name == "mT" or n == 2:
                    order = list(range(n))
                    order[-1], order[-2] = order[-2], order[-1]
                else:
                    order = list(range(n))[::-1]
                return _permute(base, order)
            if name == "shape":
                a, b = glen(base.rows), glen(base.cols)
                dims = {"r": I(a) if a is not None else E(node), "c": I(b) if b is not None else E(node), "f": I(P.s("nf"))}
                return Tup([dims[base.logical(i)] for i in range(base.ndim)])
            if name == "ndim":
                return I(P.c(base.ndim))
            if name in ("real", "imag"):
                return Mat(base.rows, base.cols, ("opq", f".{name} of a spectral block"), base.lay)
        return None

    def same(self, a, b):
        return gcanon(a) == gcanon(b)

    def matmul(self, a, b, node, dot=False):
        lay = a.lay if a.ndim >= b.ndim else b.lay
        if not (a.matrix_last() and b.matrix_last()) or (dot and (a.ndim > 2 or b.ndim > 2)):
            # the product would run over the frequency axis (or np.dot of stacks): not the product of the blocks
            return Mat(a.rows, b.cols, ("opq", f"product `{astq.src(node, 50)}` is not taken over the channel axes (operand axes {a.lay} / {b.lay})"), lay)
        if not self.same(a.cols, b.rows):
            self.err(node, f"product `{astq.src(node, 60)}`: columns {gshow(a.cols)} of the left factor are not the rows {gshow(b.rows)} of the right factor")
        return Mat(a.rows, b.cols, fprod(a.form, b.form), lay)

    def binop_hook(self, op, a, b, node):
        if isinstance(a, Mat) and isinstance(b, Mat):
            if isinstance(op, ast.MatMult):
                return self.matmul(a, b, node)
            if isinstance(op, (ast.Add, ast.Sub)):
                if a.lay == b.lay and not (self.same(a.rows, b.rows) and self.same(a.cols, b.cols)):
                    self.err(node, f"`{astq.src(node, 60)}` adds blocks of different channel groups")
                return Mat(a.rows, a.cols, ("opq", "sum of blocks"), a.lay)
            return Mat(a.rows, a.cols, ("opq", "element-wise combination of blocks"), a.lay)
        for x, y in ((a, b), (b, a)):
            if isinstance(x, Mat) and not isinstance(y, (Mat, Sq)):
                if isinstance(op, (ast.Mult, ast.Div)):
                    return Mat(x.rows, x.cols, x.form if x.form[0] == "scaled" else ("scaled", x.form), x.lay)
                return Mat(x.rows, x.cols, ("opq", "block combined with a scalar"), x.lay)
        return None

    def stack(self, mats, axis, node):
        """axis 0: rows joined, 1: columns joined (logical axes; all blocks share one axis layout)"""
        first = mats[0]
        lay = first.lay
        rows, cols = list(first.rows), list(first.cols)
        for m in mats[1:]:
            if axis == 0:
                if not self.same(m.cols, first.cols):
                    self.err(node, f"`{astq.src(node, 60)}` stacks blocks with different columns {gshow(first.cols)} / {gshow(m.cols)}")
                rows += list(m.rows)
            else:
                if not self.same(m.rows, first.rows):
                    self.err(node, f"`{astq.src(node, 60)}` joins blocks with different rows {gshow(first.rows)} / {gshow(m.rows)}")
                cols += list(m.cols)
        forms = [m.form for m in mats]
        if all(f[0] == "S" for f in forms) and len({repr(f[1]) for f in forms}) == 1:
            if axis == 1 and len({f[2] for f in forms}) == 1:
                return Mat(rows, cols, ("S", forms[0][1], forms[0][2], tuple(k for f in forms for k in f[3])), lay)
            if axis == 0 and len({f[3] for f in forms}) == 1:
                return Mat(rows, cols, ("S", forms[0][1], tuple(k for f in forms for k in f[2]), forms[0][3]), lay)
        return Mat(rows, cols, ("vstack", tuple(forms)) if axis == 0 else ("opq", "hstack of computed blocks"), lay)

    def _mats_of(self, t):
        """the typed blocks inside a normalised sequence term"""
        out = []
        for x in seqdom.walk(t):
            if x[0] == "obj" and isinstance(x[1], Mat):
                out.append(x[1])
        return out

    def _int(self, v):
        p = self.topoly(v) if isinstance(v, Val) else None
        return int(p.const()) if p is not None and p.is_const() else None

    def _int_tuple(self, v):
        if isinstance(v, Tup):
            out = [self._int(x) for x in v.items]
            return None if any(x is None for x in out) else out
        return None

    def call_hook(self, fn, args, kw, node, env):
        if isinstance(node.func, ast.Attribute) and node.func.attr in ("swapaxes", "transpose") and not fn.startswith("numpy."):
            base_ = self.ev(node.func.value, env)
            if isinstance(base_, Mat):
                # X.swapaxes(a, b) / X.transpose(..): the function form with X as first argument
                a2 = [base_] + (list(args) if not (node.func.attr == "transpose" and len(args) > 1) else [Tup(list(args))])
                return self.call_hook("numpy." + node.func.attr, a2, kw, ast.Call(func=ast.Attribute(value=ast.Name(id="np", ctx=ast.Load()), attr=node.func.attr, ctx=ast.Load()),
                                                                                   args=[node.func.value] + list(node.args), keywords=node.keywords), env)
        r = self.prog.resolve_call(self.fi, node) if hasattr(self.prog, "resolve_call") else None
        q = getattr(r, "qual", "") or ""
        if q.endswith(self.estimator):
            m, errs = astq.bind_args(r.node, node)
            pos = astq.params_of(r.node)[0]
            a = self.ev(m[pos[0]], env) if pos[0] in m else None
            b = self.ev(m[pos[1]], env) if pos[1] in m else None
            self.calls.append((q, {pos[0]: a, pos[1]: b}, node, list(self.loops)))
            if isinstance(a, Rec) and isinstance(b, Rec):
                ss = {repr(x[2]) for x in a.groups + b.groups}
                s = (a.groups + b.groups)[0][2] if len(ss) == 1 else "?"
                if len(ss) != 1:
                    self.err(node, f"`{astq.src(node, 60)}` correlates records of different setups")
                return Tup([Freq(q), Mat(a.groups, b.groups, ("S", s, tuple(x[1] for x in a.groups), tuple(x[1] for x in b.groups)))])
            return Tup([Freq(q), Mat((), (), ("opq", "estimator called on unrecognised records"))])
        if fn in ("numpy.empty", "numpy.zeros") and args and isinstance(args[0], Tup) and len(args[0].items) == 3:
            return Asm(node)                # (rows, columns, lines): filled by the stores that follow
        if fn in ("numpy.asarray", "numpy.array", "numpy.atleast_2d", "numpy.asanyarray", "numpy.ascontiguousarray", "numpy.asfarray", "numpy.copy") and args \
                and isinstance(args[0], Rec):
            return args[0]                  # the same records as an array (type / layout conversions keep the channels)
        if isinstance(node.func, ast.Attribute) and node.func.attr in ("astype", "copy") and isinstance(self.ev(node.func.value, env), Rec):
            return self.ev(node.func.value, env)
        if fn in ("numpy.vstack", "numpy.hstack", "numpy.concatenate", "numpy.row_stack", "numpy.column_stack") and args:
            a0 = args[0]
            axis = 0 if fn in ("numpy.vstack", "numpy.row_stack") else 1 if fn in ("numpy.hstack", "numpy.column_stack") else None
            if axis is None:
                ax = kw.get("axis") or (args[1] if len(args) > 1 else None)
                p = self.topoly(ax) if ax is not None else P.c(0)
                axis = int(p.const()) if p is not None and p.is_const() else None
            items = None
            mats_in = [x for x in a0.items if isinstance(x, Mat)] if isinstance(a0, Tup) else (self._mats_of(normalise(a0.t)) if isinstance(a0, Sq) else [])
            if mats_in and axis is not None:
                # the numpy axis names a logical axis through the (common) axis layout of the blocks
                if len({m.lay for m in mats_in}) != 1:
                    return Mat((), (), ("opq", f"`{astq.src(node, 50)}` joins blocks with different axis layouts"))
                what = mats_in[0].logical(axis)
                if what not in ("r", "c"):
                    return Mat(mats_in[0].rows, mats_in[0].cols, ("opq", f"`{astq.src(node, 50)}` joins blocks along the frequency axis"), mats_in[0].lay)
                axis = 0 if what == "r" else 1
            if isinstance(a0, Tup):
                items = a0.items
            elif isinstance(a0, Sq):
                t = normalise(a0.t)
                if t[0] == "obj":
                    items = [t[1]]
                elif t[0] == "cat" and all(x[0] == "obj" for x in t[1]):
                    items = [x[1] for x in t[1]]
                elif t[0] == "for" and t[4][0] == "obj" and isinstance(t[4][1], Mat) and axis == 0:
                    m = t[4][1]
                    v = t[1]
                    if gcanon(gsubs(m.cols, v, P.s("zz1"))) != gcanon(gsubs(m.cols, v, P.s("zz2"))):
                        self.err(node, f"`{astq.src(node, 60)}` stacks per-setup blocks whose columns differ from setup to setup")
                    return Mat((("forg", v, t[2], t[3], m.rows),), m.cols, ("for", v, t[2], t[3], m.form), m.lay)
                elif t[0] == "cat" and all(x[0] == "obj" or (x[0] == "for" and x[4][0] == "obj") for x in t[1]) and axis == 0:
                    rows, forms, cols = [], [], None
                    for x in t[1]:
                        if x[0] == "obj":
                            m = x[1]
                            rows += list(m.rows)
                            forms.append(m.form)
                        else:
                            m = x[4][1]
                            rows.append(("forg", x[1], x[2], x[3], m.rows))
                            forms.append(("for", x[1], x[2], x[3], m.form))
                        if cols is None:
                            cols = m.cols
                        elif not self.same(cols, m.cols):
                            self.err(node, f"`{astq.src(node, 60)}` stacks blocks with different columns")
                    return Mat(rows, cols, ("vstack", tuple(forms)), m.lay)
            if items and all(isinstance(x, Rec) for x in items) and axis == 0:
                return Rec([gg for x in items for gg in x.groups])
            if items and all(isinstance(x, Mat) for x in items) and axis in (0, 1):
                return self.stack(items, axis, node)
            if items and any(isinstance(x, (Mat, Rec)) for x in items):
                return Mat((), (), ("opq", f"{fn} of mixed values"))
        if fn in ("numpy.dot", "numpy.matmul") and len(args) == 2 and all(isinstance(x, Mat) for x in args):
            return self.matmul(args[0], args[1], node, dot=fn == "numpy.dot")
        if isinstance(node.func, ast.Attribute) and node.func.attr == "dot" and len(args) == 1:
            base = self.ev(node.func.value, env)
            if isinstance(base, Mat) and isinstance(args[0], Mat):
                return self.matmul(base, args[0], node, dot=True)
        if fn in ("numpy.linalg.multi_dot",) and args and isinstance(args[0], (Tup, Sq)):
            items = args[0].items if isinstance(args[0], Tup) else [self.elem_val(x) for x in normalise(args[0].t)[1]]
            if all(isinstance(x, Mat) for x in items):
                r_ = items[0]
                for x in items[1:]:
                    r_ = self.matmul(r_, x, node)
                return r_
        if fn in ("numpy.linalg.inv", "numpy.linalg.pinv", "scipy.linalg.inv", "scipy.linalg.pinv") and args and isinstance(args[0], Mat):
            m = args[0]
            if not m.matrix_last() or (fn.startswith("scipy") and m.ndim > 2):
                return Mat(m.cols, m.rows, ("opq", f"`{astq.src(node, 50)}` does not invert over the channel axes (axes {m.lay})"), m.lay)
            if not self.same(m.rows, m.cols):
                self.err(node, f"`{astq.src(node, 60)}` inverts a block that is not square in the channel groups: {m.show()}")
            return Mat(m.cols, m.rows, finv(m.form), m.lay)
        if fn in ("numpy.linalg.solve", "scipy.linalg.solve") and len(args) == 2 and all(isinstance(x, Mat) for x in args):
            a, b = args
            if not a.matrix_last() or (fn.startswith("scipy") and a.ndim > 2):
                return Mat(a.cols, b.cols, ("opq", f"`{astq.src(node, 50)}` does not solve over the channel axes"), a.lay)
            return self.matmul(Mat(a.cols, a.rows, finv(a.form), a.lay), b, node)
        if fn in ("numpy.transpose",) and args and isinstance(args[0], Mat):
            m = args[0]
            axes = args[1] if len(args) > 1 else kw.get("axes")
            if axes is None:
                return _permute(m, list(range(m.ndim))[::-1])
            order = self._int_tuple(axes)
            if order is None or sorted(a_ % m.ndim for a_ in order) != list(range(m.ndim)):
                return Mat(m.rows, m.cols, ("opq", f"axes of `{astq.src(node, 50)}` not evaluable"), m.lay)
            return _permute(m, [a_ % m.ndim for a_ in order])
        if fn == "numpy.swapaxes" and len(args) == 3 and isinstance(args[0], Mat):
            m = args[0]
            a_, b_ = self._int(args[1]), self._int(args[2])
            if a_ is None or b_ is None:
                return Mat(m.rows, m.cols, ("opq", f"axes of `{astq.src(node, 50)}` not evaluable"), m.lay)
            order = list(range(m.ndim))
            order[a_ % m.ndim], order[b_ % m.ndim] = order[b_ % m.ndim], order[a_ % m.ndim]
            return _permute(m, order)
        if fn == "numpy.moveaxis" and args and isinstance(args[0], Mat):
            m = args[0]
            src_ = self._int(args[1] if len(args) > 1 else kw.get("source"))
            dst_ = self._int(args[2] if len(args) > 2 else kw.get("destination"))
            if src_ is None or dst_ is None:
                return Mat(m.rows, m.cols, ("opq", f"axes of `{astq.src(node, 50)}` not evaluable"), m.lay)
            order = list(range(m.ndim))
            order.remove(src_ % m.ndim)
            order.insert(dst_ % m.ndim, src_ % m.ndim)
            return _permute(m, order)
        if fn in ("numpy.sum", "numpy.mean", "sum", "numpy.nanmean") and args and isinstance(args[0], Sq):
            t = normalise(args[0].t)
            ax = kw.get("axis") or (args[1] if len(args) > 1 and fn != "sum" else None)
            axp = self.topoly(ax) if ax is not None else P.c(0)
            if t[0] == "for" and t[4][0] == "obj" and isinstance(t[4][1], Mat) and axp is not None and axp == P.c(0):
                m, v = t[4][1], t[1]
                star = lambda items: tuple(("g", it[1], "*") if it[0] == "g" and it[1] == "ref" else it for it in items)
                dep = any(it[0] != "g" or (it[1] != "ref" and v in repr(it[2])) for it in m.rows + m.cols)
                if dep:
                    self.err(node, f"`{astq.src(node, 60)}` sums blocks over the setups whose channel groups differ from setup to setup: {m.show()}")
                full = t[2] == P.c(0) and t[3] == P.s("N")
                form = ("mean", v, m.form) if full else ("opq", f"sum over setups {t[2]!r}..{t[3]!r} (not all of them)")
                return Mat(star(m.rows), star(m.cols), form, m.lay)
        if fn in ("numpy.linalg.inv", "numpy.linalg.pinv") and args and isinstance(args[0], Sq):
            t = normalise(args[0].t)
            if t[0] == "for" and t[4][0] == "obj" and isinstance(t[4][1], Mat):
                # batched inverse of one block per setup
                m = t[4][1]
                if m.matrix_last():
                    if not self.same(m.rows, m.cols):
                        self.err(node, f"`{astq.src(node, 60)}` inverts blocks that are not square in the channel groups: {m.show()}")
                    return Sq(("for", t[1], t[2], t[3], ("obj", Mat(m.cols, m.rows, finv(m.form), m.lay))))
        if fn in ("numpy.array", "numpy.asarray", "numpy.stack") and args and isinstance(args[0], Sq):
            t = normalise(args[0].t)
            if t[0] == "for" and t[4][0] == "obj" and isinstance(t[4][1], Mat):
                m = t[4][1]
                ax_ = kw.get("axis")
                if repr(m.subs(t[1], P.s("zz1"))) != repr(m.subs(t[1], P.s("zz2"))) and (ax_ is None or self._int(ax_) == 0):
                    # one DIFFERENT block per setup along a new leading axis: a batch, indexed / iterated / reduced like the list
                    return args[0]
                if repr(m.subs(t[1], P.s("zz1"))) == repr(m.subs(t[1], P.s("zz2"))):
                    # the same typed block for every line of the grid: a stack along a new leading (frequency) axis
                    if m.lay[2] is None:
                        return Mat(m.rows, m.cols, m.form, (m.lay[0] + 1, m.lay[1] + 1, 0))
                    return Mat(m.rows, m.cols, ("opq", f"`{astq.src(node, 50)}` stacks blocks that already have a frequency axis"), m.lay)
        if fn in ("numpy.conj", "numpy.conjugate", "numpy.copy", "numpy.ascontiguousarray", "numpy.asarray", "numpy.array", "numpy.real_if_close", "numpy.asfortranarray") and args and isinstance(args[0], Mat):
            return args[0]
        if isinstance(node.func, ast.Attribute) and node.func.attr in ("conj", "conjugate", "copy", "astype") :
            base = self.ev(node.func.value, env)
            if isinstance(base, Mat):
                return base
        if isinstance(node.func, ast.Attribute) and node.func.attr == "reshape" and args:
            base = self.ev(node.func.value, env)
            if isinstance(base, Mat):
                shp = args[0] if len(args) == 1 and isinstance(args[0], Tup) else Tup(list(args))
                own = self.attr_hook(base, "shape", node)
                if isinstance(own, Tup) and len(own.items) == len(shp.items) and all(
                        isinstance(a_, I) and isinstance(b_, I) and a_.p == b_.p for a_, b_ in zip(own.items, shp.items)):
                    return base
                return Mat(base.rows, base.cols, ("opq", f"`{astq.src(node, 50)}` reshapes a typed block"), base.lay)
        if fn == "len" and len(args) == 1 and isinstance(args[0], (Rec, Mat)):
            own = self.attr_hook(args[0], "shape", node)          # len(array) = array.shape[0]
            if isinstance(own, Tup) and own.items:
                return own.items[0]
        if fn == "len" and args and isinstance(args[0], Setups):
            return I(P.s("N") - args[0].lo)
        if fn == "len" and args and isinstance(args[0], Sq):
            t = normalise(args[0].t)
            if t[0] == "for" and t[2] == P.c(0):
                return I(t[3])
        return None
