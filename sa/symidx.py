"""E4 - symbolic evaluation of integer/real expressions as multivariate Laurent polynomials (sa/poly.py):
slice bounds, range arguments, scale factors.  Names are expanded through single assignments of the enclosing
function; parameters, `.shape[k]`, `len(x)` become symbols."""
import ast

from .poly import P, P_div, P_pow
from . import astq


class SymEval:
    def __init__(self, prog, fi, env=None, stop=()):
        self.prog = prog
        self.fi = fi
        self.env = dict(env or {})
        self.amap = astq.assignments(fi)
        self.stop = set(stop)
        self.depth = 0
        self.atoms = False  # treat abs/real/imag/log/exp/conj of a polynomial as an opaque atom
        self.opaque_calls = False  # with atoms: any other call becomes an opaque symbol of its evaluated arguments

    def sym(self, e):
        return P.s(astq.src(e, 60).replace(" ", ""))

    def ev(self, e):
        self.depth += 1
        try:
            if self.depth > 40:
                return None
            return self._ev(e)
        finally:
            self.depth -= 1

    def _ev(self, e):
        if isinstance(e, ast.Constant):
            if isinstance(e.value, bool) or not isinstance(e.value, (int, float)):
                return None
            from fractions import Fraction
            return P.c(Fraction(e.value).limit_denominator(10**9))
        if isinstance(e, ast.Name):
            if e.id in self.env:
                return self.env[e.id]
            d = astq.unique_def(self.amap, e.id)
            if d is not None and e.id not in self.stop:
                self.stop.add(e.id)
                try:
                    r = self.ev(d)
                finally:
                    self.stop.discard(e.id)
                if r is not None:
                    return r
            return P.s(e.id)
        if isinstance(e, ast.UnaryOp):
            v = self.ev(e.operand)
            if v is None:
                return None
            if isinstance(e.op, ast.USub):
                return -v
            if isinstance(e.op, ast.UAdd):
                return v
            return None
        if isinstance(e, ast.BinOp):
            a, b = self.ev(e.left), self.ev(e.right)
            if a is None or b is None:
                return None
            if isinstance(e.op, ast.Add):
                return a + b
            if isinstance(e.op, ast.Sub):
                return a - b
            if isinstance(e.op, ast.Mult):
                return a * b
            if isinstance(e.op, ast.Div):
                return P_div(a, b)
            if isinstance(e.op, ast.FloorDiv):
                r = P_div(a, b)
                if r is not None and b.is_const():
                    return P.s(f"floor({r!r})") if not all(v.denominator == 1 for v in r.t.values()) else r
                # a // b with a symbolic divisor: the quotient of two counts, read like int(a / b) above (exact when b divides a)
                return r if r is not None else P.s(f"floor({astq.src(e, 60)})")
            if isinstance(e.op, ast.Pow):
                if b.is_const():
                    return P_pow(a, b.const())
                return None
            return None
        if isinstance(e, ast.Call):
            nm = astq.callee_name(self.prog, self.fi, e)
            if nm in ("int", "float", "numpy.int64", "numpy.float64") and e.args:
                return self.ev(e.args[0])
            if nm == "len" and e.args:
                # the length of an array is its first extent: one symbol for both spellings, where the other spelling evaluates
                alt = self.ev(ast.Subscript(value=ast.Attribute(value=e.args[0], attr="shape", ctx=ast.Load()), slice=ast.Constant(value=0), ctx=ast.Load())) \
                    if not isinstance(e.args[0], (ast.List, ast.Tuple, ast.ListComp, ast.Dict)) else None
                return alt if alt is not None else P.s(f"len({astq.src(e.args[0], 40)})")
            if nm in ("numpy.sqrt", "math.sqrt") and e.args:
                v = self.ev(e.args[0])
                return P_pow(v, 0.5) if v is not None else None
            if nm in ("numpy.sum", "sum") and e.args:
                a0 = e.args[0]
                # prefix sum  sum(X[:k])  ->  psum[X,k]   (psum[X,k+1] - psum[X,k] = X[k])
                if isinstance(a0, ast.Subscript) and isinstance(a0.slice, ast.Slice) and a0.slice.lower is None and a0.slice.step is None and a0.slice.upper is not None:
                    k = self.ev(a0.slice.upper)
                    if k is not None:
                        if k == P.c(0):
                            return P.c(0)
                        return P.s(f"psum[{astq.src(a0.value, 40)},{k!r}]")
                return P.s(f"sum({astq.src(a0, 40)})")
            if self.atoms and e.args:
                short = {"numpy.abs": "abs", "abs": "abs", "numpy.absolute": "abs", "numpy.real": "re", "numpy.imag": "im", "numpy.log": "log",
                         "numpy.exp": "exp", "numpy.conj": "conj", "numpy.conjugate": "conj", "numpy.sqrt": None}.get(nm)
                if short:
                    v = self.ev(e.args[0])
                    if v is not None:
                        return P.s(f"{short}[{v!r}]")
                if self.opaque_calls:
                    parts = []
                    for a in e.args:
                        v = self.ev(a)
                        parts.append(repr(v) if v is not None else astq.src(a, 60).replace(" ", ""))
                    return P.s(f"{nm.split('.')[-1]}[{','.join(parts)}]")
            return None
        if isinstance(e, ast.Subscript):
            if isinstance(e.value, ast.Attribute) and e.value.attr == "shape":
                idx = e.slice
                if isinstance(idx, ast.Constant):
                    base = e.value.value
                    alloc = base
                    if isinstance(base, ast.Name) and base.id not in self.stop:
                        alloc = astq.unique_def(self.amap, base.id)
                    while isinstance(alloc, ast.Call) and isinstance(alloc.func, ast.Attribute) and alloc.func.attr in ("astype", "copy"):
                        alloc = alloc.func.value
                    if isinstance(alloc, ast.Call) and astq.callee_name(self.prog, self.fi, alloc) in ("numpy.zeros", "numpy.ones", "numpy.empty", "numpy.full") and alloc.args \
                            and isinstance(alloc.args[0], ast.Tuple) and isinstance(idx.value, int) and 0 <= idx.value < len(alloc.args[0].elts) \
                            and not any(isinstance(x, ast.Starred) for x in alloc.args[0].elts):
                        r = self.ev(alloc.args[0].elts[idx.value])
                        if r is not None:
                            return r
                    if isinstance(idx.value, int) and idx.value in (0, 1):
                        r = self.shape(e.value.value, idx.value)
                        if r is not None:
                            return r
                    return P.s(f"{astq.src(e.value.value, 40)}.shape[{idx.value}]")
            return P.s(astq.src(e, 60).replace(" ", ""))
        if isinstance(e, ast.Attribute) and self.atoms and e.attr in ("real", "imag"):
            v = self.ev(e.value)
            if v is not None:
                return P.s(f"{'re' if e.attr == 'real' else 'im'}[{v!r}]")
        if isinstance(e, ast.Attribute):
            r = self.prog.resolve_expr(self.fi.mod, e)
            from .program import Ext
            if isinstance(r, Ext) and r.name in ("numpy.pi", "math.pi"):
                return P.s("pi")
            return P.s(astq.src(e, 60))
        return None


ELEMENTWISE = {"numpy.sqrt", "numpy.abs", "numpy.absolute", "numpy.real", "numpy.imag", "numpy.conj", "numpy.conjugate", "numpy.array", "numpy.asarray",
               "numpy.copy", "numpy.ascontiguousarray", "numpy.negative", "numpy.exp", "numpy.log", "numpy.nan_to_num"}


def _shape(self, e, k, depth=0):
    """extent of axis k (0 or 1) of the 2-d array expression e as a polynomial in the extents of the function's inputs; None when
    the expression is not one of: name with one definition, product, element-wise operation, row/column slice, transpose, factor
    of an SVD / QR"""
    if depth > 14:
        return None
    if isinstance(e, ast.Name):
        if e.id in self.stop:
            return None
        ent = self.amap.get(e.id) or []
        d = astq.unique_def(self.amap, e.id)
        if d is None and len(ent) == 1 and isinstance(ent[0][0], ast.Assign) and isinstance(ent[0][0].targets[0], (ast.Tuple, ast.List)) and isinstance(ent[0][0].value, ast.Call):
            # U, S, Vt = svd(H): element i of the call
            names = [getattr(x, "id", None) for x in ent[0][0].targets[0].elts]
            if e.id in names and not any(isinstance(x, ast.Starred) for x in ent[0][0].targets[0].elts):
                d = ast.Subscript(value=ent[0][0].value, slice=ast.Constant(value=names.index(e.id)), ctx=ast.Load())
        if d is None:
            if ent and all(isinstance(st, ast.FunctionDef) for st, _ in ent):
                return P.s(f"{e.id}.shape[{k}]")       # a parameter
            return None
        self.stop.add(e.id)
        try:
            return _shape(self, d, k, depth + 1)
        finally:
            self.stop.discard(e.id)
    if isinstance(e, ast.BinOp):
        if isinstance(e.op, ast.MatMult):
            return _shape(self, e.left if k == 0 else e.right, k, depth + 1)
        a, b = _shape(self, e.left, k, depth + 1), _shape(self, e.right, k, depth + 1)
        return a if a is not None else b
    if isinstance(e, ast.Attribute) and e.attr == "T":
        return _shape(self, e.value, 1 - k, depth + 1)
    if isinstance(e, ast.Attribute) and e.attr in ("real", "imag"):
        return _shape(self, e.value, k, depth + 1)
    if isinstance(e, ast.Call):
        nm = astq.callee_name(self.prog, self.fi, e)
        if nm in ("numpy.dot", "numpy.matmul") and len(e.args) == 2:
            return _shape(self, e.args[0] if k == 0 else e.args[1], k, depth + 1)
        if nm in ELEMENTWISE and e.args:
            return _shape(self, e.args[0], k, depth + 1)
        if nm in ("numpy.linalg.pinv", "numpy.linalg.inv", "scipy.linalg.pinv", "scipy.linalg.inv", "numpy.transpose") and len(e.args) == 1:
            return _shape(self, e.args[0], 1 - k, depth + 1)
        if isinstance(e.func, ast.Attribute) and e.func.attr in ("copy", "conj", "astype", "conjugate") and nm is not None and nm.startswith("."):
            return _shape(self, e.func.value, k, depth + 1)
        # explicit shapes: X.reshape(a, b) / X.reshape((a, b)) / np.reshape(X, (a, b)) / np.zeros((a, b)) ...
        shp = None
        if isinstance(e.func, ast.Attribute) and e.func.attr == "reshape" and nm is not None and nm.startswith("."):
            shp = e.args[0].elts if len(e.args) == 1 and isinstance(e.args[0], (ast.Tuple, ast.List)) else list(e.args)
        elif nm == "numpy.reshape" and len(e.args) == 2 and isinstance(e.args[1], (ast.Tuple, ast.List)):
            shp = e.args[1].elts
        elif nm in ("numpy.zeros", "numpy.ones", "numpy.empty", "numpy.full") and e.args and isinstance(e.args[0], (ast.Tuple, ast.List)):
            shp = e.args[0].elts
        if shp is not None and k < len(shp) and not any(isinstance(x, ast.Starred) for x in shp):
            v = self.ev(shp[k])
            if v is not None and not (v.is_const() and v.const() < 0):
                return v
        return None
    if isinstance(e, ast.Subscript):
        v = e.value
        if isinstance(v, ast.Call) and isinstance(e.slice, ast.Constant) and isinstance(e.slice.value, int):
            nm = astq.callee_name(self.prog, self.fi, v)
            fm = astq.kwarg(v, "full_matrices", 1)
            if nm in ("numpy.linalg.svd", "scipy.linalg.svd") and v.args:
                # U: (M, M) or (M, K); Vh: (N, N) or (K, N): the leading extent of U and the trailing one of Vh do not depend on the mode
                if e.slice.value == 0 and (k == 0 or fm is None or (isinstance(fm, ast.Constant) and fm.value is True)):
                    return _shape(self, v.args[0], 0, depth + 1)
                if e.slice.value == 2 and (k == 1 or fm is None or (isinstance(fm, ast.Constant) and fm.value is True)):
                    return _shape(self, v.args[0], 1, depth + 1)
                return None
            if nm in ("numpy.linalg.qr", "scipy.linalg.qr") and v.args and e.slice.value == 0 and k == 0:
                return _shape(self, v.args[0], 0, depth + 1)
            return None
        el = astq.index_elts(e)
        if len(el) > 2 or any(not isinstance(x, ast.Slice) for x in el):
            return None
        if k < len(el):
            sl = el[k]
            if sl.step is not None:
                return None
            if sl.lower is None and sl.upper is None:
                return _shape(self, v, k, depth + 1)
            lo = self.ev(sl.lower) if sl.lower is not None else P.c(0)
            if sl.upper is not None:
                up = sl.upper
                if isinstance(up, ast.UnaryOp) and isinstance(up.op, ast.USub):
                    ext, cut = _shape(self, v, k, depth + 1), self.ev(up.operand)
                    hi = ext - cut if ext is not None and cut is not None else None
                else:
                    hi = self.ev(up)
            else:
                hi = _shape(self, v, k, depth + 1)
            if lo is None or hi is None:
                return None
            return hi - lo
        return _shape(self, v, k, depth + 1)
    return None


SymEval.shape = _shape


def range_args(se, call):
    """(start, stop, step) polynomials of a range()/trange()/np.arange() call"""
    a = [se.ev(x) for x in call.args]
    if any(x is None for x in a):
        return None
    if len(a) == 1:
        return P.c(0), a[0], P.c(1)
    if len(a) == 2:
        return a[0], a[1], P.c(1)
    if len(a) == 3:
        return a[0], a[1], a[2]
    return None


RANGE_NAMES = {"range", "tqdm.trange", "numpy.arange"}


def is_range(prog, fi, e, _depth=0):
    if isinstance(e, ast.Name) and _depth < 3:
        d = astq.unique_def(astq.assignments(fi), e.id)
        return is_range(prog, fi, d, _depth + 1) if d is not None else None
    if isinstance(e, ast.Call):
        nm = astq.callee_name(prog, fi, e)
        if nm in RANGE_NAMES:
            return e
        if nm == "tqdm.tqdm" and e.args:
            return is_range(prog, fi, e.args[0])
    return None


def slice_bounds(se, sl, extent=None):
    """(lo, hi) of a Slice with step None; lo defaults to 0, hi to extent"""
    if not isinstance(sl, ast.Slice) or sl.step is not None:
        return None
    lo = se.ev(sl.lower) if sl.lower is not None else P.c(0)
    hi = se.ev(sl.upper) if sl.upper is not None else extent
    if lo is None or hi is None:
        return None
    return lo, hi
